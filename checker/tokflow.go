package main

import (
	"go/token"
	"go/types"
	"sort"

	"golang.org/x/tools/go/ssa"
)

// tokFlow: a forward may-analysis of one function over the finite token
// enumeration: for every CFG edge, the set of values the function's token
// subject (the tokType value its switch compares with constants) can have
// when that edge is taken. A comparison `subject == K` narrows the true edge
// to {K} and removes K from the false edge; everything else passes the set
// on; joins take the union. It lets a value that is a phi of constants chosen
// by an inner switch on the same subject be read per case label.
type tokFlow struct {
	edge map[[2]*ssa.BasicBlock]map[int64]bool
}

// tokSubjectKey: identity of a token subject: the parameter itself or a field
// of a parameter (nud's token.tokenType); "" when v is neither.
func (c *Ctx) tokSubjectKey(v ssa.Value) string {
	if !types.Identical(v.Type(), c.A.TokT) {
		return ""
	}
	switch v := v.(type) {
	case *ssa.Parameter:
		return "p:" + v.Name()
	case *ssa.Field:
		if p, ok := v.X.(*ssa.Parameter); ok {
			return "p:" + p.Name() + "." + itoa(v.Field)
		}
	case *ssa.UnOp:
		if v.Op == token.MUL {
			if fa, ok := v.X.(*ssa.FieldAddr); ok {
				if al, ok := fa.X.(*ssa.Alloc); ok {
					if p := spilledParam(al); p != nil {
						return "p:" + p.Name() + "." + itoa(fa.Field)
					}
				}
			}
			if al, ok := v.X.(*ssa.Alloc); ok {
				if p := spilledParam(al); p != nil {
					return "p:" + p.Name()
				}
			}
		}
	}
	return ""
}

func itoa(i int) string {
	if i == 0 {
		return "0"
	}
	s := ""
	for i > 0 {
		s = string(rune('0'+i%10)) + s
		i /= 10
	}
	return s
}

// spilledParam: the alloc is the stack copy of a parameter that is stored once
// (the parameter) and never written again.
func spilledParam(al *ssa.Alloc) *ssa.Parameter {
	var par *ssa.Parameter
	for _, rf := range *al.Referrers() {
		switch rf := rf.(type) {
		case *ssa.Store:
			if rf.Addr != al {
				return nil
			}
			p, ok := rf.Val.(*ssa.Parameter)
			if !ok || par != nil {
				return nil
			}
			par = p
		case *ssa.FieldAddr:
			for _, rr := range *rf.Referrers() {
				if st, ok := rr.(*ssa.Store); ok && st.Addr == rf {
					return nil
				}
			}
		}
	}
	return par
}

func (c *Ctx) tokFlowOf(fn *ssa.Function) *tokFlow {
	if c.tokFlowMemo == nil {
		c.tokFlowMemo = map[*ssa.Function]*tokFlow{}
	}
	if tf, ok := c.tokFlowMemo[fn]; ok {
		return tf
	}
	// the subject: the key compared with token constants most often
	type cmp struct {
		k     int64
		holds int // successor on which subject == k
	}
	cmps := map[*ssa.BasicBlock]map[string]cmp{}
	count := map[string]int{}
	for _, b := range fn.Blocks {
		ifi := blockIf(b)
		if ifi == nil {
			continue
		}
		cond := ifi.Cond
		neg := false
		if u, ok := cond.(*ssa.UnOp); ok && u.Op == token.NOT {
			cond, neg = u.X, true
		}
		bo, ok := cond.(*ssa.BinOp)
		if !ok || (bo.Op != token.EQL && bo.Op != token.NEQ) {
			continue
		}
		x, y := bo.X, bo.Y
		if _, isK := constInt(x); isK {
			x, y = y, x
		}
		k, isK := constInt(y)
		key := c.tokSubjectKey(x)
		if !isK || key == "" {
			continue
		}
		holds := 0
		if bo.Op == token.NEQ {
			holds = 1
		}
		if neg {
			holds = 1 - holds
		}
		cmps[b] = map[string]cmp{key: {k, holds}}
		count[key]++
	}
	var keys []string
	for k := range count {
		keys = append(keys, k)
	}
	sort.Slice(keys, func(i, j int) bool {
		if count[keys[i]] != count[keys[j]] {
			return count[keys[i]] > count[keys[j]]
		}
		return keys[i] < keys[j]
	})
	if len(keys) == 0 {
		c.tokFlowMemo[fn] = nil
		return nil
	}
	subj := keys[0]
	universe := map[int64]bool{}
	for k := range c.A.TokName {
		universe[k] = true
	}
	in := map[*ssa.BasicBlock]map[int64]bool{}
	for _, b := range fn.Blocks {
		in[b] = map[int64]bool{}
	}
	for k := range universe {
		in[fn.Blocks[0]][k] = true
	}
	tf := &tokFlow{edge: map[[2]*ssa.BasicBlock]map[int64]bool{}}
	out := func(b *ssa.BasicBlock, si int) map[int64]bool {
		s := map[int64]bool{}
		cm, has := cmps[b][subj]
		for k := range in[b] {
			if has {
				if si == cm.holds && k != cm.k {
					continue
				}
				if si != cm.holds && k == cm.k {
					continue
				}
			}
			s[k] = true
		}
		return s
	}
	for changed := true; changed; {
		changed = false
		for _, b := range fn.Blocks {
			for si, s := range b.Succs {
				for k := range out(b, si) {
					if !in[s][k] {
						in[s][k] = true
						changed = true
					}
				}
			}
		}
	}
	for _, b := range fn.Blocks {
		for si, s := range b.Succs {
			e := [2]*ssa.BasicBlock{b, s}
			if tf.edge[e] == nil {
				tf.edge[e] = map[int64]bool{}
			}
			for k := range out(b, si) {
				tf.edge[e][k] = true
			}
		}
	}
	c.tokFlowMemo[fn] = tf
	return tf
}

// phiEdgesFor: the incoming values of ph that can be selected when the token
// subject of its function is one of labels (all of them when labels is empty
// or the function compares no token subject).
func (c *Ctx) phiEdgesFor(ph *ssa.Phi, labels []namedConst) []ssa.Value {
	fn := ph.Parent()
	tf := c.tokFlowOf(fn)
	if tf == nil || len(labels) == 0 {
		return ph.Edges
	}
	var out []ssa.Value
	for i, e := range ph.Edges {
		set := tf.edge[[2]*ssa.BasicBlock{ph.Block().Preds[i], ph.Block()}]
		hit := false
		for _, l := range labels {
			if set[l.Val] {
				hit = true
			}
		}
		if hit {
			out = append(out, e)
		}
	}
	return out
}

// constsFor: the integer constants v can be under labels: a constant, or a
// phi (of phis) of constants filtered by the token flow.
func (c *Ctx) constsFor(v ssa.Value, labels []namedConst) ([]int64, bool) {
	seen := map[ssa.Value]bool{}
	set := map[int64]bool{}
	var walk func(v ssa.Value) bool
	walk = func(v ssa.Value) bool {
		if seen[v] {
			return true
		}
		seen[v] = true
		if k, ok := constInt(v); ok {
			set[k] = true
			return true
		}
		if ph, ok := v.(*ssa.Phi); ok {
			es := c.phiEdgesFor(ph, labels)
			if len(es) == 0 {
				return false
			}
			for _, e := range es {
				if !walk(e) {
					return false
				}
			}
			return true
		}
		return false
	}
	if !walk(v) || len(set) == 0 {
		return nil, false
	}
	var out []int64
	for k := range set {
		out = append(out, k)
	}
	sort.Slice(out, func(i, j int) bool { return out[i] < out[j] })
	return out, true
}
