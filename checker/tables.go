package main

import (
	"fmt"
	"go/ast"
	"go/constant"
	"go/token"
	"go/types"
	"sort"
	"strings"

	"golang.org/x/tools/go/ssa"
)

// ---------------------------------------------------------------- table evaluation

// globalInit returns the initialiser expression of a package-level variable.
func (c *Ctx) globalInit(name string) ast.Expr {
	for _, f := range c.Lib.Syntax {
		for _, d := range f.Decls {
			gd, ok := d.(*ast.GenDecl)
			if !ok || gd.Tok != token.VAR {
				continue
			}
			for _, s := range gd.Specs {
				vs := s.(*ast.ValueSpec)
				for i, n := range vs.Names {
					if n.Name == name && i < len(vs.Values) {
						return vs.Values[i]
					}
				}
			}
		}
	}
	return nil
}

func (c *Ctx) constVal(e ast.Expr) constant.Value {
	if tv, ok := c.Lib.TypesInfo.Types[e]; ok {
		return tv.Value
	}
	return nil
}

// evalIntMap evaluates a map composite literal with constant integer-like keys
// and constant values.
func (c *Ctx) evalIntMap(name string) (map[int64]constant.Value, bool) {
	e := c.globalInit(name)
	cl, ok := e.(*ast.CompositeLit)
	if !ok {
		return nil, false
	}
	out := map[int64]constant.Value{}
	next := int64(0)
	for _, el := range cl.Elts {
		kv, ok := el.(*ast.KeyValueExpr)
		if !ok {
			// an array / slice literal: positional elements continue after the last key
			if _, isMap := c.Lib.TypesInfo.Types[cl].Type.Underlying().(*types.Map); isMap {
				return nil, false
			}
			v := c.constVal(el)
			if v == nil {
				return nil, false
			}
			if _, dup := out[next]; dup {
				return nil, false
			}
			out[next] = v
			next++
			continue
		}
		k, v := c.constVal(kv.Key), c.constVal(kv.Value)
		if k == nil || v == nil {
			return nil, false
		}
		ki, ok := constant.Int64Val(constant.ToInt(k))
		if !ok {
			return nil, false
		}
		if _, dup := out[ki]; dup {
			return nil, false
		}
		out[ki] = v
		next = ki + 1
	}
	return out, true
}

// BP is the evaluated precedence table.
type BP struct {
	m map[int64]int64
}

func (b *BP) of(tok int64) int64 { return b.m[tok] }

// The precedence table is either a package-level map[tokType]int with a
// constant literal, or a pure function/method tokType -> int (a switch); in
// both cases it is evaluated for every token constant without running it.
type powerSrc struct {
	g   *ssa.Global
	fn  *ssa.Function
	bp  *BP
	pos token.Pos
}

func (c *Ctx) power() *powerSrc {
	if c.powerCache != nil {
		return c.powerCache
	}
	ps := &powerSrc{bp: &BP{m: map[int64]int64{}}}
	if g := c.A.BindingPowers; g != nil {
		m, ok := c.evalIntMap(g.Name())
		if !ok {
			lost("precedence table %s is not a constant map literal", g.Name())
		}
		for k, v := range m {
			iv, ok := constant.Int64Val(constant.ToInt(v))
			if !ok {
				lost("precedence table: non-integer power")
			}
			ps.bp.m[k] = iv
		}
		ps.g, ps.pos = g, g.Pos()
		c.powerCache = ps
		return ps
	}
	// a pure function of the token
	var cands []*ssa.Function
	for _, fn := range allFuncs(c.SLib) {
		if fn.Blocks == nil || len(fn.Params) != 1 || !types.Identical(fn.Params[0].Type(), c.A.TokT) {
			continue
		}
		res := fn.Signature.Results()
		if res.Len() != 1 || !isPlainInt(res.At(0).Type()) {
			continue
		}
		// it must be what parseExpression compares its parameter with
		used := false
		for _, call := range callsTo(c.A.ParseExpr, fn) {
			_ = call
			used = true
		}
		if used {
			cands = append(cands, fn)
		}
	}
	if len(cands) != 1 {
		lost("precedence table not found: no map[tokType]int global and %d pure tokType->int functions used by parseExpression", len(cands))
	}
	fn := cands[0]
	for _, k := range c.A.Toks {
		f := newFolder(c)
		f.env[fn.Params[0]] = fval{kind: 'i', i: k.Val, bits: 64}
		st := f.run(fn.Blocks[0], 0, nil)
		if st.kind != "return" {
			lost("precedence function %s does not fold to a constant for %s (%s %s)", fname(fn), k.Name, st.kind, st.what)
		}
		v, ok := f.eval(st.instr.(*ssa.Return).Results[0])
		if !ok || v.kind != 'i' {
			lost("precedence function %s: result for %s is not a constant", fname(fn), k.Name)
		}
		if v.i != 0 {
			ps.bp.m[k.Val] = v.i
		}
	}
	ps.fn, ps.pos = fn, fn.Pos()
	c.powerCache = ps
	return ps
}

func (c *Ctx) bindingPowers() *BP { return c.power().bp }

// powerIndex: v is "the binding power of <index>" — a lookup in the table or a
// call of the precedence function; returns the token operand.
func (c *Ctx) powerIndex(v ssa.Value) (ssa.Value, bool) {
	ps := c.power()
	switch v := v.(type) {
	case *ssa.Lookup:
		if ps.g != nil && isLoadOfGlobal(v.X, ps.g) {
			return v.Index, true
		}
	case *ssa.UnOp:
		// table[tok] of an array / slice table
		if ia, ok := v.X.(*ssa.IndexAddr); ok && v.Op == token.MUL && ps.g != nil {
			if ia.X == ps.g || isLoadOfGlobal(ia.X, ps.g) {
				return ia.Index, true
			}
		}
	case *ssa.Index:
		if ps.g != nil && isLoadOfGlobal(v.X, ps.g) {
			return v.Index, true
		}
	case *ssa.Call:
		if ps.fn != nil && staticCallee(v) == ps.fn && len(v.Call.Args) == 1 {
			return v.Call.Args[0], true
		}
	}
	return nil, false
}

// isLoadOfGlobal reports whether v is a load (*g) of the given global.
func isLoadOfGlobal(v ssa.Value, g *ssa.Global) bool {
	u, ok := v.(*ssa.UnOp)
	return ok && u.Op == token.MUL && u.X == g
}

// bpEval evaluates an int-valued SSA expression built from constants, lookups
// in the precedence table and +/-; "param" results mean "the int parameter".
type bpVal struct {
	vals  []int64
	param *ssa.Parameter
	ok    bool
}

func (c *Ctx) bpEval(v ssa.Value, labels []namedConst, bp *BP) bpVal {
	return c.bpEvalS(v, labels, bp, nil)
}

// bpEvalS: as bpEval, inside a helper whose parameters are bound by subst to
// the values of the outermost call site.
func (c *Ctx) bpEvalS(v ssa.Value, labels []namedConst, bp *BP, subst map[*ssa.Parameter]ssa.Value) bpVal {
	v = translate(v, subst)
	switch v := v.(type) {
	case *ssa.Const:
		if n, ok := constInt(v); ok {
			return bpVal{vals: []int64{n}, ok: true}
		}
	case *ssa.Parameter:
		return bpVal{param: v, ok: true}
	case *ssa.Phi:
		// a power picked by an inner switch on the token: the constants the
		// phi can carry under these labels
		if ks, ok := c.constsFor(v, labels); ok {
			return bpVal{vals: ks, ok: true}
		}
	case *ssa.Lookup, *ssa.Call, *ssa.UnOp, *ssa.Index:
		index, isPower := c.powerIndex(v)
		if !isPower {
			return bpVal{}
		}
		index = translate(index, subst)
		if k, ok := constInt(index); ok {
			return bpVal{vals: []int64{bp.of(k)}, ok: true}
		}
		if p, ok := index.(*ssa.Parameter); ok && types.Identical(p.Type(), c.A.TokT) && len(labels) > 0 {
			seen := map[int64]bool{}
			var out []int64
			for _, l := range labels {
				x := bp.of(l.Val)
				if !seen[x] {
					seen[x] = true
					out = append(out, x)
				}
			}
			return bpVal{vals: out, ok: true}
		}
	case *ssa.BinOp:
		if v.Op == token.ADD || v.Op == token.SUB {
			x, y := c.bpEvalS(v.X, labels, bp, subst), c.bpEvalS(v.Y, labels, bp, subst)
			if x.ok && y.ok && x.param == nil && y.param == nil {
				var out []int64
				for _, a := range x.vals {
					for _, b := range y.vals {
						if v.Op == token.ADD {
							out = append(out, a+b)
						} else {
							out = append(out, a-b)
						}
					}
				}
				return bpVal{vals: out, ok: true}
			}
		}
	}
	return bpVal{}
}

// ledTokens: labels of the switch in led (tokens with an infix handler).
func (c *Ctx) switchLabels(fn *ssa.Function, enum types.Type) (*EnumSwitch, []namedConst) {
	sws := c.enumSwitches(c.Lib, fn, enum)
	if len(sws) == 0 {
		lost("%s has no switch over %s", fname(fn), enum)
	}
	var out []namedConst
	for _, cl := range sws[0].Clauses {
		out = append(out, cl.Labels...)
	}
	return sws[0], out
}

func tokSetStr(c *Ctx, s map[int64]bool) string {
	var n []string
	for k := range s {
		n = append(n, c.A.TokName[k])
	}
	sort.Strings(n)
	return "{" + strings.Join(n, ",") + "}"
}

func sameSet(a, b map[int64]bool) bool {
	if len(a) != len(b) {
		return false
	}
	for k := range a {
		if !b[k] {
			return false
		}
	}
	return true
}

// specRank: the precedence order of the specification, for tokens with an
// infix handler (and the prefix operator tNot).
var specRank = map[string]int{
	"tPipe": 1, "tOr": 2, "tAnd": 3,
	"tEQ": 4, "tNE": 4, "tLT": 4, "tLTE": 4, "tGT": 4, "tGTE": 4,
	"tFlatten": 5, "tFilter": 6, "tDot": 7, "tNot": 8, "tLbracket": 9, "tLparen": 10,
}

func (c *Ctx) tok(name string) int64 {
	v, ok := c.A.Tok[name]
	if !ok {
		lost("token constant %s not found", name)
	}
	return v
}

func init() {
	register("T-P1", ruleP1)
	register("T-P2", ruleP2)
	register("T-P3", ruleP3)
	register("T-P4", ruleP4)
	register("T-WS", ruleWS)
	register("T-PAREN", ruleParen)
	register("T-FUNCS", ruleFuncTable)
	register("T-TOKENS", ruleTokens)
}

// T-P1: the evaluated precedence table orders the infix tokens as the
// specification does; closers and EOF never continue an expression.
func ruleP1(c *Ctx) *RuleResult {
	r := &RuleResult{Doc: "precedence table order: pipe < or < and < comparators(equal) < flatten < filter < dot < not < lbracket < lparen; closers have power <= 0", Floor: 20}
	bp := c.bindingPowers()
	pos := c.pos(c.power().pos)
	if g := c.power().g; g != nil {
		// the evaluated literal is what the parser reads only if nothing writes the table
		r.Instances++
		if c.globalNeverWritten(g) {
			r.ok("table-constant", pos, g.Name(), "the precedence table is written nowhere outside its initialiser")
		} else {
			r.viol("table-constant", pos, g.Name(), "the precedence table is written at run time: the powers the parser reads are not the ones of its initialiser")
		}
	}
	names := make([]string, 0, len(specRank))
	for n := range specRank {
		names = append(names, n)
	}
	sort.Strings(names)
	for i, a := range names {
		for _, b := range names[i+1:] {
			ra, rb := specRank[a], specRank[b]
			pa, pb := bp.of(c.tok(a)), bp.of(c.tok(b))
			r.Instances++
			key := "order|" + a + "|" + b
			okv := (ra < rb && pa < pb) || (ra > rb && pa > pb) || (ra == rb && pa == pb)
			d := fmt.Sprintf("spec rank %s=%d %s=%d; table power %d vs %d", a, ra, b, rb, pa, pb)
			if okv {
				r.ok(key, pos, "bindingPowers", d)
			} else {
				r.viol(key, pos, "bindingPowers", d+" — order differs from the specification's precedence")
			}
		}
	}
	for _, t := range []string{"tEOF", "tRbracket", "tRparen", "tComma", "tRbrace"} {
		r.Instances++
		p := bp.of(c.tok(t))
		if p <= 0 {
			r.ok("closer|"+t, pos, "bindingPowers", fmt.Sprintf("power %d <= 0: never continues an expression", p))
		} else {
			r.viol("closer|"+t, pos, "bindingPowers", fmt.Sprintf("closer %s has positive power %d: an expression followed by it would try an infix parse", t, p))
		}
	}
	// every infix-position token with a positive power that a sentence can
	// contain must have an infix handler
	_, led := c.switchLabels(c.A.Led, c.A.TokT)
	ledSet := map[int64]bool{}
	for _, l := range led {
		ledSet[l.Val] = true
	}
	for _, l := range led {
		r.Instances++
		if bp.of(l.Val) > 0 {
			r.ok("led-positive|"+l.Name, pos, "led", "infix handler reachable: power > 0")
		} else {
			r.viol("led-positive|"+l.Name, pos, "led", fmt.Sprintf("token %s has an infix handler but power %d: the Pratt loop never dispatches it", l.Name, bp.of(l.Val)))
		}
	}
	return r
}

// prattCompare finds the loop comparison "rbp < table[current]" of parseExpression.
func (c *Ctx) prattCompare() (*ssa.BinOp, *ssa.Parameter, ssa.Value, bool) {
	fn := c.A.ParseExpr
	var found *ssa.BinOp
	var par *ssa.Parameter
	var index ssa.Value
	swapped := false
	n := 0
	for _, b := range fn.Blocks {
		for _, in := range b.Instrs {
			bo, ok := in.(*ssa.BinOp)
			if !ok {
				continue
			}
			switch bo.Op {
			case token.LSS, token.GTR, token.LEQ, token.GEQ, token.EQL, token.NEQ:
			default:
				continue
			}
			px, xIsP := bo.X.(*ssa.Parameter)
			py, yIsP := bo.Y.(*ssa.Parameter)
			ix, xIsL := c.powerIndex(bo.X)
			iy, yIsL := c.powerIndex(bo.Y)
			if xIsP && yIsL {
				found, par, index, swapped = bo, px, iy, false
				n++
			} else if yIsP && xIsL {
				found, par, index, swapped = bo, py, ix, true
				n++
			}
		}
	}
	if n != 1 {
		lost("parseExpression: expected exactly one comparison of the binding-power parameter with the power of a token, found %d", n)
	}
	return found, par, index, swapped
}

// T-P2: the Pratt loop continues exactly while rbp < power(current token).
func ruleP2(c *Ctx) *RuleResult {
	r := &RuleResult{Doc: "Pratt loop: continue iff rbp < bindingPowers[current token]; the token dispatched to led is the one compared", Floor: 3}
	fn := c.A.ParseExpr
	bo, _, lkIndex, swapped := c.prattCompare()
	pos := c.pos(bo.Pos())
	r.Instances++
	// normalise to a relation rel(rbp, power); cont = the outcome of the
	// comparison on which "rbp < power" holds
	rel := bo.Op
	if swapped {
		switch rel {
		case token.LSS:
			rel = token.GTR
		case token.GTR:
			rel = token.LSS
		case token.LEQ:
			rel = token.GEQ
		case token.GEQ:
			rel = token.LEQ
		}
	}
	cont := 0 // successor index of the branch that continues the loop
	strict := false
	switch rel {
	case token.LSS:
		strict, cont = true, 0
	case token.GEQ:
		strict, cont = true, 1
	case token.LEQ:
		cont = 0
	case token.GTR:
		cont = 1
	}
	if strict {
		r.ok("pratt-strict", pos, fname(fn), "comparison is rbp < power(current) (or its complement, leaving on rbp >= power): equal power stops (left associativity)")
	} else {
		r.viol("pratt-strict", pos, fname(fn), fmt.Sprintf("comparison is %q (swapped=%v), not the strict rbp < power(current): equal powers would associate to the right / loop would not continue", bo.Op, swapped))
	}
	// the branch: true edge must reach the led call, false edge must not
	var ledCall *ssa.Call
	for _, b := range fn.Blocks {
		for _, in := range b.Instrs {
			if call, ok := in.(*ssa.Call); ok && staticCallee(call) == c.A.Led {
				if ledCall != nil {
					lost("parseExpression calls led twice")
				}
				ledCall = call
			}
		}
	}
	if ledCall == nil {
		lost("parseExpression does not call led")
	}
	r.Instances++
	var ifi *ssa.If
	for _, ref := range *bo.Referrers() {
		if i, ok := ref.(*ssa.If); ok {
			ifi = i
		}
		if u, ok := ref.(*ssa.UnOp); ok && u.Op == token.NOT {
			for _, ref2 := range *u.Referrers() {
				if i, ok := ref2.(*ssa.If); ok {
					ifi = i
					cont = 1 - cont
				}
			}
		}
	}
	if ifi == nil {
		r.undecided("pratt-branch", pos, fname(fn), "comparison does not feed a branch directly")
	} else {
		tb, fb := ifi.Block().Succs[cont], ifi.Block().Succs[1-cont]
		tReach := reachableFrom(tb, map[*ssa.BasicBlock]bool{ifi.Block(): true})
		fReach := reachableFrom(fb, map[*ssa.BasicBlock]bool{ifi.Block(): true})
		if tReach[ledCall.Block()] && !fReach[ledCall.Block()] {
			r.ok("pratt-branch", pos, fname(fn), "led is called on the rbp < power edge only; the other edge leaves the loop")
		} else {
			r.viol("pratt-branch", pos, fname(fn), "the infix handler is not called exactly on the 'rbp < power' edge")
		}
	}
	// token compared == token dispatched, and both come from current()
	r.Instances++
	tokArg := ledCall.Call.Args[1] // receiver is Args[0]
	fromCurrent := func(v ssa.Value) bool {
		seen := map[ssa.Value]bool{}
		var f func(v ssa.Value) bool
		f = func(v ssa.Value) bool {
			if seen[v] {
				return true
			}
			seen[v] = true
			switch v := v.(type) {
			case *ssa.Phi:
				for _, e := range v.Edges {
					if !f(e) {
						return false
					}
				}
				return true
			case *ssa.Call:
				return staticCallee(v) == c.A.Current
			}
			return false
		}
		return f(v)
	}
	if tokArg == lkIndex && fromCurrent(tokArg) {
		r.ok("pratt-token", pos, fname(fn), "the token looked up in the table is the token passed to led, and is always the parser's current token")
	} else {
		r.viol("pratt-token", c.pos(ledCall.Pos()), fname(fn), "the token dispatched to led is not the (current) token whose power was compared")
	}
	return r
}

// clauseOf finds the clause of sw containing the instruction (nil if none).
func clauseOfInstr(sw *EnumSwitch, in ssa.Instruction) *Clause {
	if sw == nil {
		return nil
	}
	return sw.clauseAt(instrPos(in))
}

// nodeTypesBuiltIn lists ASTNode composite-literal node types whose literal
// lies in [from,to).
func (c *Ctx) nodeTypesBuiltIn(from, to token.Pos) map[string]bool {
	out := map[string]bool{}
	for _, f := range c.Lib.Syntax {
		if !(f.Pos() <= from && to <= f.End()) {
			continue
		}
		ast.Inspect(f, func(n ast.Node) bool {
			cl, ok := n.(*ast.CompositeLit)
			if !ok || cl.Pos() < from || cl.End() > to {
				return true
			}
			tv, ok := c.Lib.TypesInfo.Types[cl]
			if !ok || !types.Identical(tv.Type, c.A.ASTNode) {
				return true
			}
			for _, el := range cl.Elts {
				if kv, ok := el.(*ast.KeyValueExpr); ok {
					if id, ok := kv.Key.(*ast.Ident); ok && id.Name == "nodeType" {
						out[types.ExprString(kv.Value)] = true
					}
				}
			}
			return true
		})
	}
	return out
}

// p3ctx: where a parse call happens, seen from the nud/led clause (or other
// anchor function) it is reached from: helper methods between the clause and
// the call are looked through, their parameters bound to the arguments.
type p3ctx struct {
	top   *ssa.Function
	cl    *Clause
	subst map[*ssa.Parameter]ssa.Value
	via   string
}

func (c *Ctx) p3Contexts(in ssa.Instruction, ledSw, nudSw *EnumSwitch, depth int) []p3ctx {
	fn := in.Parent()
	switch fn {
	case c.A.Led:
		return []p3ctx{{top: fn, cl: clauseOfInstr(ledSw, in)}}
	case c.A.Nud:
		return []p3ctx{{top: fn, cl: clauseOfInstr(nudSw, in)}}
	case c.A.ParseExpr, c.A.ParseDotRHS, c.A.ParseProjRHS, c.A.Parse:
		return []p3ctx{{top: fn}}
	}
	if depth > 3 || fn.Signature.Recv() == nil {
		return []p3ctx{{top: fn}}
	}
	// a helper: one context per call site that leads to a nud/led clause
	var out []p3ctx
	for _, caller := range allFuncs(c.SLib) {
		for _, cs := range callsTo(caller, fn) {
			for _, up := range c.p3Contexts(cs, ledSw, nudSw, depth+1) {
				if up.cl == nil {
					continue
				}
				sub := map[*ssa.Parameter]ssa.Value{}
				for i, p := range fn.Params {
					if i < len(cs.Call.Args) {
						sub[p] = translate(cs.Call.Args[i], up.subst)
					}
				}
				out = append(out, p3ctx{top: up.top, cl: up.cl, subst: sub, via: fn.Name() + "<-" + up.via})
			}
		}
	}
	if len(out) == 0 {
		return []p3ctx{{top: fn}}
	}
	return out
}

// consumerNodeTypes: the node types of the nodes that receive v (the result
// of a parse call) as a child: a literal that stores it into its children,
// or a constructor helper it is passed to.
func (c *Ctx) consumerNodeTypes(v ssa.Value, subst map[*ssa.Parameter]ssa.Value) map[string]bool {
	out := map[string]bool{}
	seen := map[ssa.Value]bool{}
	var walk func(v ssa.Value)
	walk = func(v ssa.Value) {
		if v == nil || seen[v] || v.Referrers() == nil {
			return
		}
		seen[v] = true
		for _, rf := range *v.Referrers() {
			switch rf := rf.(type) {
			case *ssa.Phi:
				walk(rf)
			case *ssa.Extract:
				if rf.Index == 0 {
					walk(rf)
				}
			case *ssa.Store:
				// children array slot -> the literal it belongs to
				ia, ok := rf.Addr.(*ssa.IndexAddr)
				if !ok || rf.Val != v {
					continue
				}
				al, ok := ia.X.(*ssa.Alloc)
				if !ok || al.Referrers() == nil {
					continue
				}
				for _, r2 := range *al.Referrers() {
					sl, ok := r2.(*ssa.Slice)
					if !ok || sl.Referrers() == nil {
						continue
					}
					for _, r3 := range *sl.Referrers() {
						st, ok := r3.(*ssa.Store)
						if !ok {
							continue
						}
						fa, ok := st.Addr.(*ssa.FieldAddr)
						if !ok || fa.Field != fChildren {
							continue
						}
						evs, _ := c.prodEvents(fa.X)
						for _, ev := range evs {
							for _, kids := range ev.fields[fChildren] {
								if kids == ssa.Value(sl) {
									sh := c.shapeOfEvent(ev)
									nt := sh.NodeType
									if sh.NodeTypeParam != nil {
										if k, ok := constInt(translate(sh.NodeTypeParam, subst)); ok {
											nt = c.A.NTName[k]
										}
									}
									out[nt] = true
								}
							}
						}
					}
				}
			case *ssa.Call:
				callee := staticCallee(rf)
				if callee == nil || callee.Pkg != c.SLib || callee.Blocks == nil || c.movesCursor(callee) {
					continue
				}
				// a constructor helper: the node it builds from this argument
				if bns, ok := c.builtNodesRec(rf, subst, 0); ok {
					for _, bn := range bns {
						out[bn.shape.NodeType] = true
					}
				}
			}
		}
	}
	walk(v)
	return out
}

// T-P3: every call that parses a right operand / member / projection
// right-hand side passes a binding power that absorbs exactly the tokens the
// specification says bind tighter at that place.
func ruleP3(c *Ctx) *RuleResult {
	r := &RuleResult{Doc: "right binding powers: per call site of parseExpression/parseDotRHS/parseProjectionRHS, the set of infix tokens with power > rbp equals the specification's set for that construct", Floor: 20}
	bp := c.bindingPowers()
	ledSw, led := c.switchLabels(c.A.Led, c.A.TokT)
	nudSw, _ := c.switchLabels(c.A.Nud, c.A.TokT)
	L := map[int64]bool{}
	for _, l := range led {
		L[l.Val] = true
	}
	absorbed := func(x int64) map[int64]bool {
		s := map[int64]bool{}
		for t := range L {
			if bp.of(t) > x {
				s[t] = true
			}
		}
		return s
	}
	tighter := func(name string) map[int64]bool {
		s := map[int64]bool{}
		for t := range L {
			if specRank[c.A.TokName[t]] > specRank[name] {
				s[t] = true
			}
		}
		return s
	}
	all := map[int64]bool{}
	for t := range L {
		all[t] = true
	}
	projAbsorb := tighter("tFlatten") // filter, dot, lbracket, lparen
	filterAbsorb := tighter("tFilter")

	ordinal := map[string]int{}
	for _, fn := range allFuncs(c.SLib) {
		for _, b := range fn.Blocks {
			for _, in := range b.Instrs {
				call, ok := in.(*ssa.Call)
				if !ok {
					continue
				}
				callee := staticCallee(call)
				if callee != c.A.ParseExpr && callee != c.A.ParseDotRHS && callee != c.A.ParseProjRHS {
					continue
				}
				if len(call.Call.Args) < 2 {
					continue // a right-hand-side parser that takes no power: its inner calls carry the obligation
				}
				ctxs := c.p3Contexts(call, ledSw, nudSw, 0)
				for _, cx := range ctxs {
					r.Instances++
					cl := cx.cl
					top := cx.top
					var labels []namedConst
					clName := ""
					if cl != nil {
						labels = cl.Labels
						clName = cl.Name()
					}
					base := fname(top) + "|" + clName + "|" + callee.Name()
					ordinal[base]++
					key := fmt.Sprintf("%s#%d", base, ordinal[base])
					pos := c.pos(call.Pos())
					arg := call.Call.Args[1]
					v := c.bpEvalS(arg, labels, bp, cx.subst)
					if !v.ok {
						r.undecided(key, pos, fname(fn), "binding-power argument is not a constant, a table lookup or the function's own parameter")
						continue
					}
					if v.param != nil {
						// pass-through inside parseDotRHS / parseProjectionRHS
						if fn == c.A.ParseDotRHS || fn == c.A.ParseProjRHS {
							r.ok(key, pos, fname(fn), "forwards its own binding-power parameter unchanged (decided at its call sites)")
						} else {
							r.undecided(key, pos, fname(fn), "binding power comes from a parameter of a function that is not a pass-through helper")
						}
						continue
					}
					// a fixed power inside the projection right-hand-side parser: it must
					// suit every projection that uses this parser
					if fn == c.A.ParseProjRHS && top == fn && (callee == c.A.ParseExpr || callee == c.A.ParseDotRHS) {
						var bad, good []string
						sites := 0
						for _, caller := range allFuncs(c.SLib) {
							for _, cs := range callsTo(caller, fn) {
								sites++
								built := c.consumerNodeTypes(cs, nil)
								if len(built) == 0 {
									if syn := caller.Syntax(); syn != nil {
										built = c.nodeTypesBuiltIn(syn.Pos(), syn.End())
									}
								}
								var w map[int64]bool
								kind := ""
								switch {
								case built["ASTFilterProjection"] && !built["ASTProjection"] && !built["ASTValueProjection"]:
									w, kind = filterAbsorb, "filter projection"
								case built["ASTProjection"] || built["ASTValueProjection"]:
									w, kind = projAbsorb, "list/slice/flatten/value projection"
								default:
									bad = append(bad, "cannot tell which projection the call at "+c.pos(cs.Pos())+" belongs to")
									continue
								}
								for _, x := range v.vals {
									if sameSet(absorbed(x), w) {
										good = append(good, fmt.Sprintf("%s at %s: rbp=%d absorbs %s", kind, c.pos(cs.Pos()), x, tokSetStr(c, w)))
									} else {
										bad = append(bad, fmt.Sprintf("%s at %s: rbp=%d absorbs %s, wanted %s", kind, c.pos(cs.Pos()), x, tokSetStr(c, absorbed(x)), tokSetStr(c, w)))
									}
								}
							}
						}
						switch {
						case sites == 0:
							r.undecided(key, pos, fname(fn), "the projection right-hand-side parser is not called")
						case len(bad) > 0:
							r.viol(key, pos, fname(fn), "one fixed power for every projection's right-hand side: "+strings.Join(bad, "; "))
						default:
							r.ok(key, pos, fname(fn), "fixed power suits every projection that uses this parser: "+strings.Join(good, "; "))
						}
						continue
					}
					// which set does the specification want here?
					var want map[int64]bool
					why := ""
					switch {
					case callee == c.A.ParseProjRHS:
						built := c.consumerNodeTypes(call, cx.subst)
						if len(built) == 0 {
							if cl != nil && fn == top {
								built = c.nodeTypesBuiltIn(cl.Pos, cl.End)
							} else if syn := fn.Syntax(); syn != nil {
								built = c.nodeTypesBuiltIn(syn.Pos(), syn.End())
							}
						}
						if built["ASTFilterProjection"] && !built["ASTProjection"] && !built["ASTValueProjection"] {
							want, why = filterAbsorb, "right-hand side of a filter projection: extends over dot, bracket, call"
						} else if built["ASTProjection"] || built["ASTValueProjection"] {
							want, why = projAbsorb, "right-hand side of a list/slice/flatten/value projection: extends over filter, dot, bracket, call and stops at flatten, comparators, and, or, pipe"
						} else {
							r.undecided(key, pos, fname(fn), "cannot tell which projection this right-hand side belongs to")
							continue
						}
					case top == c.A.Led && cl != nil && len(cl.Labels) > 0 && specRank[cl.Labels[0].Name] > 0 && isBinaryClause(cl):
						// binary operator K: the right operand absorbs what binds tighter than K
						want = tighter(cl.Labels[0].Name)
						mixed := false
						for _, l := range cl.Labels[1:] {
							if !sameSet(want, tighter(l.Name)) {
								mixed = true
							}
						}
						why = "right operand of left-associative binary " + clName + ": absorbs exactly the tighter-binding tokens"
						if mixed {
							// one clause for operators of different rank: decide label by label
							okAll := true
							var got []string
							for _, l := range cl.Labels {
								vl := c.bpEvalS(arg, []namedConst{l}, bp, cx.subst)
								wl := tighter(l.Name)
								if !vl.ok || vl.param != nil {
									okAll = false
									got = append(got, l.Name+": binding power not decided")
									continue
								}
								for _, x := range vl.vals {
									a := absorbed(x)
									got = append(got, fmt.Sprintf("%s: rbp=%d absorbs %s, wanted %s", l.Name, x, tokSetStr(c, a), tokSetStr(c, wl)))
									if !sameSet(a, wl) {
										okAll = false
									}
								}
							}
							d := why + " (per operator); " + strings.Join(got, "; ")
							if okAll {
								r.ok(key, pos, fname(fn), d)
							} else {
								r.viol(key, pos, fname(fn), d)
							}
							continue
						}
					case top == c.A.Nud && cl != nil && cl.has("tNot"):
						want, why = tighter("tNot"), "operand of prefix !: absorbs bracket and call only"
					default:
						want, why = all, "a complete expression is expected here (parenthesis, member, argument, condition, expression reference, top level): every infix token continues it"
					}
					okAll := true
					var got []string
					for _, x := range v.vals {
						a := absorbed(x)
						got = append(got, fmt.Sprintf("rbp=%d absorbs %s", x, tokSetStr(c, a)))
						if !sameSet(a, want) {
							okAll = false
						}
					}
					d := why + "; " + strings.Join(got, "; ") + "; wanted " + tokSetStr(c, want)
					if okAll {
						r.ok(key, pos, fname(fn), d)
					} else {
						r.viol(key, pos, fname(fn), d)
					}
				}
			}
		}
	}
	return r
}

// isBinaryClause: the led clause of a binary operator: one of pipe/or/and/comparators/dot.
func isBinaryClause(cl *Clause) bool {
	for _, l := range cl.Labels {
		switch l.Name {
		case "tPipe", "tOr", "tAnd", "tEQ", "tNE", "tLT", "tLTE", "tGT", "tGTE", "tDot":
		default:
			return false
		}
	}
	return true
}

// T-P4: the projection-stop threshold.
func ruleP4(c *Ctx) *RuleResult {
	r := &RuleResult{Doc: "projection stop: parseProjectionRHS yields the identity for every token that ends a projection and continues for dot, bracket and filter", Floor: 3}
	bp := c.bindingPowers()
	fn := c.A.ParseProjRHS
	var cmp *ssa.BinOp
	var thr int64
	var thrParam *ssa.Parameter
	n := 0
	for _, b := range fn.Blocks {
		for _, in := range b.Instrs {
			bo, ok := in.(*ssa.BinOp)
			if !ok {
				continue
			}
			lkIndex, ok := c.powerIndex(bo.X)
			if !ok {
				continue
			}
			k, ok := constInt(bo.Y)
			if !ok {
				// the power of a fixed token
				if v := c.bpEval(bo.Y, nil, bp); v.ok && v.param == nil && len(v.vals) == 1 {
					k, ok = v.vals[0], true
				}
			}
			if par, isPar := bo.Y.(*ssa.Parameter); !ok && isPar && isPlainInt(par.Type()) {
				// the threshold is the caller's binding power: one threshold per call site
				thrParam = par
				ok = true
			}
			if !ok {
				continue
			}
			if call, ok := lkIndex.(*ssa.Call); !ok || staticCallee(call) != c.A.Current {
				continue
			}
			cmp, thr = bo, k
			n++
		}
	}
	if n != 1 {
		lost("parseProjectionRHS: expected one comparison of power(current) with a constant, found %d", n)
	}
	pos := c.pos(cmp.Pos())
	if thrParam != nil {
		// decide the rule for every value the parameter takes at a call site
		idx := -1
		for i, q := range fn.Params {
			if q == thrParam {
				idx = i
			}
		}
		seen := map[int64]bool{}
		var thrs []int64
		for _, caller := range allFuncs(c.SLib) {
			for _, cs := range callsTo(caller, fn) {
				if idx < 0 || idx >= len(cs.Call.Args) {
					continue
				}
				v := c.bpEval(cs.Call.Args[idx], nil, bp)
				if !v.ok || v.param != nil {
					r.Instances++
					r.undecided("threshold-site|"+fname(caller), c.pos(cs.Pos()), fname(caller), "the threshold handed to the projection right-hand side is not a constant power here")
					continue
				}
				for _, x := range v.vals {
					if !seen[x] {
						seen[x] = true
						thrs = append(thrs, x)
					}
				}
			}
		}
		sort.Slice(thrs, func(i, j int) bool { return thrs[i] < thrs[j] })
		if cmp.Op != token.LSS && cmp.Op != token.LEQ {
			r.undecided("threshold-op", pos, fname(fn), "comparison is neither < nor <=")
			return r
		}
		for _, th := range thrs {
			stops := func(p int64) bool {
				if cmp.Op == token.LSS {
					return p < th
				}
				return p <= th
			}
			for _, t := range []string{"tEOF", "tRbracket", "tRparen", "tComma", "tRbrace", "tPipe", "tOr", "tAnd", "tEQ", "tNE", "tLT", "tLTE", "tGT", "tGTE", "tFlatten"} {
				r.Instances++
				pw := bp.of(c.tok(t))
				key := fmt.Sprintf("stops|%s|thr=%d", t, th)
				if stops(pw) {
					r.ok(key, pos, fname(fn), fmt.Sprintf("power %d %s %d: ends the projection", pw, cmp.Op, th))
				} else {
					r.viol(key, pos, fname(fn), fmt.Sprintf("token %s (power %d) does not end a projection when the threshold is the caller's power %d (%s): the projection would not stop where the specification says", t, pw, th, cmp.Op))
				}
			}
			for _, t := range []string{"tDot", "tLbracket", "tFilter"} {
				r.Instances++
				pw := bp.of(c.tok(t))
				key := fmt.Sprintf("continues|%s|thr=%d", t, th)
				if !stops(pw) {
					r.ok(key, pos, fname(fn), fmt.Sprintf("power %d: continues the projection", pw))
				} else {
					r.viol(key, pos, fname(fn), fmt.Sprintf("token %s (power %d) ends the projection when the threshold is the caller's power %d (%s): the right-hand side would be dropped", t, pw, th, cmp.Op))
				}
			}
		}
		return r
	}
	stops := func(p int64) bool {
		switch cmp.Op {
		case token.LSS:
			return p < thr
		case token.LEQ:
			return p <= thr
		}
		return false
	}
	if cmp.Op != token.LSS && cmp.Op != token.LEQ {
		r.undecided("threshold-op", pos, fname(fn), "comparison is neither < nor <=")
		return r
	}
	// the true edge must return the identity node with a nil error
	var ifi *ssa.If
	for _, ref := range *cmp.Referrers() {
		if i, ok := ref.(*ssa.If); ok {
			ifi = i
		}
	}
	r.Instances++
	if ifi == nil {
		r.undecided("threshold-branch", pos, fname(fn), "comparison does not feed a branch")
	} else {
		ret := blockReturn(ifi.Block().Succs[0])
		if ret != nil && len(ret.Results) == 2 && isNilConst(retResults(ret)[1]) && c.isNodeOfType(retResults(ret)[0], "ASTIdentity") {
			r.ok("threshold-branch", pos, fname(fn), "below the threshold the right-hand side is the identity node, no error")
		} else {
			r.viol("threshold-branch", pos, fname(fn), "the stop branch does not return (identity node, nil)")
		}
	}
	for _, t := range []string{"tEOF", "tRbracket", "tRparen", "tComma", "tRbrace", "tPipe", "tOr", "tAnd", "tEQ", "tNE", "tLT", "tLTE", "tGT", "tGTE", "tFlatten"} {
		r.Instances++
		p := bp.of(c.tok(t))
		if stops(p) {
			r.ok("stops|"+t, pos, fname(fn), fmt.Sprintf("power %d %s %d: ends the projection", p, cmp.Op, thr))
		} else {
			r.viol("stops|"+t, pos, fname(fn), fmt.Sprintf("token %s (power %d) does not end a projection (threshold %s %d): the projection would not stop where the specification says", t, p, cmp.Op, thr))
		}
	}
	for _, t := range []string{"tDot", "tLbracket", "tFilter"} {
		r.Instances++
		p := bp.of(c.tok(t))
		if !stops(p) {
			r.ok("continues|"+t, pos, fname(fn), fmt.Sprintf("power %d: continues the projection", p))
		} else {
			r.viol("continues|"+t, pos, fname(fn), fmt.Sprintf("token %s (power %d) ends the projection (threshold %s %d): the right-hand side would be dropped", t, p, cmp.Op, thr))
		}
	}
	// each continuing token must have a branch that parses it
	want := map[string]*ssa.Function{"tLbracket": c.A.ParseExpr, "tFilter": c.A.ParseExpr, "tDot": c.A.ParseDotRHS}
	for _, t := range []string{"tDot", "tLbracket", "tFilter"} {
		r.Instances++
		found := false
		for _, b := range fn.Blocks {
			i := blockIf(b)
			if i == nil {
				continue
			}
			bo, ok := i.Cond.(*ssa.BinOp)
			if !ok || bo.Op != token.EQL {
				continue
			}
			k, ok := constInt(bo.Y)
			if !ok || k != c.tok(t) {
				continue
			}
			// true successor region (until return) must call the wanted callee
			for bb := range reachableFrom(b.Succs[0], map[*ssa.BasicBlock]bool{b.Succs[1]: true}) {
				for _, in := range bb.Instrs {
					if call, ok := in.(*ssa.Call); ok && staticCallee(call) == want[t] {
						found = true
					}
				}
			}
		}
		if found {
			r.ok("branch|"+t, c.pos(fn.Pos()), fname(fn), "has a branch for "+t+" that calls "+want[t].Name())
		} else {
			r.viol("branch|"+t, c.pos(fn.Pos()), fname(fn), "no branch parses a right-hand side starting with "+t)
		}
	}
	return r
}

// isNodeOfType: v is an ASTNode value built by a composite literal with the
// given nodeType constant (load of a complit alloc).
func (c *Ctx) isNodeOfType(v ssa.Value, nt string) bool {
	s := c.nodeShapeOf(v)
	return s != nil && s.NodeType == nt
}

// T-WS: whitespace produces no token.
func ruleWS(c *Ctx) *RuleResult {
	r := &RuleResult{Doc: "tokenize: the whitespace arm appends no token and returns to the scanning loop", Floor: 1}
	fn := c.A.Tokenize
	ws := c.SLib.Var("whiteSpace")
	if ws == nil {
		lost("global whiteSpace not found")
	}
	for _, b := range fn.Blocks {
		for _, in := range b.Instrs {
			lk, ok := in.(*ssa.Lookup)
			if !ok || !isLoadOfGlobal(lk.X, ws) {
				continue
			}
			r.Instances++
			pos := c.pos(lk.Pos())
			i := blockIf(b)
			if i == nil {
				r.undecided("ws-arm", pos, fname(fn), "whitespace lookup does not end its block with a branch")
				continue
			}
			tb := b.Succs[0]
			clean := true
			// follow empty jump blocks; the arm must lead straight back to the
			// loop header (a block dominating the lookup)
			for hops := 0; hops < 4 && !tb.Dominates(b); hops++ {
				for _, x := range tb.Instrs {
					if _, ok := x.(*ssa.Jump); !ok {
						clean = false
					}
				}
				if len(tb.Succs) != 1 {
					clean = false
					break
				}
				tb = tb.Succs[0]
			}
			if !tb.Dominates(b) {
				clean = false
			}
			if clean {
				r.ok("ws-arm", pos, fname(fn), "whitespace branch is empty: no token, no state change")
			} else {
				r.viol("ws-arm", pos, fname(fn), "the whitespace branch does something other than continuing the loop")
			}
		}
	}
	return r
}

// T-PAREN: a parenthesised expression is exactly its inner expression.
func ruleParen(c *Ctx) *RuleResult {
	r := &RuleResult{Doc: "nud(tLparen) returns the node of parseExpression(0) unchanged after matching tRparen", Floor: 1}
	fn := c.A.Nud
	sw, _ := c.switchLabels(fn, c.A.TokT)
	cl := sw.clause("tLparen")
	if cl == nil {
		lost("nud has no tLparen clause")
	}
	for _, b := range fn.Blocks {
		ret := blockReturn(b)
		if ret == nil || clauseOfInstr(sw, ret) != cl || len(ret.Results) != 2 || !isNilConst(retResults(ret)[1]) {
			continue
		}
		r.Instances++
		pos := c.pos(ret.Pos())
		ex, ok := retResults(ret)[0].(*ssa.Extract)
		good := false
		if ok && ex.Index == 0 {
			if call, ok := ex.Tuple.(*ssa.Call); ok && staticCallee(call) == c.A.ParseExpr && clauseOfInstr(sw, call) == cl {
				good = true
			}
		}
		if good {
			r.ok("paren-identity", pos, fname(fn), "the success return of the parenthesis clause is the inner parse result itself")
		} else {
			r.viol("paren-identity", pos, fname(fn), "the parenthesis clause returns something other than the inner expression's node")
		}
	}
	return r
}

// ---------------------------------------------------------------- function table

type specFn struct {
	args     [][]string
	variadic bool
}

var specFuncs = map[string]specFn{
	"abs":         {args: [][]string{{"number"}}},
	"avg":         {args: [][]string{{"array[number]"}}},
	"ceil":        {args: [][]string{{"number"}}},
	"contains":    {args: [][]string{{"array", "string"}, {"any"}}},
	"ends_with":   {args: [][]string{{"string"}, {"string"}}},
	"floor":       {args: [][]string{{"number"}}},
	"join":        {args: [][]string{{"string"}, {"array[string]"}}},
	"keys":        {args: [][]string{{"object"}}},
	"length":      {args: [][]string{{"string", "array", "object"}}},
	"map":         {args: [][]string{{"expref"}, {"array"}}},
	"max":         {args: [][]string{{"array[number]", "array[string]"}}},
	"max_by":      {args: [][]string{{"array"}, {"expref"}}},
	"merge":       {args: [][]string{{"object"}}, variadic: true},
	"min":         {args: [][]string{{"array[number]", "array[string]"}}},
	"min_by":      {args: [][]string{{"array"}, {"expref"}}},
	"not_null":    {args: [][]string{{"any"}}, variadic: true},
	"reverse":     {args: [][]string{{"string", "array"}}},
	"sort":        {args: [][]string{{"array[number]", "array[string]"}}},
	"sort_by":     {args: [][]string{{"array"}, {"expref"}}},
	"starts_with": {args: [][]string{{"string"}, {"string"}}},
	"sum":         {args: [][]string{{"array[number]"}}},
	"to_array":    {args: [][]string{{"any"}}},
	"to_string":   {args: [][]string{{"any"}}},
	"to_number":   {args: [][]string{{"any"}}},
	"type":        {args: [][]string{{"any"}}},
	"values":      {args: [][]string{{"object"}}},
}

func sortedCopy(s []string) []string {
	o := append([]string(nil), s...)
	sort.Strings(o)
	return o
}

func ruleFuncTable(c *Ctx) *RuleResult {
	r := &RuleResult{Doc: "the function table equals the specification's 26 signatures (names, per-position type sets, variadic tails, expression-reference positions); handlers are non-nil and not shared", Floor: 26}
	seen := map[string]bool{}
	handlerUse := map[*ssa.Function][]string{}
	for _, e := range c.table() {
		r.Instances++
		seen[e.Key] = true
		sp, ok := specFuncs[e.Key]
		if !ok {
			r.viol("entry|"+e.Key, e.Pos, "functionTable", "function "+e.Key+" is not one of the specification's built-in functions")
			continue
		}
		var problems []string
		if len(e.Args) != len(sp.args) {
			problems = append(problems, fmt.Sprintf("declares %d positions, specification has %d", len(e.Args), len(sp.args)))
		} else {
			for i := range sp.args {
				if strings.Join(sortedCopy(e.Args[i].Types), ",") != strings.Join(sortedCopy(sp.args[i]), ",") {
					problems = append(problems, fmt.Sprintf("position %d accepts %v, specification says %v", i, e.Args[i].Types, sp.args[i]))
				}
				wantVar := sp.variadic && i == len(sp.args)-1
				if e.Args[i].Variadic != wantVar {
					problems = append(problems, fmt.Sprintf("position %d variadic=%v, specification says %v", i, e.Args[i].Variadic, wantVar))
				}
			}
		}
		hasExp := false
		for _, a := range sp.args {
			for _, t := range a {
				if t == "expref" {
					hasExp = true
				}
			}
		}
		if e.HasExpRef != hasExp {
			problems = append(problems, fmt.Sprintf("hasExpRef=%v but the signature %s an expression reference: the handler would (not) receive the interpreter", e.HasExpRef, map[bool]string{true: "has", false: "has no"}[hasExp]))
		}
		if e.Handler == nil {
			problems = append(problems, "no handler")
		} else {
			handlerUse[e.Handler] = append(handlerUse[e.Handler], e.Key)
		}
		if len(problems) == 0 {
			r.ok("entry|"+e.Key, e.Pos, "functionTable", fmt.Sprintf("%s%v variadic=%v expref=%v handler=%s", e.Key, sp.args, sp.variadic, hasExp, e.Handler.Name()))
		} else {
			r.viol("entry|"+e.Key, e.Pos, "functionTable", strings.Join(problems, "; "))
		}
	}
	var names []string
	for n := range specFuncs {
		names = append(names, n)
	}
	sort.Strings(names)
	for _, n := range names {
		if !seen[n] {
			r.Instances++
			r.viol("entry|"+n, c.pos(c.A.NewFCaller.Pos()), "functionTable", "built-in function "+n+" is missing from the table")
		}
	}
	for h, ks := range handlerUse {
		if len(ks) > 1 {
			sort.Strings(ks)
			r.viol("shared-handler|"+h.Name(), c.pos(h.Pos()), "functionTable", "handler "+h.Name()+" is registered for "+strings.Join(ks, ", ")+": two different built-ins cannot share one implementation")
		}
	}
	return r
}

// T-TOKENS: lexer, precedence table, nud and led agree on the token set.
func ruleTokens(c *Ctx) *RuleResult {
	r := &RuleResult{Doc: "token tables agree: nud/led labels are token constants; every token with an infix handler has positive power (see T-P1); prefix tokens of the grammar have a nud clause", Floor: 10}
	_, nud := c.switchLabels(c.A.Nud, c.A.TokT)
	_, led := c.switchLabels(c.A.Led, c.A.TokT)
	nudSet, ledSet := map[string]bool{}, map[string]bool{}
	for _, l := range nud {
		nudSet[l.Name] = true
	}
	for _, l := range led {
		ledSet[l.Name] = true
	}
	pos := c.pos(c.A.Nud.Pos())
	for _, t := range []string{"tJSONLiteral", "tStringLiteral", "tUnquotedIdentifier", "tQuotedIdentifier", "tStar", "tFilter", "tLbrace", "tFlatten", "tLbracket", "tCurrent", "tExpref", "tNot", "tLparen"} {
		r.Instances++
		if nudSet[t] {
			r.ok("nud|"+t, pos, "nud", "expression-start token has a prefix handler")
		} else {
			r.viol("nud|"+t, pos, "nud", "no prefix handler for "+t+": sentences starting with it are rejected")
		}
	}
	pos = c.pos(c.A.Led.Pos())
	for _, t := range []string{"tDot", "tPipe", "tOr", "tAnd", "tLparen", "tFilter", "tFlatten", "tEQ", "tNE", "tGT", "tGTE", "tLT", "tLTE", "tLbracket"} {
		r.Instances++
		if ledSet[t] {
			r.ok("led|"+t, pos, "led", "infix token has an infix handler")
		} else {
			r.viol("led|"+t, pos, "led", "no infix handler for "+t)
		}
	}
	for t := range ledSet {
		if specRank[t] == 0 {
			r.viol("led-extra|"+t, pos, "led", "infix handler for "+t+", which is not an infix operator of the grammar")
		}
	}
	return r
}

// isPlainInt: int or a named type over int (a `precedence` type).
func isPlainInt(t types.Type) bool {
	b, ok := t.Underlying().(*types.Basic)
	return ok && b.Kind() == types.Int
}
