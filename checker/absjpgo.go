package main

import (
	"fmt"
	"go/types"
	"sort"
	"strconv"
	"strings"

	"golang.org/x/tools/go/ssa"
)

// J-ABS: cmd/jpgo's run() interpreted abstractly with symbolic tags:
//   expr = flag argument 0; file(T)/all(T) = whole contents read from T;
//   json(T) = json.Unmarshal of T; search(E,D); marshal(R).
// Helpers of package main are inlined; library and standard-library calls are
// modelled with a success and a failure outcome. Each path through run() yields
// an exit status and the list of writes to stdout/stderr.

func init() { register("J-ABS", ruleJpgoAbs) }

func (x *Exec) contWith(a *activation, b *ssa.BasicBlock, i int, in *ssa.Call, v AV, fr *frame, h *Heap, p pathInfo, clone bool) {
	f2, h2 := fr, h
	if clone {
		f2, h2 = fr.clone(), h.clone()
	}
	f2.vals[in] = v
	a.cont(b, i+1, f2, h2, p)
}

func errOK() AV  { return AV{k: 'E', tri: 1} }
func errBad() AV { return AV{k: 'E', tri: 2} }

// varargTags: the tags of the elements of a []interface{} argument list.
func (x *Exec) varargTags(v AV, h *Heap) []string {
	var out []string
	if v.obj != 0 && h.objs[v.obj] != nil {
		for _, e := range h.objs[v.obj].elems {
			t := e.tag
			if t == "" {
				t = "?"
			}
			out = append(out, t)
		}
	}
	return out
}

func (x *Exec) modelCLI(a *activation, b *ssa.BasicBlock, i int, in *ssa.Call, callee *ssa.Function, args []AV, fr *frame, h *Heap, p pathInfo) (handled, cont bool) {
	name := qualName(callee)
	name = strings.ReplaceAll(name, libPath, "jmespath")
	two := func(okV, badV AV) (bool, bool) {
		x.contWith(a, b, i, in, okV, fr, h, p, true)
		x.contWith(a, b, i, in, badV, fr, h, p, false)
		return true, true
	}
	tagOf := func(k int) string {
		if k < len(args) && args[k].tag != "" {
			return args[k].tag
		}
		return "?"
	}
	strConst := func(k int) string {
		if k < len(args) && args[k].sk {
			return args[k].s
		}
		return "?"
	}
	switch name {
	case "flag.Bool", "flag.String":
		var v AV
		if name == "flag.Bool" {
			v = AV{k: 'B', tri: 3, tag: "flag:" + strConst(0)}
		} else {
			v = AV{k: 'S', tag: "flag:" + strConst(0)}
		}
		id := h.alloc(&aobj{kind: 'c', v: v})
		fr.vals[in] = AV{k: 'P', tri: 2, obj: id}
		return true, false
	case "flag.BoolVar", "flag.StringVar":
		var v AV
		if name == "flag.BoolVar" {
			v = AV{k: 'B', tri: 3, tag: "flag:" + strConst(1)}
		} else {
			v = AV{k: 'S', tag: "flag:" + strConst(1)}
		}
		x.store(args[0], v, h, in)
		return true, false
	case "flag.Parse", "flag.PrintDefaults", "flag.Usage":
		return true, false
	case "flag.Args":
		fr.vals[in] = AV{k: 'L', tri: 2, elemK: 'S', tag: "args"}
		return true, false
	case "flag.NArg":
		fr.vals[in] = AV{k: 'N', nn: true}
		return true, false
	case "flag.Arg":
		if args[0].nk && args[0].n == 0 {
			fr.vals[in] = AV{k: 'S', tag: "expr"}
		} else {
			fr.vals[in] = AV{k: 'S', tag: "arg?"}
		}
		return true, false
	case "jmespath.NewParser":
		fr.vals[in] = AV{k: 'P', tri: 2, what: "parser"}
		return true, false
	case "(*jmespath.Parser).Parse":
		return two(AV{k: 'T', tup: []AV{{k: 'O', what: "ast", tag: "ast(" + tagOf(1) + ")"}, errOK()}},
			AV{k: 'T', tup: []AV{{k: 'O', what: "ast"}, errBad()}})
	case "jmespath.Compile":
		return two(AV{k: 'T', tup: []AV{{k: 'P', tri: 2, what: "compiled", tag: "compiled(" + tagOf(0) + ")"}, errOK()}},
			AV{k: 'T', tup: []AV{{k: 'P', tri: 1}, errBad()}})
	case "jmespath.MustCompile":
		fr.vals[in] = AV{k: 'P', tri: 2, what: "compiled", tag: "compiled(" + tagOf(0) + ")"}
		return true, false
	case "jmespath.Search":
		return two(AV{k: 'T', tup: []AV{{k: 'I', atoms: UJSON, tag: "search(" + tagOf(0) + "," + tagOf(1) + ")"}, errOK()}},
			AV{k: 'T', tup: []AV{{k: 'I', atoms: ANull}, errBad()}})
	case "(*jmespath.JMESPath).Search":
		e := strings.TrimSuffix(strings.TrimPrefix(tagOf(0), "compiled("), ")")
		return two(AV{k: 'T', tup: []AV{{k: 'I', atoms: UJSON, tag: "search(" + e + "," + tagOf(1) + ")"}, errOK()}},
			AV{k: 'T', tup: []AV{{k: 'I', atoms: ANull}, errBad()}})
	case "(jmespath.SyntaxError).HighlightLocation", "(jmespath.SyntaxError).Error", "(jmespath.ASTNode).String", "(jmespath.ASTNode).PrettyPrint":
		fr.vals[in] = AV{k: 'S'}
		return true, false
	case "io/ioutil.ReadFile", "os.ReadFile":
		return two(AV{k: 'T', tup: []AV{{k: 'L', tri: 2, elemK: 'O', tag: "file(" + tagOf(0) + ")"}, errOK()}},
			AV{k: 'T', tup: []AV{{k: 'L', tri: 1}, errBad()}})
	case "io/ioutil.ReadAll", "io.ReadAll":
		return two(AV{k: 'T', tup: []AV{{k: 'L', tri: 2, elemK: 'O', tag: "all(" + tagOf(0) + ")"}, errOK()}},
			AV{k: 'T', tup: []AV{{k: 'L', tri: 1}, errBad()}})
	case "os.Open":
		return two(AV{k: 'T', tup: []AV{{k: 'P', tri: 2, what: "file", tag: "open(" + tagOf(0) + ")"}, errOK()}},
			AV{k: 'T', tup: []AV{{k: 'P', tri: 1}, errBad()}})
	case "(*os.File).Close":
		fr.vals[in] = errOK()
		return true, false
	case "encoding/json.Unmarshal":
		// success: the pointed-to variable holds the decoded value
		{
			f2, h2 := fr.clone(), h.clone()
			dst := args[1]
			if dst.k == 'I' && dst.obj != 0 && dst.what == "boxed-addr" {
				dst = AV{k: 'A', obj: dst.obj, idx: dst.idx} // the address of a field boxed into the interface{} parameter
			} else if dst.k == 'I' && dst.obj != 0 {
				dst = AV{k: 'P', tri: 2, obj: dst.obj} // the pointer boxed into the interface{} parameter
			}
			x.store(dst, AV{k: 'I', atoms: UJSON, tag: "json(" + tagOf(0) + ")"}, h2, in)
			f2.vals[in] = errOK()
			a.cont(b, i+1, f2, h2, p)
		}
		fr.vals[in] = errBad()
		a.cont(b, i+1, fr, h, p)
		return true, true
	case "encoding/json.MarshalIndent", "encoding/json.Marshal":
		return two(AV{k: 'T', tup: []AV{{k: 'L', tri: 2, elemK: 'O', tag: "marshal(" + tagOf(0) + ")"}, errOK()}},
			AV{k: 'T', tup: []AV{{k: 'L', tri: 1}, errBad()}})
	case "fmt.Println", "fmt.Print", "fmt.Printf", "fmt.Fprintln", "fmt.Fprint", "fmt.Fprintf", "io.WriteString", "(*os.File).WriteString", "(*os.File).Write":
		ch := "stdout"
		rest := args
		switch name {
		case "fmt.Fprintln", "fmt.Fprint", "fmt.Fprintf", "io.WriteString", "(*os.File).WriteString", "(*os.File).Write":
			switch args[0].tag {
			case "os.Stdout":
				ch = "stdout"
			case "os.Stderr":
				ch = "stderr"
			default:
				ch = "writer(" + tagOf(0) + ")"
			}
			rest = args[1:]
		}
		var data []string
		formatted := strings.HasSuffix(name, "f")
		rawData := strings.HasSuffix(name, ".Write") || strings.HasSuffix(name, "WriteString")
		for k, r := range rest {
			switch {
			case rawData:
				// the data itself (a byte slice or string), not a list of operands
				t := r.tag
				if t == "" {
					t = "?"
				}
				data = append(data, t)
			case r.k == 'L' && r.obj != 0:
				data = append(data, x.varargTags(r, h)...)
			case formatted && k == 0:
				if r.sk {
					data = append(data, fmt.Sprintf("format%q", r.s))
				} else {
					t := r.tag
					if t == "" {
						t = "?"
					}
					data = append(data, "FORMAT("+t+")")
				}
			case r.k == 'L' && r.tri == 1:
				// no variadic arguments
			default:
				t := r.tag
				if t == "" {
					t = "?"
				}
				data = append(data, t)
			}
		}
		// what reaches the stream, as a sequence of pieces: symbolic data tags and
		// quoted literal text (so that Println(x), Printf("%s\n", x) and
		// Fprintf(w, "%s", x); Fprintln(w) are the same output)
		var toks []string
		lit := func(t string) {
			if t != "" {
				toks = append(toks, fmt.Sprintf("%q", t))
			}
		}
		switch {
		case formatted && len(data) > 0 && strings.HasPrefix(data[0], "format\""):
			f, err := strconv.Unquote(strings.TrimPrefix(data[0], "format"))
			argi := 1
			if err != nil {
				toks = append(toks, "UNKNOWN(format)")
				break
			}
			cur := ""
			for k := 0; k < len(f); k++ {
				if f[k] != '%' {
					cur += string(f[k])
					continue
				}
				if k+1 < len(f) && f[k+1] == '%' {
					cur += "%"
					k++
					continue
				}
				if k+1 < len(f) && (f[k+1] == 's' || f[k+1] == 'v') && argi < len(data) {
					lit(cur)
					cur = ""
					toks = append(toks, data[argi])
					argi++
					k++
					continue
				}
				lit(cur)
				cur = ""
				toks = append(toks, "UNKNOWN(verb)")
				k++
			}
			lit(cur)
			if argi != len(data) {
				toks = append(toks, "UNKNOWN(extra arguments)")
			}
		case formatted:
			toks = append(toks, "UNKNOWN(format)")
		case strings.HasSuffix(name, "ln"):
			for k, d := range data {
				if k > 0 {
					lit(" ")
				}
				toks = append(toks, d)
			}
			lit("\n")
		default:
			toks = append(toks, data...)
		}
		p2 := p.note(ch + ":" + strings.Join(toks, "\x1f"))
		fr.vals[in] = AV{k: 'T', tup: []AV{{k: 'N'}, errOK()}}
		a.cont(b, i+1, fr, h, p2)
		return true, true
	case "os.Exit":
		// the program ends here, wherever the call is
		if x.onExit != nil {
			x.onExit(args[0], h, p)
		} else {
			a.k([]AV{args[0]}, h, p.note("exit"), fr)
		}
		return true, true
	case "fmt.Errorf", "errors.New":
		// constructs an error: never nil
		fr.vals[in] = AV{k: 'E', tri: 2}
		return true, false
	case "fmt.Sprintf", "fmt.Sprint", "fmt.Sprintln", "strings.TrimSpace":
		fr.vals[in] = AV{k: 'S'}
		return true, false
	}
	if callee.Pkg == x.c.SCLI {
		return false, false // helpers of package main: inlined by the caller
	}
	if callee.Pkg == nil && callee.Synthetic != "" && callee.Blocks != nil {
		return false, false // method-value / method-expression wrappers: looked through
	}
	if callee.Pkg == x.c.SLib {
		x.gap("library call without a command-line model: "+name, in.Pos())
		fr.vals[in] = x.opaqueOf(in.Type(), "unmodelled")
		return true, false
	}
	// any other standard-library call: no effect on the exit status; it can
	// reach standard output only if it is handed os.Stdout
	for _, av := range args {
		if av.tag == "os.Stdout" {
			fr.vals[in] = x.opaqueOf(in.Type(), "unmodelled")
			a.cont(b, i+1, fr, h, p.note("stdout:UNKNOWN("+name+")"))
			return true, true
		}
	}
	_ = types.Typ
	fr.vals[in] = x.opaqueOf(in.Type(), "result of "+name)
	return true, false
}

func ruleJpgoAbs(c *Ctx) *RuleResult {
	r := &RuleResult{Doc: "run() interpreted abstractly with symbolic tags (helpers inlined, every fallible call forked into success/failure): outside -ast mode a path returns status 0 only with exactly one stdout write whose data is marshal(search(expr, json(<all of the -input file | all of stdin>))), the input channel matching the -input flag test; a path with another status writes nothing to stdout; no path has an unknown status; main is os.Exit(run())", Floor: 8}
	run := c.SCLI.Func("run")
	if run == nil {
		run = c.SCLI.Func("main") // everything is in main: positions refer to it
	}
	if run == nil {
		lost("cmd/jpgo: main not found")
	}
	x := c.newExec(UJSON, "jpgo run()")
	x.cli = true
	// package-level writers/readers that are just names for the standard streams
	x.cliGlobals = map[string]string{}
	written := map[string]int{}
	for _, fn := range allFuncs(c.SCLI) {
		for _, b := range fn.Blocks {
			for _, in := range b.Instrs {
				st, ok := in.(*ssa.Store)
				if !ok {
					continue
				}
				g, ok := st.Addr.(*ssa.Global)
				if !ok || g.Pkg != c.SCLI {
					continue
				}
				written[g.Name()]++
				v := st.Val
				if mi, ok := v.(*ssa.MakeInterface); ok {
					v = mi.X
				}
				if ld, ok := v.(*ssa.UnOp); ok {
					if og, ok := ld.X.(*ssa.Global); ok && og.Pkg != nil && og.Pkg.Pkg.Path() == "os" && strings.HasPrefix(og.Name(), "Std") && fn.Name() == "init" {
						x.cliGlobals[g.Name()] = "os." + og.Name()
					}
				}
			}
		}
	}
	for n, k := range written {
		if k > 1 {
			delete(x.cliGlobals, n) // reassigned somewhere: not a constant alias
		}
	}
	type pathRes struct {
		status AV
		notes  []string
	}
	var paths []pathRes
	// the whole program: main with everything it calls in package main inlined;
	// a path ends at os.Exit(status) or when main returns (status 0)
	entry := c.SCLI.Func("main")
	if entry == nil {
		lost("cmd/jpgo: main not found")
	}
	x.onExit = func(status AV, h *Heap, p pathInfo) {
		paths = append(paths, pathRes{status, p.notes})
	}
	x.run(entry, nil, newHeap(), pathInfo{}, func(rets []AV, h *Heap, p pathInfo, fin *frame) {
		paths = append(paths, pathRes{AV{k: 'N', nk: true, n: 0}, p.notes})
	})
	pos := c.pos(run.Pos())
	nOK := 0
	problems := map[string]bool{}
	wantFile := []string{"marshal(search(expr,json(file(flag:input))))", "marshal(search(expr,json(all(open(flag:input)))))"}
	wantStdin := "marshal(search(expr,json(all(os.Stdin))))"
	for _, pr := range paths {
		r.Instances++
		ast, fileMode, haveFileNote := false, false, false
		var stdout []string
		for _, n := range pr.notes {
			switch {
			case n == "flag:ast=true":
				ast = true
			case n == "not flag:ast=false":
				ast = true
			case n == "nonempty(flag:input)=true", n == "not nonempty(flag:input)=false":
				fileMode, haveFileNote = true, true
			case n == "nonempty(flag:input)=false", n == "not nonempty(flag:input)=true":
				fileMode, haveFileNote = false, true
			case strings.HasPrefix(n, "stdout:"):
				stdout = append(stdout, strings.TrimPrefix(n, "stdout:"))
			}
		}
		desc := fmt.Sprintf("status %s after %v", pr.status, pr.notes)
		if pr.status.k != 'N' || !pr.status.nk {
			problems["a path returns a status that is not a known constant: "+desc] = true
			continue
		}
		if ast {
			nOK++
			continue
		}
		if pr.status.n != 0 {
			if len(stdout) > 0 {
				problems[fmt.Sprintf("a failing path (status %d) writes to standard output: %v", pr.status.n, stdout)] = true
			} else {
				nOK++
			}
			continue
		}
		// status 0 outside -ast
		okData := false
		// the concatenated output: the serialised result, optionally followed by one newline
		var stream []string
		for _, w := range stdout {
			for _, t := range strings.Split(w, "\x1f") {
				if t != "" {
					stream = append(stream, t)
				}
			}
		}
		if n := len(stream); n >= 2 && stream[n-1] == `"\n"` {
			stream = stream[:n-1]
		}
		if len(stream) == 1 {
			d := stream[0]
			if strings.HasPrefix(d, "string(") && strings.HasSuffix(d, ")") {
				d = strings.TrimSuffix(strings.TrimPrefix(d, "string("), ")")
			}
			if haveFileNote && fileMode {
				okData = d == wantFile[0] || d == wantFile[1]
			} else if haveFileNote {
				okData = d == wantStdin
			}
		}
		for k := range stdout {
			stdout[k] = strings.ReplaceAll(stdout[k], "\x1f", " ")
		}
		if okData {
			nOK++
		} else {
			problems[fmt.Sprintf("status 0 with standard output %v (input from file: %v): must be exactly one write of marshal(search(expr, json(whole input)))", stdout, fileMode)] = true
		}
	}
	if len(paths) == 0 {
		r.undecided("paths", pos, "run", "no path through run() returns")
	}
	if len(problems) > 0 && len(x.gaps) > 0 {
		// findings that may rest on a construct without a model are not verdicts
		var ps []string
		for k := range problems {
			ps = append(ps, k)
		}
		sort.Strings(ps)
		r.undecided("run-paths", pos, "run", "not decided (a construct without a model was met): "+strings.Join(ps, "; "))
		problems = map[string]bool{}
		nOK = -1
	}
	if nOK < 0 {
	} else if len(problems) == 0 {
		r.ok("run-paths", pos, "run", fmt.Sprintf("%d paths through run() (helpers inlined): every status-0 path outside -ast prints exactly the serialised Search result of the expression on the decoded whole input; failing paths print nothing on stdout", nOK))
	} else {
		i := 0
		for pb := range problems {
			i++
			r.viol(fmt.Sprintf("run-path|%d", i), pos, "run", pb)
			if i >= 6 {
				break
			}
		}
	}
	for g, p := range x.gaps {
		r.undecided("gap|"+g, c.pos(p), "run", "no model: "+g)
	}
	if x.trunc {
		r.undecided("truncated", pos, "run", "exploration hit the step limit")
	}
	r.Instances += len(paths)
	return r
}
