package main

import (
	"fmt"
	"go/ast"
	"go/constant"
	"go/token"
	"go/types"

	"golang.org/x/tools/go/ssa"
)

// Finite-domain constant folding of side-effect-free SSA (DESIGN §3.10).
//
// The lexer decides what to do with a rune through a chain of pure tests
// (bit masks, constant maps, comparisons). folder evaluates that chain for one
// given rune by folding constants: it interprets only instructions without
// side effects (arithmetic, comparisons, conversions, reads of package-level
// tables that are never written after initialisation) and stops at the first
// instruction that is not pure (a call, an allocation, a store). The result
// is the *dispatch table* of the code: rune -> first action. No function of
// the analysed program is executed; reads of tables use their initialisers.

type fval struct {
	kind   byte // 'i' int, 'b' bool, 's' string, 't' tuple, 'a' array, 'm' map, 'e' error (b: non-nil), 'f' function, 'p' address of a local object, 'l' slice of a local array
	fn     *ssa.Function
	obj    int   // p, l: object id
	sel    []int // p, l: selector path inside the object
	lo, hi int64 // l: bounds
	i      int64
	u      bool // unsigned
	bits   int
	b      bool
	s      string
	tup    []fval
	arr    []fval
	m      map[int64]fval
}

type foldStop struct {
	kind  string // "call", "impure", "panic", "limit", "unknown", "return"
	instr ssa.Instruction
	what  string
	args  []fval
	argOK []bool
}

type folder struct {
	c      *Ctx
	env    map[ssa.Value]fval
	tables map[*ssa.Global]fval
	steps  int
	depth  int
}

func intInfo(t types.Type) (bits int, unsigned, ok bool) {
	b, ok2 := t.Underlying().(*types.Basic)
	if !ok2 {
		return 0, false, false
	}
	switch b.Kind() {
	case types.Int, types.Int64:
		return 64, false, true
	case types.Int32:
		return 32, false, true
	case types.Int16:
		return 16, false, true
	case types.Int8:
		return 8, false, true
	case types.Uint, types.Uint64, types.Uintptr:
		return 64, true, true
	case types.Uint32:
		return 32, true, true
	case types.Uint16:
		return 16, true, true
	case types.Uint8:
		return 8, true, true
	case types.UntypedInt, types.UntypedRune:
		return 64, false, true
	}
	return 0, false, false
}

func wrap(v int64, bits int, unsigned bool) int64 {
	if bits >= 64 {
		return v
	}
	mask := int64(1)<<uint(bits) - 1
	v &= mask
	if !unsigned && v&(int64(1)<<uint(bits-1)) != 0 {
		v |= ^mask
	}
	return v
}

func (f *folder) constOf(k *ssa.Const) (fval, bool) {
	if k.Value == nil {
		return fval{}, false
	}
	switch k.Value.Kind() {
	case constant.Bool:
		return fval{kind: 'b', b: constant.BoolVal(k.Value)}, true
	case constant.String:
		return fval{kind: 's', s: constant.StringVal(k.Value)}, true
	case constant.Int:
		bits, uns, ok := intInfo(k.Type())
		if !ok {
			return fval{}, false
		}
		if uns {
			u, ok := constant.Uint64Val(k.Value)
			if !ok {
				return fval{}, false
			}
			return fval{kind: 'i', i: int64(u), u: true, bits: bits}, true
		}
		i, ok := constant.Int64Val(k.Value)
		if !ok {
			return fval{}, false
		}
		return fval{kind: 'i', i: i, bits: bits}, true
	}
	return fval{}, false
}

// table evaluates the initialiser of a package-level array/map of constants.
func (f *folder) table(g *ssa.Global) (fval, bool) {
	if v, ok := f.tables[g]; ok {
		return v, v.kind != 0
	}
	f.tables[g] = fval{}
	c := f.c
	if g.Pkg != c.SLib {
		return fval{}, false
	}
	if !c.globalNeverWritten(g) {
		return fval{}, false
	}
	e := c.globalInit(g.Name())
	cl, ok := e.(*ast.CompositeLit)
	if !ok {
		return fval{}, false
	}
	t := g.Type().(*types.Pointer).Elem().Underlying()
	mk := func(e ast.Expr, typ types.Type) (fval, bool) {
		cv := c.constVal(e)
		if cv == nil {
			// a function of the library: a named function, a method
			// expression (*T).m (called with the receiver first)
			if _, isSig := typ.Underlying().(*types.Signature); isSig {
				var obj types.Object
				switch x := ast.Unparen(e).(type) {
				case *ast.Ident:
					obj = c.Lib.TypesInfo.Uses[x]
				case *ast.SelectorExpr:
					obj = c.Lib.TypesInfo.Uses[x.Sel]
				}
				if fo, ok := obj.(*types.Func); ok {
					if fn := c.Prog.FuncValue(fo); fn != nil && fn.Blocks != nil {
						return fval{kind: 'f', fn: fn}, true
					}
				}
			}
			return fval{}, false
		}
		switch cv.Kind() {
		case constant.Bool:
			return fval{kind: 'b', b: constant.BoolVal(cv)}, true
		case constant.Int:
			bits, uns, ok := intInfo(typ)
			if !ok {
				return fval{}, false
			}
			if uns {
				u, _ := constant.Uint64Val(cv)
				return fval{kind: 'i', i: int64(u), u: true, bits: bits}, true
			}
			i, _ := constant.Int64Val(cv)
			return fval{kind: 'i', i: i, bits: bits}, true
		}
		return fval{}, false
	}
	// struct elements: {first, second, ...} with constant fields (a table of records)
	mkStruct := func(e ast.Expr, st *types.Struct) (fval, bool) {
		scl, ok := e.(*ast.CompositeLit)
		if !ok {
			return fval{}, false
		}
		out := fval{kind: 'S', tup: make([]fval, st.NumFields())}
		for i := 0; i < st.NumFields(); i++ {
			out.tup[i] = zeroFval(st.Field(i).Type(), 0)
		}
		for i, el := range scl.Elts {
			idx, val := i, el
			if kv, isKV := el.(*ast.KeyValueExpr); isKV {
				id, ok := kv.Key.(*ast.Ident)
				if !ok {
					return fval{}, false
				}
				idx = -1
				for j := 0; j < st.NumFields(); j++ {
					if st.Field(j).Name() == id.Name {
						idx = j
					}
				}
				val = kv.Value
			}
			if idx < 0 || idx >= st.NumFields() {
				return fval{}, false
			}
			if v, ok := mk(val, st.Field(idx).Type()); ok {
				out.tup[idx] = v
			} else {
				out.tup[idx] = fval{} // not a constant: unknown
			}
		}
		return out, true
	}
	switch t := t.(type) {
	case *types.Array:
		if est, isStruct := t.Elem().Underlying().(*types.Struct); isStruct {
			out := fval{kind: 'a', arr: make([]fval, t.Len())}
			for i, el := range cl.Elts {
				if _, isKV := el.(*ast.KeyValueExpr); isKV || i >= len(out.arr) {
					return fval{}, false
				}
				v, ok := mkStruct(el, est)
				if !ok {
					return fval{}, false
				}
				out.arr[i] = v
			}
			f.tables[g] = out
			return out, true
		}
		out := fval{kind: 'a', arr: make([]fval, t.Len())}
		bits, uns, _ := intInfo(t.Elem())
		for i := range out.arr {
			out.arr[i] = fval{kind: 'i', bits: bits, u: uns}
		}
		next := 0
		for _, el := range cl.Elts {
			idx := next
			val := el
			if kv, isKV := el.(*ast.KeyValueExpr); isKV {
				kc := c.constVal(kv.Key)
				if kc == nil {
					return fval{}, false
				}
				k64, ok := constant.Int64Val(constant.ToInt(kc))
				if !ok {
					return fval{}, false
				}
				idx = int(k64)
				val = kv.Value
			}
			v, ok := mk(val, t.Elem())
			if !ok || idx < 0 || idx >= len(out.arr) {
				return fval{}, false
			}
			out.arr[idx] = v
			next = idx + 1
		}
		f.tables[g] = out
		return out, true
	case *types.Map:
		out := fval{kind: 'm', m: map[int64]fval{}}
		for _, el := range cl.Elts {
			kv, ok := el.(*ast.KeyValueExpr)
			if !ok {
				return fval{}, false
			}
			k, ok1 := mk(kv.Key, t.Key())
			var v fval
			var ok2 bool
			if est, isStruct := t.Elem().Underlying().(*types.Struct); isStruct {
				v, ok2 = mkStruct(kv.Value, est)
			} else {
				v, ok2 = mk(kv.Value, t.Elem())
			}
			if !ok1 || !ok2 || k.kind != 'i' {
				return fval{}, false
			}
			out.m[k.i] = v
		}
		// zero value for misses
		z, _ := func() (fval, bool) {
			if bits, uns, ok := intInfo(t.Elem()); ok {
				return fval{kind: 'i', bits: bits, u: uns}, true
			}
			if _, isStruct := t.Elem().Underlying().(*types.Struct); isStruct {
				return zeroFval(t.Elem(), 0), true
			}
			if _, isSig := t.Elem().Underlying().(*types.Signature); isSig {
				return fval{kind: 'f'}, true // the nil function
			}
			return fval{kind: 'b'}, true
		}()
		out.tup = []fval{z}
		f.tables[g] = out
		return out, true
	}
	return fval{}, false
}

// globalNeverWritten: no Store/MapUpdate targets the global outside the
// package initialiser.
func (c *Ctx) globalNeverWritten(g *ssa.Global) bool {
	if c.gwCache == nil {
		c.gwCache = map[*ssa.Global]bool{}
		for _, fn := range allFuncs(c.SLib) {
			if fn.Name() == "init" && fn.Synthetic != "" {
				continue
			}
			for _, b := range fn.Blocks {
				for _, in := range b.Instrs {
					switch in := in.(type) {
					case *ssa.Store:
						if gg := rootGlobal(in.Addr); gg != nil {
							c.gwCache[gg] = true
						}
					case *ssa.MapUpdate:
						if gg := rootGlobal(in.Map); gg != nil {
							c.gwCache[gg] = true
						}
					}
				}
			}
		}
	}
	return !c.gwCache[g]
}

// rootGlobal: the global an address / loaded container value comes from.
func rootGlobal(v ssa.Value) *ssa.Global {
	for i := 0; i < 8; i++ {
		switch x := v.(type) {
		case *ssa.Global:
			return x
		case *ssa.UnOp:
			v = x.X
		case *ssa.IndexAddr:
			v = x.X
		case *ssa.FieldAddr:
			v = x.X
		case *ssa.Slice:
			v = x.X
		default:
			return nil
		}
	}
	return nil
}

func (f *folder) eval(v ssa.Value) (fval, bool) {
	if x, ok := f.env[v]; ok {
		return x, true
	}
	switch v := v.(type) {
	case *ssa.Const:
		return f.constOf(v)
	}
	return fval{}, false
}

func cmpOp(op token.Token, a, b fval) (bool, bool) {
	if a.kind == 'i' && b.kind == 'i' {
		if a.u || b.u {
			x, y := uint64(a.i), uint64(b.i)
			switch op {
			case token.EQL:
				return x == y, true
			case token.NEQ:
				return x != y, true
			case token.LSS:
				return x < y, true
			case token.LEQ:
				return x <= y, true
			case token.GTR:
				return x > y, true
			case token.GEQ:
				return x >= y, true
			}
			return false, false
		}
		x, y := a.i, b.i
		switch op {
		case token.EQL:
			return x == y, true
		case token.NEQ:
			return x != y, true
		case token.LSS:
			return x < y, true
		case token.LEQ:
			return x <= y, true
		case token.GTR:
			return x > y, true
		case token.GEQ:
			return x >= y, true
		}
	}
	if a.kind == 'b' && b.kind == 'b' {
		switch op {
		case token.EQL:
			return a.b == b.b, true
		case token.NEQ:
			return a.b != b.b, true
		}
	}
	return false, false
}

// step folds one instruction; returns stop != nil when it is not pure.
func (f *folder) step(in ssa.Instruction) *foldStop {
	switch in := in.(type) {
	case *ssa.DebugRef:
		return nil
	case *ssa.BinOp:
		a, ok1 := f.eval(in.X)
		b, ok2 := f.eval(in.Y)
		if !ok1 || !ok2 {
			return nil // value stays unknown; only matters if a branch needs it
		}
		switch in.Op {
		case token.EQL, token.NEQ, token.LSS, token.LEQ, token.GTR, token.GEQ:
			if r, ok := cmpOp(in.Op, a, b); ok {
				f.env[in] = fval{kind: 'b', b: r}
			}
			return nil
		}
		if a.kind != 'i' || b.kind != 'i' {
			return nil
		}
		bits, uns, ok := intInfo(in.Type())
		if !ok {
			return nil
		}
		var r int64
		switch in.Op {
		case token.ADD:
			r = a.i + b.i
		case token.SUB:
			r = a.i - b.i
		case token.MUL:
			r = a.i * b.i
		case token.AND:
			r = a.i & b.i
		case token.OR:
			r = a.i | b.i
		case token.XOR:
			r = a.i ^ b.i
		case token.AND_NOT:
			r = a.i &^ b.i
		case token.SHL:
			sh := uint64(b.i)
			if !b.u && b.i < 0 {
				return &foldStop{kind: "panic", instr: in, what: "negative shift amount"}
			}
			if sh >= 64 {
				r = 0
			} else {
				r = int64(uint64(a.i) << sh)
			}
		case token.SHR:
			sh := uint64(b.i)
			if !b.u && b.i < 0 {
				return &foldStop{kind: "panic", instr: in, what: "negative shift amount"}
			}
			if uns {
				if sh >= 64 {
					r = 0
				} else {
					r = int64(uint64(a.i) >> sh)
				}
			} else {
				if sh >= 64 {
					sh = 63
				}
				r = a.i >> sh
			}
		case token.QUO, token.REM:
			if b.i == 0 {
				return &foldStop{kind: "panic", instr: in, what: "integer division by zero"}
			}
			if uns {
				if in.Op == token.QUO {
					r = int64(uint64(a.i) / uint64(b.i))
				} else {
					r = int64(uint64(a.i) % uint64(b.i))
				}
			} else {
				if in.Op == token.QUO {
					r = a.i / b.i
				} else {
					r = a.i % b.i
				}
			}
		default:
			return nil
		}
		f.env[in] = fval{kind: 'i', i: wrap(r, bits, uns), u: uns, bits: bits}
		return nil
	case *ssa.UnOp:
		switch in.Op {
		case token.NOT:
			if a, ok := f.eval(in.X); ok && a.kind == 'b' {
				f.env[in] = fval{kind: 'b', b: !a.b}
			}
			return nil
		case token.SUB:
			if a, ok := f.eval(in.X); ok && a.kind == 'i' {
				bits, uns, _ := intInfo(in.Type())
				f.env[in] = fval{kind: 'i', i: wrap(-a.i, bits, uns), u: uns, bits: bits}
			}
			return nil
		case token.MUL: // load
			if g, ok := in.X.(*ssa.Global); ok {
				if t, ok := f.table(g); ok {
					f.env[in] = t
				}
				return nil
			}
			if ia, ok := in.X.(*ssa.IndexAddr); ok {
				if v, ok := f.env[ia]; ok {
					f.env[in] = v
				}
				return nil
			}
			// a load of anything else is a read of mutable state: not folded,
			// but harmless
			return nil
		}
		return nil
	case *ssa.IndexAddr:
		// element of a constant table
		var base fval
		okb := false
		if g, ok := in.X.(*ssa.Global); ok {
			base, okb = f.table(g)
		} else {
			base, okb = f.eval(in.X)
		}
		idx, oki := f.eval(in.Index)
		if okb && base.kind == 'a' && oki && idx.kind == 'i' {
			var ix uint64 = uint64(idx.i)
			if (!idx.u && idx.i < 0) || ix >= uint64(len(base.arr)) {
				return &foldStop{kind: "panic", instr: in, what: fmt.Sprintf("index out of range [0,%d)", len(base.arr))}
			}
			f.env[in] = base.arr[ix]
		}
		return nil
	case *ssa.Index:
		base, okb := f.eval(in.X)
		idx, oki := f.eval(in.Index)
		if okb && base.kind == 'a' && oki && idx.kind == 'i' {
			if (!idx.u && idx.i < 0) || uint64(idx.i) >= uint64(len(base.arr)) {
				return &foldStop{kind: "panic", instr: in, what: fmt.Sprintf("index out of range [0,%d)", len(base.arr))}
			}
			f.env[in] = base.arr[idx.i]
		}
		return nil
	case *ssa.Lookup:
		base, okb := f.eval(in.X)
		idx, oki := f.eval(in.Index)
		if okb && base.kind == 'm' && oki && idx.kind == 'i' {
			v, hit := base.m[idx.i]
			if !hit {
				v = base.tup[0]
			}
			if in.CommaOk {
				f.env[in] = fval{kind: 't', tup: []fval{v, {kind: 'b', b: hit}}}
			} else {
				f.env[in] = v
			}
		}
		return nil
	case *ssa.Extract:
		if t, ok := f.eval(in.Tuple); ok && t.kind == 't' && in.Index < len(t.tup) {
			f.env[in] = t.tup[in.Index]
		}
		return nil
	case *ssa.Convert:
		a, ok := f.eval(in.X)
		if !ok || a.kind != 'i' {
			return nil
		}
		bits, uns, ok := intInfo(in.Type())
		if !ok {
			return nil // e.g. string(r): not needed for dispatch
		}
		// the source value is already sign-/zero-extended to 64 bits
		f.env[in] = fval{kind: 'i', i: wrap(a.i, bits, uns), u: uns, bits: bits}
		return nil
	case *ssa.ChangeType:
		if a, ok := f.eval(in.X); ok {
			f.env[in] = a
		}
		return nil
	case *ssa.Phi:
		return nil // handled by the driver (needs the predecessor)
	case *ssa.FieldAddr, *ssa.Field:
		return nil
	case *ssa.Slice:
		base, ok := f.eval(in.X)
		if !ok || base.kind != 's' {
			return &foldStop{kind: "impure", instr: in}
		}
		lo, hi := int64(0), int64(len(base.s))
		if in.Low != nil {
			v, ok := f.eval(in.Low)
			if !ok || v.kind != 'i' {
				return &foldStop{kind: "unknown", instr: in, what: "slice bound not foldable"}
			}
			lo = v.i
		}
		if in.High != nil {
			v, ok := f.eval(in.High)
			if !ok || v.kind != 'i' {
				return &foldStop{kind: "unknown", instr: in, what: "slice bound not foldable"}
			}
			hi = v.i
		}
		if lo < 0 || hi > int64(len(base.s)) || lo > hi {
			return &foldStop{kind: "panic", instr: in, what: fmt.Sprintf("slice bounds out of range [%d:%d] with length %d", lo, hi, len(base.s))}
		}
		f.env[in] = fval{kind: 's', s: base.s[lo:hi]}
		return nil
	}
	return &foldStop{kind: "impure", instr: in}
}

// run follows control flow from (blk, idx) until an impure instruction.
func (f *folder) run(blk *ssa.BasicBlock, idx int, prev *ssa.BasicBlock) *foldStop {
	for {
		for i := idx; i < len(blk.Instrs); i++ {
			f.steps++
			if f.steps > 4000 {
				return &foldStop{kind: "limit"}
			}
			in := blk.Instrs[i]
			switch in := in.(type) {
			case *ssa.Phi:
				if prev != nil {
					for pi, p := range blk.Preds {
						if p == prev {
							if v, ok := f.eval(in.Edges[pi]); ok {
								f.env[in] = v
							} else {
								delete(f.env, in)
							}
						}
					}
				}
				continue
			case *ssa.If:
				cv, ok := f.eval(in.Cond)
				if !ok || cv.kind != 'b' {
					return &foldStop{kind: "unknown", instr: in, what: "branch condition is not a foldable function of the input"}
				}
				prev = blk
				if cv.b {
					blk = blk.Succs[0]
				} else {
					blk = blk.Succs[1]
				}
				idx = 0
				goto next
			case *ssa.Jump:
				prev = blk
				blk = blk.Succs[0]
				idx = 0
				goto next
			case *ssa.Return:
				return &foldStop{kind: "return", instr: in}
			case *ssa.Call:
				st := &foldStop{kind: "call", instr: in}
				for _, a := range in.Call.Args {
					v, ok := f.eval(a)
					st.args = append(st.args, v)
					st.argOK = append(st.argOK, ok)
				}
				// a pure helper of the library (no receiver state involved) whose
				// arguments are all known is folded like inline code
				if callee := in.Call.StaticCallee(); callee != nil && callee.Pkg == f.c.SLib && callee.Blocks != nil && callee.Signature.Recv() == nil && f.depth < 4 {
					all := len(st.args) > 0
					for _, ok := range st.argOK {
						all = all && ok
					}
					if all {
						sub := &folder{c: f.c, env: map[ssa.Value]fval{}, tables: f.tables, depth: f.depth + 1}
						for pi, prm := range callee.Params {
							sub.env[prm] = st.args[pi]
						}
						res := sub.run(callee.Blocks[0], 0, nil)
						f.steps += sub.steps
						switch res.kind {
						case "return":
							ret := res.instr.(*ssa.Return)
							if len(ret.Results) == 1 {
								if v, ok := sub.eval(ret.Results[0]); ok {
									f.env[in] = v
									continue
								}
							}
						case "panic":
							return res
						}
					}
				}
				return st
			}
			if st := f.step(in); st != nil {
				return st
			}
		}
		return &foldStop{kind: "unknown", what: "fell off a block"}
	next:
	}
}

func newFolder(c *Ctx) *folder {
	return &folder{c: c, env: map[ssa.Value]fval{}, tables: map[*ssa.Global]fval{}}
}
