package main

import (
	"fmt"
	"go/constant"
	"go/token"
	"go/types"
	"os"
	"sort"
	"strconv"
	"strings"

	"golang.org/x/tools/go/ssa"
)

// Disjunctive abstract interpreter over go/ssa for the evaluation half of the
// library (interpreter.go, functions.go, util.go). A configuration is
// (block, abstract store, abstract heap); the interpreter explores all
// configurations reachable from an abstract call, forking wherever an
// abstract value does not decide a branch, and memoising configurations per
// activation, so it computes a fixpoint over a finite domain. It never runs
// code of the repository: every instruction is given its abstract transfer
// function below; calls into the standard library use the model table in
// absmodels.go; recursive calls of the evaluator use an inductive hypothesis
// supplied by the rule that started the run.

type aobj struct {
	kind   byte // c cell, s struct, l concrete list/array, a abstract list, m map
	v      AV
	fields []AV
	elems  []AV
	join   AV    // a: join of all elements
	minLen int   // a: known lower bound of the length
	exact  bool  // a: length is exactly minLen
	nonEmp uint8 // m: 1 may be empty 2 may be non-empty
	bad    bool
	typ    types.Type
	// m, in table mode only: entries under constant string keys, in insertion
	// order (ents == nil: abstract)
	ents    map[string]AV
	entPos  map[string]token.Pos
	entKeys []string
}

func (o *aobj) clone() *aobj {
	n := *o
	n.fields = append([]AV(nil), o.fields...)
	n.elems = append([]AV(nil), o.elems...)
	if o.ents != nil {
		n.ents = make(map[string]AV, len(o.ents))
		n.entPos = make(map[string]token.Pos, len(o.ents))
		for k, v := range o.ents {
			n.ents[k] = v
			n.entPos[k] = o.entPos[k]
		}
		n.entKeys = append([]string(nil), o.entKeys...)
	}
	return &n
}

// Heap is copy-on-write: clone shares the objects; mut copies one before it
// is written.
type Heap struct {
	objs  map[int]*aobj
	owned map[int]bool
	next  int
}

func newHeap() *Heap { return &Heap{objs: map[int]*aobj{}, owned: map[int]bool{}, next: 1} }

func (h *Heap) clone() *Heap {
	n := &Heap{objs: make(map[int]*aobj, len(h.objs)), owned: map[int]bool{}, next: h.next}
	for k, v := range h.objs {
		n.objs[k] = v
	}
	h.owned = map[int]bool{} // both sides now share every object
	return n
}

// mut returns the object for writing.
func (h *Heap) mut(id int) *aobj {
	o := h.objs[id]
	if o == nil {
		return nil
	}
	if !h.owned[id] {
		o = o.clone()
		h.objs[id] = o
		h.owned[id] = true
	}
	return o
}

func (h *Heap) alloc(o *aobj) int {
	id := h.next
	h.next++
	h.objs[id] = o
	h.owned[id] = true
	return id
}

// stackLink: the frames of the callers of the running activation (GC roots).
type stackLink struct {
	fr *frame
	up *stackLink
}

func markAV(v AV, seen map[int]bool, work *[]int, depth int) {
	if v.obj != 0 && !seen[v.obj] {
		seen[v.obj] = true
		*work = append(*work, v.obj)
	}
	for _, t := range v.tup {
		markAV(t, seen, work, depth)
	}
	if v.agg != nil && v.agg.table == nil && depth < 4 {
		for _, f := range v.agg.fields {
			markAV(f, seen, work, depth+1)
		}
		for _, f := range v.agg.elems {
			markAV(f, seen, work, depth+1)
		}
	}
}

// gc drops heap objects unreachable from the frame and its callers' frames.
func (h *Heap) gc(fr *frame, up *stackLink) {
	seen := map[int]bool{}
	var work []int
	for f, u := fr, up; f != nil; {
		for _, v := range f.vals {
			markAV(v, seen, &work, 0)
		}
		if u == nil {
			break
		}
		f, u = u.fr, u.up
	}
	for len(work) > 0 {
		id := work[len(work)-1]
		work = work[:len(work)-1]
		o := h.objs[id]
		if o == nil {
			continue
		}
		markAV(o.v, seen, &work, 0)
		markAV(o.join, seen, &work, 0)
		for _, ev := range o.ents {
			markAV(ev, seen, &work, 0)
		}
		for _, f := range o.fields {
			markAV(f, seen, &work, 0)
		}
		for _, f := range o.elems {
			markAV(f, seen, &work, 0)
		}
	}
	for id := range h.objs {
		if !seen[id] {
			delete(h.objs, id)
			delete(h.owned, id)
		}
	}
}

func (h *Heap) key() string {
	ids := make([]int, 0, len(h.objs))
	for id := range h.objs {
		ids = append(ids, id)
	}
	sort.Ints(ids)
	var b strings.Builder
	for _, id := range ids {
		o := h.objs[id]
		fmt.Fprintf(&b, "#%d%c%d%v%d", id, o.kind, o.minLen, o.exact, o.nonEmp)
		if o.bad {
			b.WriteByte('!')
		}
		o.v.writeKey(&b)
		o.join.writeKey(&b)
		for _, f := range o.fields {
			f.writeKey(&b)
			b.WriteByte(';')
		}
		for _, f := range o.elems {
			f.writeKey(&b)
			b.WriteByte(';')
		}
	}
	return b.String()
}

// hcall: one use of the recursion hypothesis on a path (for the threading oracle).
type hcall struct {
	callee string // "Execute" or "CallFunction"
	node   string // classification of the node argument
	data   AV     // the data argument
	pos    token.Pos
	ret    AV
}

type pathInfo struct {
	calls  []hcall
	notes  []string
	more   bool // further hypothesis calls were made but not recorded
	failed bool // some hypothesised evaluation returned an error on this path
	// fuzzy: the path has followed both sides of an integer comparison it could
	// not decide (a loop bound that is not known): counters and list contents
	// computed along it need not be reachable together with its other facts
	fuzzy bool
}

func (p pathInfo) note(s string) pathInfo {
	return pathInfo{calls: p.calls, notes: append(append([]string(nil), p.notes...), s), more: p.more, failed: p.failed, fuzzy: p.fuzzy}
}

const maxPathCalls = 6

// maxConcreteList: lists up to this length keep one abstract cell per element
const maxConcreteList = 6

func (p pathInfo) with(c hcall) pathInfo {
	if len(p.calls) >= maxPathCalls {
		// saturate: keeps the configuration space finite inside loops
		return pathInfo{calls: p.calls, notes: p.notes, more: true, failed: p.failed, fuzzy: p.fuzzy}
	}
	n := pathInfo{calls: append(append([]hcall(nil), p.calls...), c), notes: p.notes, more: p.more, failed: p.failed, fuzzy: p.fuzzy}
	return n
}

type frame struct {
	fn   *ssa.Function
	vals map[ssa.Value]AV
	cnt  map[*ssa.Phi]int // per-path count of back-edge updates (widening)
	// fuzzy: this activation has followed both sides of an integer comparison it
	// could not decide (a loop bound that is not known): the counters computed
	// along such a path may not be reachable together with its other facts
	fuzzy bool
}

func (f *frame) clone() *frame {
	n := &frame{fn: f.fn, vals: make(map[ssa.Value]AV, len(f.vals)+8), fuzzy: f.fuzzy}
	for k, v := range f.vals {
		n.vals[k] = v
	}
	if len(f.cnt) > 0 {
		n.cnt = make(map[*ssa.Phi]int, len(f.cnt))
		for k, v := range f.cnt {
			n.cnt[k] = v
		}
	}
	return n
}

type hypOutcome struct {
	res AV
	err AV
}

type event struct {
	kind   string
	in     ssa.Instruction
	ok     int
	bad    int
	detail []string
}

type outcome struct {
	kind string // "return", "panic"
	rets []AV
	heap *Heap
	path pathInfo
	why  string
	in   ssa.Instruction
}

type Exec struct {
	c            *Ctx
	uni          Atoms // universe of unknown document values
	resUni       Atoms // universe assumed for recursive evaluation results
	elemUni      Atoms // universe of the members of generic containers ([]interface{}, map[string]interface{})
	label        string
	hyp          func(x *Exec, callee *ssa.Function, call *ssa.Call, args []AV, p pathInfo) []hypOutcome
	hypFns       map[*ssa.Function]bool
	events       map[string]*event
	steps        int
	limit        int
	depth        int
	gaps         map[string]token.Pos // unsupported constructs met
	trunc        bool
	caller       AV
	traceReturns bool
	cli          bool                                 // interpreting cmd/jpgo: library calls are modelled, not inlined
	curFuzzy     bool                                 // the path being interpreted is fuzzy (see pathInfo)
	truncP       *bool                                // shared truncation flag of the rule's aggregate
	budget       *int64                               // steps left for all the interpreters of one rule run (nil: no shared budget)
	tableMode    bool                                 // evaluating the function-table constructor: maps keep their constant-keyed entries, loops are unrolled further
	onExit       func(status AV, h *Heap, p pathInfo) // os.Exit in the command (J-ABS)
	onPanic      func(arg AV, h *Heap, p pathInfo)    // an explicit panic (API rules)
	pendingFV    []AV                                 // captured variables for the function literal about to be entered
	ord          func(a, b prov) (int, bool)          // order hypothesis on tagged numbers/strings (rule K-ORDER): -1, 0, +1
	cliGlobals   map[string]string                    // package-level variables of the command initialised to os.Stdout / os.Stderr / os.Stdin
}

func (c *Ctx) newExec(uni Atoms, label string) *Exec {
	return &Exec{c: c, uni: uni, resUni: uni, elemUni: uni, label: label, events: map[string]*event{}, limit: 3000000, gaps: map[string]token.Pos{}, hypFns: map[*ssa.Function]bool{}}
}

func (x *Exec) ev(kind string, in ssa.Instruction, ok bool, detail string) {
	key := fmt.Sprintf("%s|%p", kind, in)
	e := x.events[key]
	if e == nil {
		e = &event{kind: kind, in: in}
		x.events[key] = e
	}
	if ok {
		e.ok++
		return
	}
	e.bad++
	if len(e.detail) < 4 {
		d := detail
		if x.label != "" {
			d += " [in " + x.label + "]"
		}
		for _, old := range e.detail {
			if old == d {
				return
			}
		}
		e.detail = append(e.detail, d)
	}
}

func (x *Exec) gap(what string, pos token.Pos) {
	if _, ok := x.gaps[what]; !ok {
		x.gaps[what] = pos
	}
}

// ---------------------------------------------------------------- values

func (x *Exec) zero(t types.Type) AV {
	switch u := t.Underlying().(type) {
	case *types.Interface:
		if isErrorType(t) {
			return AV{k: 'E', tri: 1}
		}
		return AV{k: 'I', atoms: ANull}
	case *types.Basic:
		switch {
		case u.Info()&types.IsBoolean != 0:
			return AV{k: 'B', tri: 2}
		case u.Info()&types.IsInteger != 0:
			return AV{k: 'N', nk: true}
		case u.Info()&types.IsFloat != 0:
			return AV{k: 'F', fbits: 1}
		case u.Info()&types.IsString != 0:
			return AV{k: 'S', sk: true}
		}
	case *types.Slice:
		v := AV{k: 'L', tri: 1, elemK: x.elemKind(u.Elem())}
		if x.c.assertAtoms(t)&AArrays != 0 {
			v.atoms = ANilSlice
		}
		return v
	case *types.Map:
		v := AV{k: 'M', tri: 1}
		if x.c.assertAtoms(t)&AObjects != 0 {
			v.atoms = ANilMap
		}
		return v
	case *types.Pointer:
		return AV{k: 'P', tri: 1}
	case *types.Struct:
		g := &aggVal{}
		for i := 0; i < u.NumFields(); i++ {
			g.fields = append(g.fields, x.zero(u.Field(i).Type()))
		}
		return AV{k: 'G', agg: g, what: types.TypeString(t, nil)}
	case *types.Signature:
		return AV{k: 'U', tri: 1} // the nil function
	}
	return AV{k: 'O', what: "zero " + t.String()}
}

func (x *Exec) elemKind(t types.Type) byte {
	switch u := t.Underlying().(type) {
	case *types.Interface:
		return 'I'
	case *types.Basic:
		if u.Info()&types.IsFloat != 0 {
			return 'F'
		}
		if u.Info()&types.IsString != 0 {
			return 'S'
		}
	}
	return 'O'
}

func (x *Exec) constAV(k *ssa.Const) AV {
	if k.Value == nil {
		return x.zero(k.Type())
	}
	switch k.Value.Kind() {
	case constant.Bool:
		if constant.BoolVal(k.Value) {
			return AV{k: 'B', tri: 1}
		}
		return AV{k: 'B', tri: 2}
	case constant.String:
		return AV{k: 'S', s: constant.StringVal(k.Value), sk: true}
	case constant.Int:
		if b, ok := k.Type().Underlying().(*types.Basic); ok && b.Info()&types.IsFloat != 0 {
			f, _ := constant.Float64Val(k.Value)
			fb := uint8(1)
			if f != 0 {
				fb |= 8
			}
			return AV{k: 'F', fbits: fb}
		}
		n, _ := constant.Int64Val(k.Value)
		return AV{k: 'N', n: n, nk: true, pos: n >= 1}
	case constant.Float:
		f, _ := constant.Float64Val(k.Value)
		fb := uint8(1)
		if f != 0 {
			fb |= 8
		}
		return AV{k: 'F', fbits: fb}
	}
	return AV{k: 'O', what: "const"}
}

func (x *Exec) val(fr *frame, v ssa.Value) AV {
	switch v := v.(type) {
	case *ssa.Const:
		return x.constAV(v)
	case *ssa.Function:
		return AV{k: 'U', what: v.Name(), fn: v}
	case *ssa.Global:
		return AV{k: 'P', tri: 2, what: "global " + v.Name()}
	case *ssa.Builtin:
		return AV{k: 'U', what: "builtin " + v.Name()}
	}
	if a, ok := fr.vals[v]; ok {
		return a
	}
	return AV{k: 'O', what: "undefined " + v.Name()}
}

// fromAtoms: the typed value obtained by asserting an interface with the given atoms to T.
func (x *Exec) fromAtoms(T types.Type, a Atoms, from AV) AV {
	switch u := T.Underlying().(type) {
	case *types.Basic:
		switch {
		case u.Kind() == types.Float64:
			fb := uint8(0)
			if a&ANum != 0 {
				fb |= 1
			}
			if a&ANumBad != 0 {
				fb |= 2 | 4
			}
			return AV{k: 'F', fbits: fb, prov: from.prov}
		case u.Kind() == types.String:
			if a == AStrE {
				return AV{k: 'S', sk: true, prov: from.prov}
			}
			return AV{k: 'S', atoms: a, prov: from.prov}
		case u.Kind() == types.Bool:
			t := uint8(0)
			if a&ABoolT != 0 {
				t |= 1
			}
			if a&ABoolF != 0 {
				t |= 2
			}
			return AV{k: 'B', tri: t}
		}
		// a boxed enumeration constant (a token, a node type) keeps its value
		if _, isNamed := T.(*types.Named); isNamed && from.nk {
			return AV{k: 'N', n: from.n, nk: true, pos: from.n >= 1, nn: from.n >= 0}
		}
		return AV{k: 'N'}
	case *types.Slice:
		v := AV{k: 'L', atoms: a, elemK: x.elemKind(u.Elem()), prov: from.prov, obj: from.obj, bad: from.bad}
		if a&ANilSlice != 0 {
			v.tri |= 1
		}
		if a&^ANilSlice != 0 {
			v.tri |= 2
		}
		return v
	case *types.Map:
		v := AV{k: 'M', atoms: a, prov: from.prov, obj: from.obj, bad: from.bad}
		if a&ANilMap != 0 {
			v.tri |= 1
		}
		if a&^ANilMap != 0 {
			v.tri |= 2
		}
		return v
	case *types.Struct:
		if from.agg != nil {
			return AV{k: 'G', agg: from.agg, what: "expRef", prov: from.prov}
		}
		return AV{k: 'O', what: "struct " + T.String(), prov: from.prov}
	case *types.Pointer:
		return AV{k: 'P', tri: 2, what: "ptr " + T.String(), obj: from.obj}
	}
	return AV{k: 'O', what: "asserted " + T.String()}
}

// toIface: boxing a typed value.
func (x *Exec) toIface(v AV, T types.Type, h *Heap) AV {
	out := AV{k: 'I', prov: v.prov, tag: v.tag}
	switch v.k {
	case 'I':
		return v
	case 'E':
		return v
	case 'F':
		if v.fbits&1 != 0 {
			out.atoms |= ANum
		}
		if v.fbits&6 != 0 {
			out.atoms |= ANumBad
		}
	case 'S':
		switch {
		case v.sk && v.s == "":
			out.atoms = AStrE
		case v.sk:
			out.atoms = AStrN
		case v.atoms != 0:
			out.atoms = v.atoms & AStrings
		default:
			out.atoms = AStrings
		}
	case 'B':
		if v.tri&1 != 0 {
			out.atoms |= ABoolT
		}
		if v.tri&2 != 0 {
			out.atoms |= ABoolF
		}
	case 'L':
		isJSON := x.c.assertAtoms(T)&AArrays != 0
		out.obj = v.obj
		out.bad = v.bad
		if n, ok := T.(*types.Named); ok && x.c.Prog.MethodSets.MethodSet(n).Len() > 0 {
			out.dyn = T // a named slice type with methods (a sort adapter of the standard library)
		}
		if !isJSON {
			if v.tri&1 != 0 {
				out.atoms |= AOther // a nil typed slice
			}
			out.atoms |= ATSlices
			return out
		}
		if v.tri&1 != 0 {
			out.atoms |= ANilSlice
		}
		if v.tri&2 != 0 || v.tri == 0 {
			if v.obj != 0 {
				o := h.objs[v.obj]
				switch o.kind {
				case 'l':
					if len(o.elems) == 0 {
						out.atoms |= AArrE
					} else {
						out.atoms |= AArrMix
					}
				case 'a':
					if o.minLen == 0 {
						out.atoms |= AArrE
					}
					if !(o.exact && o.minLen == 0) {
						out.atoms |= AArrMix
					}
				}
				if o.bad {
					out.bad = true
				}
			} else if v.atoms&AArrays != 0 {
				out.atoms |= v.atoms & AArrays
			} else {
				out.atoms |= AArrE | AArrMix
			}
		}
	case 'M':
		isJSON := x.c.assertAtoms(T)&AObjects != 0
		out.obj = v.obj
		if !isJSON {
			out.atoms = AOMapE | AOMapN
			return out
		}
		if v.tri&1 != 0 {
			out.atoms |= ANilMap
		}
		if v.tri&2 != 0 || v.tri == 0 {
			if v.obj != 0 {
				o := h.objs[v.obj]
				if o.nonEmp&1 != 0 || o.nonEmp == 0 {
					out.atoms |= AObjE
				}
				if o.nonEmp&2 != 0 {
					out.atoms |= AObjN
				}
				out.bad = o.bad
			} else if v.atoms&AObjects != 0 {
				out.atoms |= v.atoms & AObjects
			} else {
				out.atoms |= AObjects
			}
		}
	case 'G':
		if types.Identical(T, x.c.A.ExpRefT) {
			out.atoms = AExpref
			out.agg = v.agg
		} else {
			out.atoms = AStruct
			if x.libMethodType(T) {
				out.agg = v.agg
				out.dyn = T
			}
		}
	case 'P':
		if pt, ok := T.Underlying().(*types.Pointer); ok && types.Identical(pt.Elem(), x.c.A.InterpT) {
			out.atoms = AInterp
		} else {
			if v.tri&1 != 0 {
				out.atoms |= ANilPtr
			}
			if v.tri&2 != 0 || v.tri == 0 {
				out.atoms |= APtr
			}
			if x.libMethodType(T) {
				out.dyn = T
			}
		}
		out.obj = v.obj
	case 'N':
		out.atoms = AOther
		out.n, out.nk = v.n, v.nk
	case 'A':
		// the address of a field or element (&s.data) handed on as interface{}
		out.atoms = APtr
		out.obj, out.idx, out.what = v.obj, v.idx, "boxed-addr"
	default:
		if types.Identical(T, x.c.A.ExpRefT) {
			out.atoms = AExpref
		} else {
			out.atoms = AOther
		}
	}
	return out
}

// ---------------------------------------------------------------- running a function

type contFn func(rets []AV, h *Heap, p pathInfo, fin *frame)

type activation struct {
	x        *Exec
	fr0      *ssa.Function
	visited  map[string]bool
	phiCount map[*ssa.Phi]int
	up       *stackLink
	k        contFn
	outs     *[]outcome
}

// run explores fn from its entry with the given arguments.
func (x *Exec) run(fn *ssa.Function, args []AV, h *Heap, p pathInfo, k contFn) {
	x.runUp(fn, args, h, p, nil, k)
}

func (x *Exec) runUp(fn *ssa.Function, args []AV, h *Heap, p pathInfo, up *stackLink, k contFn) {
	if fn.Blocks == nil {
		x.gap("function without body: "+fn.String(), fn.Pos())
		return
	}
	x.depth++
	defer func() { x.depth-- }()
	if x.depth > 12 {
		x.gap("call depth exceeded at "+fn.Name(), fn.Pos())
		return
	}
	// a function that is already being interpreted twice up the stack: unbounded
	// recursion over an unknown structure is not unrolled
	nested := 0
	for l := up; l != nil; l = l.up {
		if l.fr != nil && l.fr.fn == fn {
			nested++
		}
	}
	if nested >= 2 {
		// a pure function with only basic results: its deeper results are unknown
		// values of their types, which loses nothing but precision
		if pureBasicFunc(fn) {
			var rets []AV
			res := fn.Signature.Results()
			for i := 0; i < res.Len(); i++ {
				rets = append(rets, x.opaqueOf(res.At(i).Type(), "recursive result"))
			}
			k(rets, h, p, &frame{fn: fn, vals: map[ssa.Value]AV{}})
			return
		}
		x.gap("recursive call of "+fn.Name()+" not unrolled further", fn.Pos())
		return
	}
	fr := &frame{fn: fn, vals: map[ssa.Value]AV{}}
	for i, prm := range fn.Params {
		if i < len(args) {
			fr.vals[prm] = args[i]
		}
	}
	// free variables of a function literal: the closure's bindings
	if len(fn.FreeVars) > 0 {
		fvs := x.pendingFV
		x.pendingFV = nil
		if len(fvs) != len(fn.FreeVars) {
			x.gap("function literal "+fn.Name()+" entered without its captured variables", fn.Pos())
			return
		}
		for i, fv := range fn.FreeVars {
			fr.vals[fv] = fvs[i]
		}
	}
	d := x.depth
	kk := func(rets []AV, h *Heap, p pathInfo, fin *frame) {
		// the continuation runs the rest of the *caller*: it is not nested in this call
		save := x.depth
		x.depth = d - 1
		k(rets, h, p, fin)
		x.depth = save
	}
	act := &activation{x: x, fr0: fn, visited: map[string]bool{}, phiCount: map[*ssa.Phi]int{}, k: kk, up: up}
	act.block(fn.Blocks[0], nil, fr, h, p)
}

// stateKey: canonical rendering of the frame and of the heap objects
// reachable from it (objects are renumbered in order of first reference, so
// garbage and allocation order do not matter).
var nameCache = map[ssa.Value]string{}

func valName(v ssa.Value) string {
	if n, ok := nameCache[v]; ok {
		return n
	}
	n := v.Name()
	nameCache[v] = n
	return n
}

func stateKey(fr *frame, h *Heap) string {
	names := make([]string, 0, len(fr.vals))
	byName := make(map[string]AV, len(fr.vals))
	for v, a := range fr.vals {
		n := valName(v)
		names = append(names, n)
		byName[n] = a
	}
	sort.Strings(names)
	canon := map[int]int{}
	var order []int
	m := func(id int) int {
		if c, ok := canon[id]; ok {
			return c
		}
		canon[id] = len(order) + 1
		order = append(order, id)
		return canon[id]
	}
	var b strings.Builder
	for _, n := range names {
		b.WriteString(n)
		b.WriteByte('=')
		a := byName[n]
		a.writeKeyM(&b, m)
		b.WriteByte(' ')
	}
	for i := 0; i < len(order); i++ {
		o := h.objs[order[i]]
		if o == nil {
			continue
		}
		b.WriteByte('#')
		b.WriteString(strconv.Itoa(i + 1))
		b.WriteByte(o.kind)
		b.WriteString(strconv.Itoa(o.minLen))
		if o.exact {
			b.WriteByte('x')
		}
		b.WriteString(strconv.Itoa(int(o.nonEmp)))
		if o.bad {
			b.WriteByte('!')
		}
		o.v.writeKeyM(&b, m)
		o.join.writeKeyM(&b, m)
		if o.ents != nil {
			// table mode: the number of entries identifies the state well enough (entries are only added)
			b.WriteString("e" + strconv.Itoa(len(o.ents)))
		}
		for _, f := range o.fields {
			f.writeKeyM(&b, m)
			b.WriteByte(';')
		}
		for _, f := range o.elems {
			f.writeKeyM(&b, m)
			b.WriteByte(';')
		}
	}
	return b.String()
}

func (a *activation) block(b *ssa.BasicBlock, prev *ssa.BasicBlock, fr *frame, h *Heap, p pathInfo) {
	x := a.x
	// phis first (they depend on the predecessor)
	idx := 0
	if prev != nil {
		var pi int
		for i, pb := range b.Preds {
			if pb == prev {
				pi = i
			}
		}
		upd := map[ssa.Value]AV{}
		back := b.Dominates(prev)
		for _, in := range b.Instrs {
			ph, ok := in.(*ssa.Phi)
			if !ok {
				break
			}
			nv := x.val(fr, ph.Edges[pi])
			if back && nv.k == 'N' && nv.nk {
				// widening: a loop counter that keeps changing becomes unknown
				if fr.cnt == nil {
					fr.cnt = map[*ssa.Phi]int{}
				}
				fr.cnt[ph]++
				if fr.cnt[ph] > x.widenAfter() || (fr.fuzzy && fr.cnt[ph] > 2 && !x.tableMode) {
					nv = AV{k: 'N', pos: nv.n >= 1}
				}
			}
			upd[ph] = nv
			idx++
		}
		for k, v := range upd {
			fr.vals[k] = v
		}
	}
	// drop values that are dead here? keep simple: memoise on the whole store
	if len(h.objs) > 40 {
		h.gc(fr, a.up)
	}
	if len(b.Preds) > 1 {
		key := fmt.Sprintf("%d|%s|%d", b.Index, stateKey(fr, h), len(p.calls))
		if a.visited[key] {
			return
		}
		a.visited[key] = true
		if os.Getenv("EXEC_DEBUG") != "" && len(a.visited) > 40 && len(a.visited) < 44 {
			fmt.Fprintln(os.Stderr, "VISIT", a.fr0.Name(), key)
		}
	}
	a.instrs(b, idx, fr, h, p)
}

// fork helpers
func (a *activation) cont(b *ssa.BasicBlock, idx int, fr *frame, h *Heap, p pathInfo) {
	a.instrs(b, idx, fr, h, p)
}

func (a *activation) instrs(b *ssa.BasicBlock, idx int, fr *frame, h *Heap, p pathInfo) {
	x := a.x
	for i := idx; i < len(b.Instrs); i++ {
		x.steps++
		if x.budget != nil {
			*x.budget--
		}
		if x.steps > x.limit || (x.budget != nil && *x.budget < 0) {
			if os.Getenv("EXEC_GAPDBG") != "" && !x.trunc {
				fmt.Fprintf(os.Stderr, "TRUNC %s in %s\n", x.label, fname(fr.fn))
			}
			x.trunc = true
			if x.truncP != nil {
				*x.truncP = true
			}
			return
		}
		in := b.Instrs[i]
		x.curFuzzy = p.fuzzy
		if dbg := os.Getenv("EXEC_TRACEFN"); dbg != "" && fr.fn.Name() == dbg {
			if i > idx {
				if pv, ok := b.Instrs[i-1].(ssa.Value); ok {
					v := fr.vals[pv]
					fmt.Fprintf(os.Stderr, "    => %s\n", v.String())
					if v.k == 'G' && v.agg != nil {
						for fi, fv := range v.agg.fields {
							fmt.Fprintf(os.Stderr, "       .%d = %s\n", fi, fv.String())
						}
					}
				}
			}
			fmt.Fprintf(os.Stderr, "TRACE %s: %s\n", fr.fn.Name(), in.String())
		}
		switch in := in.(type) {
		case *ssa.If:
			cv := x.val(fr, in.Cond)
			if cv.k != 'B' || cv.tri == 0 {
				cv = AV{k: 'B', tri: 3}
			}
			both := cv.tri == 3
			if both {
				if bo, ok := in.Cond.(*ssa.BinOp); ok {
					if xv := x.val(fr, bo.X); xv.k == 'N' {
						fr.fuzzy = true
						p.fuzzy = true
					}
				}
			}
			pT, pF := p, p
			if cv.tag != "" {
				pT, pF = p.note(cv.tag+"=true"), p.note(cv.tag+"=false")
			}
			if cv.tri&1 != 0 {
				f2, h2 := fr, h
				if both {
					f2, h2 = fr.clone(), h.clone()
				}
				if x.applyFacts(f2, cv.facts, true) {
					a.block(b.Succs[0], b, f2, h2, pT)
				}
			}
			if cv.tri&2 != 0 {
				if x.applyFacts(fr, cv.facts, false) {
					a.block(b.Succs[1], b, fr, h, pF)
				}
			}
			return
		case *ssa.Jump:
			a.block(b.Succs[0], b, fr, h, p)
			return
		case *ssa.Return:
			var rets []AV
			for _, r := range retResults(in) {
				rets = append(rets, x.val(fr, r))
			}
			if x.traceReturns {
				p.notes = append(append([]string(nil), p.notes...), fname(fr.fn)+"@"+x.c.pos(in.Pos()))
			}
			a.k(rets, h, p, fr)
			return
		case *ssa.Panic:
			if x.onPanic != nil {
				x.onPanic(x.val(fr, in.X), h, p)
				return
			}
			x.ev("explicit-panic", in, false, "explicit panic reachable")
			return
		case *ssa.Call:
			if x.call(a, b, i, in, fr, h, p) {
				return // the call continued the path itself (fork / inline)
			}
		case *ssa.TypeAssert:
			if x.typeAssert(a, b, i, in, fr, h, p) {
				return
			}
		case *ssa.BinOp:
			if x.binop(a, b, i, in, fr, h, p) {
				return
			}
		case *ssa.Lookup:
			if mv := x.val(fr, in.X); mv.k == 'G' && strings.HasPrefix(mv.tag, "ctab:") {
				if x.lookupConstTable(a, b, i, in, fr, h, p) {
					return
				}
			} else {
				x.lookup(in, fr, h)
			}
		default:
			if !x.simple(in, fr, h) {
				return // the instruction panics on every abstract state
			}
		}
	}
}

// applyFacts refines the store for a branch; false if the branch is infeasible.
func (x *Exec) applyFacts(fr *frame, facts []fact, truth bool) bool {
	for _, f := range facts {
		if !f.valid {
			continue
		}
		want := f.ifF
		if truth {
			want = f.ifT
		}
		for v, a := range fr.vals {
			if valName(v) != f.src {
				continue
			}
			na := a.atoms & want
			if na == 0 && a.atoms != 0 {
				return false
			}
			a.atoms = na
			fr.vals[v] = a
		}
	}
	return true
}

// refine: narrow the atoms of an SSA value (and anything derived from it by
// name link) in a frame; false if infeasible.
func (x *Exec) refine(fr *frame, v ssa.Value, keep Atoms) bool {
	a, ok := fr.vals[v]
	if !ok {
		return true
	}
	na := a.atoms & keep
	if na == 0 {
		return false
	}
	a.atoms = na
	fr.vals[v] = a
	return true
}

// ---------------------------------------------------------------- simple instructions

func (x *Exec) simple(in ssa.Instruction, fr *frame, h *Heap) bool {
	switch in := in.(type) {
	case *ssa.DebugRef:
	case *ssa.Alloc:
		et := in.Type().(*types.Pointer).Elem()
		var id int
		switch u := et.Underlying().(type) {
		case *types.Struct:
			o := &aobj{kind: 's', typ: et}
			for i := 0; i < u.NumFields(); i++ {
				o.fields = append(o.fields, x.zero(u.Field(i).Type()))
			}
			id = h.alloc(o)
		case *types.Array:
			o := &aobj{kind: 'l', typ: et}
			for i := int64(0); i < u.Len(); i++ {
				o.elems = append(o.elems, x.zero(u.Elem()))
			}
			id = h.alloc(o)
		default:
			id = h.alloc(&aobj{kind: 'c', v: x.zero(et), typ: et})
		}
		fr.vals[in] = AV{k: 'P', tri: 2, obj: id}
	case *ssa.Store:
		x.store(x.val(fr, in.Addr), x.val(fr, in.Val), h, in)
	case *ssa.UnOp:
		xv := x.val(fr, in.X)
		switch in.Op {
		case token.MUL:
			fr.vals[in] = x.load(xv, in.Type(), h, in)
		case token.NOT:
			r := AV{k: 'B'}
			if xv.tri&1 != 0 {
				r.tri |= 2
			}
			if xv.tri&2 != 0 {
				r.tri |= 1
			}
			for _, f := range xv.facts {
				r.facts = append(r.facts, fact{src: f.src, ifT: f.ifF, ifF: f.ifT, valid: f.valid})
			}
			if xv.tag != "" {
				r.tag = "not " + xv.tag
			}
			fr.vals[in] = r
		case token.SUB:
			r := xv
			if r.k == 'N' && r.nk {
				r.n = -r.n
				r.pos = r.n >= 1
			} else if r.k == 'N' {
				r.pos = false
			}
			fr.vals[in] = r
		default:
			fr.vals[in] = AV{k: 'O', what: "unop"}
		}
	case *ssa.FieldAddr:
		xv := x.val(fr, in.X)
		switch {
		case xv.k == 'P' && xv.obj != 0:
			fr.vals[in] = AV{k: 'A', obj: xv.obj, idx: in.Field}
		case xv.k == 'A' && xv.obj != 0 && h.objs[xv.obj] != nil && h.objs[xv.obj].kind == 'l' && xv.idx >= 0 && xv.idx < len(h.objs[xv.obj].elems) && h.objs[xv.obj].elems[xv.idx].k == 'G':
			// field of a struct element of a concrete list: (object, element, field)
			fr.vals[in] = AV{k: 'A', obj: xv.obj, idx: xv.idx, n: int64(in.Field), nk: true, what: "elemfield"}
		case xv.k == 'A' && xv.what == "" && xv.obj != 0 && h.objs[xv.obj] != nil && h.objs[xv.obj].kind == 's' && xv.idx >= 0 && xv.idx < len(h.objs[xv.obj].fields) && h.objs[xv.obj].fields[xv.idx].k == 'G' && h.objs[xv.obj].fields[xv.idx].agg != nil:
			// field of a struct-valued field (an embedded struct): (object, field, subfield)
			fr.vals[in] = AV{k: 'A', obj: xv.obj, idx: xv.idx, n: int64(in.Field), nk: true, what: "subfield"}
		case xv.k == 'A' && xv.what == "aggelem" && xv.agg != nil && xv.idx >= 0 && xv.idx < len(xv.agg.elems) && xv.agg.elems[xv.idx].k == 'G':
			fr.vals[in] = AV{k: 'A', agg: xv.agg.elems[xv.idx].agg, idx: in.Field, what: "agg"}
		case xv.k == 'A' && xv.obj != 0:
			fr.vals[in] = AV{k: 'A', idx: -3, what: "field of element"}
		case xv.k == 'P' && xv.agg != nil:
			fr.vals[in] = AV{k: 'A', agg: xv.agg, idx: in.Field, what: "agg"}
		default:
			fr.vals[in] = AV{k: 'A', idx: -3, what: "field of opaque " + xv.what, prov: xv.prov}
		}
	case *ssa.Field:
		xv := x.val(fr, in.X)
		if xv.k == 'G' && xv.agg != nil && in.Field < len(xv.agg.fields) {
			fr.vals[in] = xv.agg.fields[in.Field]
		} else {
			fr.vals[in] = x.opaqueOf(in.Type(), "field")
		}
	case *ssa.IndexAddr:
		return x.indexAddr(in, fr, h)
	case *ssa.Index:
		fr.vals[in] = x.opaqueOf(in.Type(), "index")
	case *ssa.Lookup:
		x.lookup(in, fr, h)
	case *ssa.MapUpdate:
		mv := x.val(fr, in.Map)
		vv := x.val(fr, in.Value)
		if mv.k == 'M' && mv.tri == 1 {
			x.ev("nil-map-write", in, false, "assignment to an entry of a nil map")
			return false
		}
		if mv.obj != 0 {
			if o := h.mut(mv.obj); o != nil && o.kind == 'm' {
				o.nonEmp = 2
				if o.ents != nil {
					if kv := x.val(fr, in.Key); kv.k == 'S' && kv.sk {
						if _, dup := o.ents[kv.s]; !dup {
							o.entKeys = append(o.entKeys, kv.s)
						}
						o.ents[kv.s] = vv
						o.entPos[kv.s] = in.Pos()
					} else {
						o.ents, o.entPos, o.entKeys = nil, nil, nil // a key that is not a constant: the table is not evaluable
					}
				}
				o.join = joinAV(o.join, vv)
				if vv.k == 'I' && (vv.atoms&(ABad|AExpref|AInterp) != 0 || vv.bad) {
					o.bad = true
				}
			}
		}
	case *ssa.MakeMap:
		o := &aobj{kind: 'm', nonEmp: 1}
		if x.tableMode {
			o.ents, o.entPos = map[string]AV{}, map[string]token.Pos{}
		}
		id := h.alloc(o)
		fr.vals[in] = AV{k: 'M', tri: 2, obj: id}
	case *ssa.MakeSlice:
		lv := x.val(fr, in.Len)
		st := in.Type().Underlying().(*types.Slice)
		o := &aobj{kind: 'a', typ: in.Type()}
		z := x.zero(st.Elem())
		if z.k == 'I' {
			z.prov = "zero"
			// a slice that this function fills by index (s[i] = v): whether every
			// slot is overwritten is index arithmetic — its zero slots are "zero?"
			if filledByIndex(in, 0) {
				z.prov = "zero?"
			}
		}
		switch {
		case lv.nk && lv.n == 0:
			// an empty list (to be appended to): concrete, with no cells yet
			o.kind = 'l'
		case lv.nk && lv.n >= 1 && lv.n <= maxConcreteList:
			// a small slice of known length: one cell per element
			o.kind = 'l'
			for k := int64(0); k < lv.n; k++ {
				o.elems = append(o.elems, z)
			}
		case lv.nk:
			o.minLen = int(lv.n)
			o.exact = true
			o.join = z
		default:
			if lv.pos {
				o.minLen = 1
			}
			o.join = z
		}
		id := h.alloc(o)
		fr.vals[in] = AV{k: 'L', tri: 2, obj: id, elemK: x.elemKind(st.Elem())}
	case *ssa.MakeInterface:
		fr.vals[in] = x.toIface(x.val(fr, in.X), in.X.Type(), h)
		if isErrorType(in.Type()) {
			fr.vals[in] = AV{k: 'E', tri: 2}
		}
	case *ssa.ChangeType, *ssa.ChangeInterface:
		var xv ssa.Value
		if ct, ok := in.(*ssa.ChangeType); ok {
			xv = ct.X
		} else {
			xv = in.(*ssa.ChangeInterface).X
		}
		fr.vals[in.(ssa.Value)] = x.val(fr, xv)
	case *ssa.Convert:
		fr.vals[in] = x.convert(in, x.val(fr, in.X))
	case *ssa.Extract:
		t := x.val(fr, in.Tuple)
		if t.k == 'T' && in.Index < len(t.tup) {
			fr.vals[in] = t.tup[in.Index]
		} else {
			fr.vals[in] = x.opaqueOf(in.Type(), "extract")
		}
	case *ssa.Slice:
		return x.slice(in, fr, h)
	case *ssa.Range:
		fr.vals[in] = x.val(fr, in.X)
	case *ssa.Next:
		it := x.val(fr, in.Iter)
		if in.IsString {
			fr.vals[in] = AV{k: 'T', tup: []AV{{k: 'B', tri: 3}, {k: 'N'}, {k: 'N'}}}
			break
		}
		// map iteration: (ok, key, value)
		okv := AV{k: 'B', tri: 3}
		elem := AV{k: 'I', atoms: x.elemUni}
		switch {
		case it.obj != 0 && h.objs[it.obj] != nil && h.objs[it.obj].kind == 'm':
			o := h.objs[it.obj]
			if o.nonEmp == 1 {
				okv.tri = 2
			}
			elem = o.join
		case it.k == 'M' && it.atoms != 0:
			if it.atoms&(AObjN|AOMapN) == 0 {
				okv.tri = 2
			}
			elem = AV{k: 'I', atoms: x.elemUni, prov: prov("member(" + string(it.prov) + ")")}
		}
		fr.vals[in] = AV{k: 'T', tup: []AV{okv, {k: 'S'}, elem}}
	case *ssa.Phi:
		// reached only in the entry block (no predecessor): undefined
	case *ssa.MakeClosure:
		// a function literal with its captured variables (pointers to cells):
		// the bindings live in a heap object so that they are part of the state
		cf, _ := in.Fn.(*ssa.Function)
		o := &aobj{kind: 's'}
		for _, bnd := range in.Bindings {
			o.fields = append(o.fields, x.val(fr, bnd))
		}
		id := h.alloc(o)
		fr.vals[in] = AV{k: 'U', what: "closure", fn: cf, obj: id}
	case *ssa.RunDefers:
	case *ssa.Defer:
		if !x.cli {
			x.gap("defer statement", in.Pos())
		}
		// in the command: deferred clean-up (Close) does not affect status or stdout,
		// unless it is handed os.Stdout
		for _, av := range in.Call.Args {
			if x.val(fr, av).tag == "os.Stdout" {
				x.gap("deferred call on os.Stdout", in.Pos())
			}
		}
	default:
		x.gap(fmt.Sprintf("instruction %T", in), in.Pos())
		if v, ok := in.(ssa.Value); ok {
			fr.vals[v] = x.opaqueOf(v.Type(), "unsupported")
		}
	}
	return true
}

// opaqueOf: an unknown value of the given type, in the right representation.
// pureBasicFunc: fn writes nothing (no store outside its own locals, no map
// update, no defer/go/send), calls only itself and builtins, and returns only
// booleans, numbers or strings.
func pureBasicFunc(fn *ssa.Function) bool {
	res := fn.Signature.Results()
	for i := 0; i < res.Len(); i++ {
		if _, ok := res.At(i).Type().Underlying().(*types.Basic); !ok {
			return false
		}
	}
	for _, b := range fn.Blocks {
		for _, in := range b.Instrs {
			switch in := in.(type) {
			case *ssa.Store:
				a := in.Addr
				for i := 0; i < 6; i++ {
					switch y := a.(type) {
					case *ssa.FieldAddr:
						a = y.X
						continue
					case *ssa.IndexAddr:
						a = y.X
						continue
					}
					break
				}
				if _, local := a.(*ssa.Alloc); !local {
					return false
				}
			case *ssa.MapUpdate, *ssa.Defer, *ssa.Go, *ssa.Send:
				return false
			case *ssa.Call:
				if _, isB := in.Call.Value.(*ssa.Builtin); isB {
					continue
				}
				if in.Call.StaticCallee() != fn {
					return false
				}
			}
		}
	}
	return true
}

func (x *Exec) opaqueOf(t types.Type, what string) AV {
	switch u := t.Underlying().(type) {
	case *types.Interface:
		if isErrorType(t) {
			return AV{k: 'E', tri: 3}
		}
		return AV{k: 'O', what: "payload"}
	case *types.Basic:
		switch {
		case u.Info()&types.IsBoolean != 0:
			return AV{k: 'B', tri: 3}
		case u.Info()&types.IsInteger != 0:
			return AV{k: 'N'}
		case u.Info()&types.IsFloat != 0:
			return AV{k: 'F', fbits: 7}
		case u.Info()&types.IsString != 0:
			return AV{k: 'S'}
		}
	case *types.Slice:
		return AV{k: 'L', tri: 3, elemK: 'O', what: what}
	case *types.Tuple:
		var tup []AV
		for i := 0; i < u.Len(); i++ {
			tup = append(tup, x.opaqueOf(u.At(i).Type(), what))
		}
		return AV{k: 'T', tup: tup}
	}
	return AV{k: 'O', what: what + " " + t.String()}
}

func (x *Exec) store(addr, val AV, h *Heap, in ssa.Instruction) {
	if addr.obj == 0 {
		return
	}
	o := h.mut(addr.obj)
	if o == nil {
		return
	}
	if addr.k == 'A' && addr.what == "subfield" {
		if addr.idx >= 0 && addr.idx < len(o.fields) {
			if e := o.fields[addr.idx]; e.k == 'G' && e.agg != nil && int(addr.n) < len(e.agg.fields) {
				na := &aggVal{fields: append([]AV(nil), e.agg.fields...), elems: e.agg.elems, table: e.agg.table}
				na.fields[addr.n] = val
				e.agg = na
				o.fields[addr.idx] = e
			}
		}
		return
	}
	if addr.k == 'A' && addr.what == "elemfield" {
		// a field of a struct element: the element's aggregate is copied before it is changed
		if addr.idx >= 0 && addr.idx < len(o.elems) {
			if e := o.elems[addr.idx]; e.k == 'G' && e.agg != nil && int(addr.n) < len(e.agg.fields) {
				na := &aggVal{fields: append([]AV(nil), e.agg.fields...), elems: e.agg.elems, table: e.agg.table}
				na.fields[addr.n] = val
				e.agg = na
				o.elems[addr.idx] = e
				if os.Getenv("EXEC_TRACEFN") != "" {
					extra := ""
					if val.k == 'G' && val.agg != nil && len(val.agg.fields) == 4 {
						extra = " .3=" + val.agg.fields[3].String()
					}
					fmt.Fprintf(os.Stderr, "ELEMFIELD store obj %d elem %d field %d := %s%s\n", addr.obj, addr.idx, addr.n, val.String(), extra)
				}
			}
		}
		return
	}
	switch addr.k {
	case 'P':
		switch o.kind {
		case 'c':
			o.v = val
		case 's':
			if val.k == 'G' && val.agg != nil && len(val.agg.fields) == len(o.fields) {
				copy(o.fields, val.agg.fields)
			} else if st, ok := o.typ.Underlying().(*types.Struct); ok && o.typ != nil {
				// an opaque struct value: every field becomes unknown
				for i := range o.fields {
					o.fields[i] = x.opaqueOf(st.Field(i).Type(), "field of "+val.what)
					if strings.HasPrefix(val.what, "node") && x.c.isASTNode(o.typ) && i == fChildren {
						o.fields[i] = AV{k: 'L', tri: 2, what: "nodes-of-child", elemK: 'O'}
					}
				}
			}
		}
	case 'A':
		switch o.kind {
		case 's':
			if addr.idx >= 0 && addr.idx < len(o.fields) {
				o.fields[addr.idx] = val
			}
		case 'l':
			if addr.idx >= 0 && addr.idx < len(o.elems) {
				o.elems[addr.idx] = val
			} else if addr.idx == -1 {
				for i := range o.elems {
					o.elems[i].prov = overwrittenZero(o.elems[i].prov)
					o.elems[i] = joinAV(o.elems[i], val)
				}
			}
		case 'a':
			// a store by index into a pre-sized slice: its zero slots become
			// "zero?" (possibly overwritten — whether all of them are is index
			// arithmetic); a slice that is only appended to keeps its zero slots
			o.join.prov = overwrittenZero(o.join.prov)
			o.join = joinAV(o.join, val)
			if val.k == 'I' && (val.atoms&(ABad|AExpref|AInterp) != 0 || val.bad) {
				o.bad = true
			}
		}
	}
}

func (x *Exec) load(addr AV, t types.Type, h *Heap, in ssa.Instruction) AV {
	if addr.k == 'A' && addr.what == "subfield" {
		if o := h.objs[addr.obj]; o != nil && addr.idx >= 0 && addr.idx < len(o.fields) {
			if e := o.fields[addr.idx]; e.k == 'G' && e.agg != nil && int(addr.n) < len(e.agg.fields) {
				return e.agg.fields[addr.n]
			}
		}
		return x.opaqueOf(t, "load")
	}
	if addr.k == 'A' && addr.what == "elemfield" {
		if o := h.objs[addr.obj]; o != nil && addr.idx >= 0 && addr.idx < len(o.elems) {
			if e := o.elems[addr.idx]; e.k == 'G' && e.agg != nil && int(addr.n) < len(e.agg.fields) {
				return e.agg.fields[addr.n]
			}
		}
		return x.opaqueOf(t, "load")
	}
	if addr.k == 'A' && addr.agg != nil && addr.what == "aggelem" {
		if addr.idx >= 0 && addr.idx < len(addr.agg.elems) {
			return addr.agg.elems[addr.idx]
		}
		var j AV
		for _, e := range addr.agg.elems {
			j = joinAV(j, e)
		}
		if j.k != 0 {
			return j
		}
		return x.opaqueOf(t, "load")
	}
	if addr.k == 'A' && addr.agg != nil && addr.idx >= 0 && addr.idx < len(addr.agg.fields) {
		return addr.agg.fields[addr.idx]
	}
	if addr.k == 'A' && addr.obj == 0 && addr.atoms != 0 {
		// element of an atom-described slice
		switch addr.elemK {
		case 'F':
			return AV{k: 'F', fbits: 1, prov: addr.prov}
		case 'S':
			return AV{k: 'S', prov: addr.prov}
		}
		return AV{k: 'I', atoms: addr.atoms, prov: addr.prov}
	}
	if addr.obj == 0 {
		if strings.HasPrefix(addr.what, "node") {
			return AV{k: 'O', what: addr.what}
		}
		if strings.HasPrefix(addr.what, "global Std") {
			return AV{k: 'P', tri: 2, what: "file", tag: "os." + strings.TrimPrefix(addr.what, "global ")}
		}
		if strings.HasPrefix(addr.what, "global ") {
			if t, ok := x.cliGlobals[strings.TrimPrefix(addr.what, "global ")]; ok {
				return AV{k: 'P', tri: 2, what: "file", tag: t}
			}
			if v, ok := x.loadGlobal(strings.TrimPrefix(addr.what, "global "), h); ok {
				return v
			}
		}
		if addr.what == "argelem" {
			if addr.idx == 0 {
				return AV{k: 'S', tag: "expr"}
			}
			return AV{k: 'S', tag: fmt.Sprintf("arg%d", addr.idx)}
		}
		v := x.opaqueOf(t, "load")
		return v
	}
	o := h.objs[addr.obj]
	if o == nil {
		return x.opaqueOf(t, "load")
	}
	switch addr.k {
	case 'P':
		switch o.kind {
		case 'c':
			return o.v
		case 's':
			return AV{k: 'G', agg: &aggVal{fields: append([]AV(nil), o.fields...)}, what: "struct"}
		}
	case 'A':
		switch o.kind {
		case 's':
			if addr.idx >= 0 && addr.idx < len(o.fields) {
				return o.fields[addr.idx]
			}
		case 'l':
			if addr.idx >= 0 && addr.idx < len(o.elems) {
				return o.elems[addr.idx]
			}
			var j AV
			for _, e := range o.elems {
				j = joinAV(j, e)
			}
			if j.k != 0 {
				return j
			}
		case 'a':
			if o.join.k != 0 {
				return o.join
			}
		}
	}
	return x.opaqueOf(t, "load")
}

func (x *Exec) convert(in *ssa.Convert, v AV) AV {
	out := x.convert0(in, v)
	if out.tag == "" {
		out.tag = v.tag
	}
	return out
}

func (x *Exec) convert0(in *ssa.Convert, v AV) AV {
	dst := in.Type().Underlying()
	if b, ok := dst.(*types.Basic); ok {
		switch {
		case b.Info()&types.IsFloat != 0:
			r := AV{k: 'F', fbits: 1}
			if v.k == 'N' && (v.pos || (v.nk && v.n != 0)) {
				r.fbits |= 8
			}
			if v.k == 'F' {
				r.fbits = v.fbits
			}
			return r
		case b.Info()&types.IsInteger != 0:
			if v.k == 'N' {
				return v
			}
			return AV{k: 'N'}
		case b.Info()&types.IsString != 0:
			return AV{k: 'S'}
		}
	}
	if _, ok := dst.(*types.Slice); ok {
		return AV{k: 'L', tri: 2, elemK: 'O', what: "converted"}
	}
	return AV{k: 'O', what: "convert"}
}

// listLen: (min, exact?) length of a slice value.
func (x *Exec) listLen(v AV, h *Heap) (min int, exact bool, known bool) {
	if v.k == 'L' && v.agg != nil {
		return len(v.agg.elems), true, true
	}
	if v.obj != 0 && h.objs[v.obj] != nil {
		o := h.objs[v.obj]
		switch o.kind {
		case 'l':
			return len(o.elems), true, true
		case 'a':
			return o.minLen, o.exact, true
		}
	}
	if v.k == 'L' && v.atoms != 0 {
		if lenPosAtoms(v.atoms) == 0 {
			return 0, true, true
		}
		if lenZeroAtoms(v.atoms) == 0 {
			return 1, false, true
		}
		return 0, false, true
	}
	if v.k == 'L' && v.tri == 1 {
		return 0, true, true
	}
	return 0, false, false
}

func (c *Ctx) isNodeSlice(t types.Type) bool {
	sl, ok := t.Underlying().(*types.Slice)
	return ok && c.isASTNode(sl.Elem())
}

func (x *Exec) indexAddr(in *ssa.IndexAddr, fr *frame, h *Heap) bool {
	base := x.val(fr, in.X)
	iv := x.val(fr, in.Index)
	// pointer to an array object
	if base.k == 'P' && base.obj != 0 {
		base = AV{k: 'L', obj: base.obj, tri: 2}
	}
	// a package-level array that is a constant table
	if base.k == 'P' && base.obj == 0 && strings.HasPrefix(base.what, "global ") {
		if v, ok := x.loadGlobal(strings.TrimPrefix(base.what, "global "), h); ok && v.k == 'L' {
			base = v
		}
	}
	if base.k != 'L' {
		fr.vals[in] = AV{k: 'A', idx: -3, what: "element of opaque"}
		return true
	}
	if base.tag == "args" {
		out := AV{k: 'A', idx: -1, what: "argelem"}
		if iv.nk {
			out.idx = int(iv.n)
		}
		fr.vals[in] = out
		return true
	}
	min, exact, known := x.listLen(base, h)
	_, syntactic := in.Index.(*ssa.Const)
	concrete := base.agg != nil || (base.obj != 0 && h.objs[base.obj] != nil && h.objs[base.obj].kind == 'l')
	if iv.nk && (syntactic || concrete) {
		// constant index: decided here when the length is known
		n := int(iv.n)
		switch {
		case base.what == "nodes":
			// children of a node: arity is Shape S2's obligation
		case x.c.isNodeSlice(in.X.Type()):
			// children of some other node (a child's children, a node handed to a
			// helper): how many it has depends on its type, which this
			// interpreter does not track — not a verdict
			x.gap("constant child index on a node other than the clause's own in "+fname(fr.fn), in.Pos())
		case known && n < min:
			x.ev("index-const", in, true, "")
		case known && exact && !syntactic && (fr.fuzzy || x.curFuzzy):
			// a computed index on a path that went both ways at an undecided integer
			// test (an unknown loop bound): not a verdict; the path ends here
			x.ev("index-computed", in, true, "")
			return false
		case known && exact:
			x.ev("index-const", in, false, fmt.Sprintf("constant index %d on a slice of length %d", n, min))
			return false
		case known:
			x.ev("index-const", in, false, fmt.Sprintf("constant index %d on a slice that may have only %d elements (%s)", n, min, base.String()))
			// continue on the states where it is in range
		default:
			x.ev("index-const", in, false, fmt.Sprintf("constant index %d on a slice of unknown length (%s / %s)", n, base.String(), base.what))
		}
	}
	out := AV{k: 'A', idx: -1, elemK: base.elemK}
	if base.agg != nil {
		out.agg = base.agg
		out.what = "aggelem"
		if iv.nk {
			out.idx = int(iv.n)
		}
		fr.vals[in] = out
		return true
	}
	if base.obj != 0 {
		out.obj = base.obj
		if iv.nk {
			out.idx = int(iv.n)
		}
	} else {
		out.atoms = elemAtoms(base.atoms, x.elemUni)
		out.prov = prov("elem(" + string(base.prov) + ")")
		if base.what == "nodes" {
			out.idx = -3
			out.what = "node"
			if _, isConst := in.Index.(*ssa.Const); isConst && iv.nk {
				out.what = fmt.Sprintf("node child(%d)", iv.n)
			} else {
				out.what = "node eachchild"
			}
		}
	}
	fr.vals[in] = out
	return true
}

func (x *Exec) slice(in *ssa.Slice, fr *frame, h *Heap) bool {
	base := x.val(fr, in.X)
	get := func(v ssa.Value) (AV, bool) {
		if v == nil {
			return AV{}, false
		}
		return x.val(fr, v), true
	}
	lo, hasLo := get(in.Low)
	hi, hasHi := get(in.High)
	if base.k == 'P' && base.obj != 0 {
		// t[:] of a freshly allocated array
		if !hasLo && !hasHi {
			fr.vals[in] = AV{k: 'L', tri: 2, obj: base.obj, elemK: 'I'}
			if o := h.objs[base.obj]; o != nil && o.typ != nil {
				if at, ok := o.typ.Underlying().(*types.Array); ok {
					v := fr.vals[in]
					v.elemK = x.elemKind(at.Elem())
					fr.vals[in] = v
				}
			}
			return true
		}
	}
	if base.k == 'S' {
		fr.vals[in] = AV{k: 'S'}
		return true
	}
	if base.k == 'P' && base.obj != 0 && h.objs[base.obj] != nil && h.objs[base.obj].kind == 'l' {
		// slicing a freshly allocated array with bounds (make([]T, n) with constant n)
		ek := byte('O')
		if at, ok := h.objs[base.obj].typ.Underlying().(*types.Array); ok {
			ek = x.elemKind(at.Elem())
		}
		base = AV{k: 'L', tri: 2, obj: base.obj, elemK: ek}
	}
	if base.k != 'L' {
		fr.vals[in] = x.opaqueOf(in.Type(), "slice")
		return true
	}
	min, exact, known := x.listLen(base, h)
	need := 0
	constBounds := true
	if hasLo {
		if lo.nk {
			if int(lo.n) > need {
				need = int(lo.n)
			}
		} else {
			constBounds = false
		}
	}
	if hasHi {
		if hi.nk {
			if int(hi.n) > need {
				need = int(hi.n)
			}
		} else {
			constBounds = false
		}
	}
	if constBounds && need > 0 {
		switch {
		case known && need <= min:
			x.ev("slice-const", in, true, "")
		case known && exact:
			x.ev("slice-const", in, false, fmt.Sprintf("slicing [%s] needs %d elements, the slice has exactly %d", sliceStr(lo, hasLo, hi, hasHi), need, min))
			return false
		default:
			x.ev("slice-const", in, false, fmt.Sprintf("slicing [%s] needs %d elements, the slice may have fewer (%s)", sliceStr(lo, hasLo, hi, hasHi), need, base.String()))
		}
	}
	// result
	if base.agg != nil && constBounds {
		l, r := 0, len(base.agg.elems)
		if hasLo {
			l = int(lo.n)
		}
		if hasHi {
			r = int(hi.n)
		}
		if l >= 0 && l <= r && r <= len(base.agg.elems) {
			out := base
			out.agg = &aggVal{elems: base.agg.elems[l:r]}
			fr.vals[in] = out
			return true
		}
		x.ev("slice-const", in, false, fmt.Sprintf("slice bounds [%d:%d] out of range for a list of %d", l, r, len(base.agg.elems)))
		return false
	}
	if base.agg != nil {
		x.gap("slicing a constant list with non-constant bounds", in.Pos())
	}
	if base.obj != 0 && h.objs[base.obj] != nil && h.objs[base.obj].kind == 'l' && constBounds {
		o := h.objs[base.obj]
		l, r := 0, len(o.elems)
		if hasLo {
			l = int(lo.n)
		}
		if hasHi {
			r = int(hi.n)
		}
		if l <= r && r <= len(o.elems) {
			id := h.alloc(&aobj{kind: 'l', elems: append([]AV(nil), o.elems[l:r]...), typ: o.typ})
			out := base
			out.obj = id
			fr.vals[in] = out
			return true
		}
	}
	out := base
	if base.obj == 0 && base.atoms != 0 && (hasLo || hasHi) {
		// a sub-slice of an atom-described array may be empty
		if out.atoms&(AArrNum|AArrStr|AArrMix) != 0 {
			out.atoms |= AArrE
		}
	} else if base.obj != 0 {
		// abstract: copy to a fresh abstract list with unknown length
		o := h.objs[base.obj]
		n := &aobj{kind: 'a', join: o.join, bad: o.bad, typ: o.typ}
		if o.kind == 'l' {
			for _, e := range o.elems {
				n.join = joinAV(n.join, e)
			}
		}
		out.obj = h.alloc(n)
	}
	fr.vals[in] = out
	return true
}

func sliceStr(lo AV, hasLo bool, hi AV, hasHi bool) string {
	s := ""
	if hasLo {
		s += fmt.Sprint(lo.n)
	}
	s += ":"
	if hasHi {
		s += fmt.Sprint(hi.n)
	}
	return s
}

func (x *Exec) lookup(in *ssa.Lookup, fr *frame, h *Heap) {
	mv := x.val(fr, in.X)
	kv := x.val(fr, in.Index)
	var res AV
	okv := AV{k: 'B', tri: 3}
	switch {
	case mv.k == 'G' && mv.agg != nil && mv.agg.table != nil:
		if kv.sk {
			if e, ok := mv.agg.table[kv.s]; ok {
				res, okv.tri = e, 1
			} else {
				res, okv.tri = x.zero(in.X.Type().Underlying().(*types.Map).Elem()), 2
			}
		} else {
			res = x.opaqueOf(in.X.Type().Underlying().(*types.Map).Elem(), "table entry")
		}
	case mv.k == 'M':
		a := Atoms(ANull)
		if mv.atoms&(AObjN) != 0 || mv.atoms == 0 {
			a |= x.elemUni
		}
		res = AV{k: 'I', atoms: a, prov: prov("member(" + string(mv.prov) + ")")}
		if mv.obj != 0 && h.objs[mv.obj] != nil && h.objs[mv.obj].kind == 'm' {
			res = joinAV(h.objs[mv.obj].join, AV{k: 'I', atoms: ANull})
		}
	case mv.k == 'S':
		res = AV{k: 'N'}
	default:
		if mt, ok := in.X.Type().Underlying().(*types.Map); ok {
			res = x.opaqueOf(mt.Elem(), "map element")
		} else {
			res = AV{k: 'N'}
		}
	}
	if in.CommaOk {
		fr.vals[in] = AV{k: 'T', tup: []AV{res, okv}}
	} else {
		fr.vals[in] = res
	}
}

// libMethodType: a named type of the analysed packages (or a pointer to one)
// that has methods: a value boxed from it can be the receiver of an interface
// method call that is resolved to the library's own method.
func (x *Exec) libMethodType(T types.Type) bool {
	t := T
	if pt, ok := t.(*types.Pointer); ok {
		t = pt.Elem()
	}
	n, ok := t.(*types.Named)
	if !ok || n.Obj().Pkg() == nil {
		return false
	}
	pk := n.Obj().Pkg()
	if (x.c.SLib == nil || pk != x.c.SLib.Pkg) && (x.c.SCLI == nil || pk != x.c.SCLI.Pkg) {
		return false
	}
	return x.c.Prog.MethodSets.MethodSet(T).Len() > 0
}

func (x *Exec) widenAfter() int {
	if x.tableMode {
		return 400
	}
	return 8
}

// overwrittenZero: the provenance with the component "zero" renamed "zero?".
func overwrittenZero(p prov) prov {
	if p == "" {
		return p
	}
	parts := strings.Split(string(p), "+")
	for i, x := range parts {
		if x == "zero" {
			parts[i] = "zero?"
		}
	}
	sort.Strings(parts)
	return prov(strings.Join(parts, "+"))
}

// filledByIndex: some element of the slice value v (or of a phi it flows into)
// is stored by index in the same function.
func filledByIndex(v ssa.Value, depth int) bool {
	refs := v.Referrers()
	if refs == nil || depth > 2 {
		return false
	}
	for _, rf := range *refs {
		switch rf := rf.(type) {
		case *ssa.IndexAddr:
			if rf.X != v || rf.Referrers() == nil {
				continue
			}
			for _, rr := range *rf.Referrers() {
				if st, ok := rr.(*ssa.Store); ok && st.Addr == rf {
					return true
				}
			}
		case *ssa.Phi:
			if filledByIndex(rf, depth+1) {
				return true
			}
		}
	}
	return false
}
