package main

import (
	"fmt"
	"go/types"
	"strings"

	"golang.org/x/tools/go/ssa"
)

// K-ORDER: the order-sensitive clauses of the function specification, decided
// under an *order hypothesis*: the handlers touch keys and elements only
// through comparisons, so their behaviour on an N-element array is a function
// of the weak ordering of the N keys, and there are finitely many of those.
//
// The array is a concrete list of N distinguishable elements e0..eN-1; the
// hypothesis for the expression reference maps element e_i to a key k_i of
// the chosen kind; a comparison of two keys is decided by the weak ordering
// under test. Nothing of the repository is run: the handler's SSA is
// interpreted abstractly as in K-CALL.
//
//	max_by / min_by : the returned value is e_j with j the FIRST index whose
//	                  key is maximal / minimal                (all orderings, N = 1..3)
//	max / min       : the returned value is an element of maximal / minimal rank
//	Less adapters   : Less(i, j) is true iff key(items[i]) < key(items[j]) — strict
//	                  (what sort.Stable needs to be stable) and ascending
func init() { register("K-ORDER", ruleOrder) }

// weakOrders enumerates the rank vectors of all weak orderings of n items
// (canonical: ranks are 0..m-1 with every rank used).
func weakOrders(n int) [][]int {
	var out [][]int
	var rec func(cur []int)
	rec = func(cur []int) {
		if len(cur) == n {
			used := map[int]bool{}
			max := 0
			for _, r := range cur {
				used[r] = true
				if r > max {
					max = r
				}
			}
			for i := 0; i <= max; i++ {
				if !used[i] {
					return
				}
			}
			out = append(out, append([]int(nil), cur...))
			return
		}
		for r := 0; r < n; r++ {
			rec(append(cur, r))
		}
	}
	rec(nil)
	return out
}

func tagIndex(p prov, prefix string) (int, bool) {
	s := string(p)
	if !strings.HasPrefix(s, prefix) || strings.ContainsAny(s, "+()") {
		return 0, false
	}
	var i int
	if _, err := fmt.Sscanf(s[len(prefix):], "%d", &i); err != nil {
		return 0, false
	}
	return i, true
}

func rankOrd(ranks []int, prefix string) func(a, b prov) (int, bool) {
	return func(a, b prov) (int, bool) {
		i, ok1 := tagIndex(a, prefix)
		j, ok2 := tagIndex(b, prefix)
		if !ok1 || !ok2 || i >= len(ranks) || j >= len(ranks) {
			return 0, false
		}
		switch {
		case ranks[i] < ranks[j]:
			return -1, true
		case ranks[i] > ranks[j]:
			return 1, true
		}
		return 0, true
	}
}

// keyHyp: evaluating the expression reference on element e_i yields key k_i.
func keyHyp(kind Atoms) func(x *Exec, callee *ssa.Function, call *ssa.Call, args []AV, p pathInfo) []hypOutcome {
	return func(x *Exec, callee *ssa.Function, call *ssa.Call, args []AV, p pathInfo) []hypOutcome {
		data := args[len(args)-1]
		if i, ok := tagIndex(data.prov, "e"); ok {
			return []hypOutcome{{res: AV{k: 'I', atoms: kind, prov: prov(fmt.Sprintf("k%d", i))}, err: AV{k: 'E', tri: 1}}}
		}
		// evaluated on something that is not one of the elements
		return []hypOutcome{{res: AV{k: 'I', atoms: kind, prov: "k?"}, err: AV{k: 'E', tri: 1}}}
	}
}

func firstExtremal(ranks []int, max bool) int {
	best := 0
	for i, r := range ranks {
		if (max && r > ranks[best]) || (!max && r < ranks[best]) {
			best = i
		}
	}
	return best
}

func ruleOrder(c *Ctx) *RuleResult {
	r := &RuleResult{Doc: "order hypothesis: for every weak ordering of the keys of a 1..3 element array, max_by/min_by return the first extremal element, max/min an extremal element, and the sort adapters' Less(i,j) is exactly key(items[i]) < key(items[j])", Floor: 6}
	fn := c.A.CallFunction
	byName := map[string]*TableEntry{}
	for _, e := range c.table() {
		byName[e.Key] = e
	}
	kinds := []struct {
		name string
		a    Atoms
	}{{"number", ANum}, {"string", AStrN}}
	maxN := 3
	if c.Tier == "thorough" {
		maxN = 4
	}
	// ---- max_by / min_by
	for _, name := range []string{"max_by", "min_by"} {
		e := byName[name]
		if e == nil {
			continue
		}
		for _, kd := range kinds {
			r.Instances++
			key := fmt.Sprintf("order|%s|%s", name, kd.name)
			var bad []string
			runs, undec := 0, 0
			gapped := false
			for n := 1; n <= maxN; n++ {
				for _, ranks := range weakOrders(n) {
					runs++
					x := c.newExec(UJSON, fmt.Sprintf("%s with %s keys ranked %v", name, kd.name, ranks))
					x.hyp = keyHyp(kd.a)
					x.hypFns[c.A.Exec] = true
					x.ord = rankOrd(ranks, "k")
					h := newHeap()
					var elems []AV
					for i := 0; i < n; i++ {
						elems = append(elems, AV{k: 'I', atoms: AObjN, prov: prov(fmt.Sprintf("e%d", i))})
					}
					arrID := h.alloc(&aobj{kind: 'l', elems: elems})
					ex := x.exprefAV()
					args := []AV{{k: 'I', atoms: AArrMix, obj: arrID, prov: "arg#0"}, ex}
					lid := h.alloc(&aobj{kind: 'l', elems: args})
					want := fmt.Sprintf("e%d", firstExtremal(ranks, name == "max_by"))
					nsucc := 0
					x.run(fn, []AV{x.buildCaller(h), {k: 'S', s: name, sk: true}, {k: 'L', tri: 2, obj: lid, elemK: 'I'}, {k: 'P', tri: 2, what: "interp"}}, h, pathInfo{}, func(rets []AV, h2 *Heap, p pathInfo, fin *frame) {
						if len(rets) != 2 || rets[1].k != 'E' {
							return
						}
						if rets[1].tri&2 != 0 {
							bad = append(bad, fmt.Sprintf("keys ranked %v: can fail although every key is a %s", ranks, kd.name))
							return
						}
						nsucc++
						if got := string(rets[0].prov); got != want {
							bad = append(bad, fmt.Sprintf("keys ranked %v: returns %s, the first %s element is %s", ranks, orNone(got), map[bool]string{true: "maximal", false: "minimal"}[name == "max_by"], want))
						}
					})
					if nsucc == 0 {
						undec++
					}
					if x.trunc || len(x.gaps) > 0 {
						undec++
						gapped = true
					}
				}
			}
			switch {
			case gapped:
				r.undecided(key, e.Pos, e.Handler.Name(), "the handler uses a construct the abstract interpreter has no transfer function for: not decided")
			case len(bad) > 0:
				if len(bad) > 4 {
					bad = append(bad[:4], fmt.Sprintf("… %d more", len(bad)-4))
				}
				r.viol(key, e.Pos, e.Handler.Name(), name+" does not return the first extremal element: "+strings.Join(bad, "; "))
			case undec > 0:
				r.undecided(key, e.Pos, e.Handler.Name(), fmt.Sprintf("%d of %d orderings not decided (no success path / unmodelled construct)", undec, runs))
			default:
				r.ok(key, e.Pos, e.Handler.Name(), fmt.Sprintf("%d weak orderings of 1..%d %s keys: always the first extremal element", runs, maxN, kd.name))
			}
		}
	}
	// ---- max / min
	for _, name := range []string{"max", "min"} {
		e := byName[name]
		if e == nil {
			continue
		}
		for _, kd := range kinds {
			r.Instances++
			key := fmt.Sprintf("order|%s|%s", name, kd.name)
			var bad []string
			runs, undec := 0, 0
			gapped := false
			for n := 1; n <= maxN; n++ {
				for _, ranks := range weakOrders(n) {
					runs++
					x := c.newExec(UJSON, fmt.Sprintf("%s of %ss ranked %v", name, kd.name, ranks))
					x.hyp = defaultHyp
					x.hypFns[c.A.Exec] = true
					x.ord = rankOrd(ranks, "e")
					h := newHeap()
					var elems []AV
					for i := 0; i < n; i++ {
						elems = append(elems, AV{k: 'I', atoms: kd.a, prov: prov(fmt.Sprintf("e%d", i))})
					}
					arrID := h.alloc(&aobj{kind: 'l', elems: elems})
					arrAtom := AArrNum
					if kd.a != ANum {
						arrAtom = AArrStr
					}
					args := []AV{{k: 'I', atoms: arrAtom, obj: arrID, prov: "arg#0"}}
					lid := h.alloc(&aobj{kind: 'l', elems: args})
					best := firstExtremal(ranks, name == "max")
					nsucc := 0
					x.run(fn, []AV{x.buildCaller(h), {k: 'S', s: name, sk: true}, {k: 'L', tri: 2, obj: lid, elemK: 'I'}, {k: 'P', tri: 2, what: "interp"}}, h, pathInfo{}, func(rets []AV, h2 *Heap, p pathInfo, fin *frame) {
						if len(rets) != 2 || rets[1].k != 'E' {
							return
						}
						if rets[1].tri&2 != 0 {
							bad = append(bad, fmt.Sprintf("values ranked %v: can fail", ranks))
							return
						}
						nsucc++
						i, ok := tagIndex(rets[0].prov, "e")
						if !ok || ranks[i] != ranks[best] {
							bad = append(bad, fmt.Sprintf("values ranked %v: returns %s, which is not an extremal element (e%d is)", ranks, orNone(string(rets[0].prov)), best))
						}
					})
					if nsucc == 0 || x.trunc || len(x.gaps) > 0 {
						undec++
					}
					if x.trunc || len(x.gaps) > 0 {
						gapped = true
					}
				}
			}
			switch {
			case gapped:
				r.undecided(key, e.Pos, e.Handler.Name(), "the handler uses a construct the abstract interpreter has no transfer function for: not decided")
			case len(bad) > 0:
				if len(bad) > 4 {
					bad = append(bad[:4], fmt.Sprintf("… %d more", len(bad)-4))
				}
				r.viol(key, e.Pos, e.Handler.Name(), name+" does not return an extremal element: "+strings.Join(bad, "; "))
			case undec > 0:
				r.undecided(key, e.Pos, e.Handler.Name(), fmt.Sprintf("%d of %d orderings not decided (no success path / unmodelled construct)", undec, runs))
			default:
				r.ok(key, e.Pos, e.Handler.Name(), fmt.Sprintf("%d weak orderings of 1..%d %ss: always an extremal element", runs, maxN, kd.name))
			}
		}
	}
	// ---- the sort adapters: Less(i,j) == key(items[i]) < key(items[j])
	for _, ad := range c.lessAdapters() {
		less := ad.less
		r.Instances++
		key := "order|" + fname(less)
		if ad.opaque {
			r.undecided(key, c.pos(less.Pos()), fname(less), "the adapter compares through a function value that is not one of a fixed set of library functions")
			continue
		}
		var bad []string
		accepted := 0 // (variant, kind) pairs that reach an unlatched return
		for _, choice := range ad.variants() {
			for _, kd := range kinds {
				kindOK := true
				for _, ranks := range weakOrders(2) {
					for _, ij := range [][2]int{{0, 1}, {1, 0}} {
						x := c.newExec(UJSON, fmt.Sprintf("%s(%d,%d) with %s keys ranked %v", ad.label(choice), ij[0], ij[1], kd.name, ranks))
						x.hyp = keyHyp(kd.a)
						x.hypFns[c.A.Exec] = true
						x.ord = rankOrd(ranks, "k")
						h := newHeap()
						items := h.alloc(&aobj{kind: 'l', elems: []AV{
							{k: 'I', atoms: AObjN, prov: "e0"},
							{k: 'I', atoms: AObjN, prov: "e1"},
						}})
						id := ad.object(c, h, AV{k: 'L', tri: 2, obj: items, elemK: 'I', prov: "items"}, choice)
						want := ranks[ij[0]] < ranks[ij[1]]
						n := 0
						x.run(less, ad.callArgs(x, h, id, AV{k: 'N', n: int64(ij[0]), nk: true, nn: true}, AV{k: 'N', n: int64(ij[1]), nk: true, nn: true}), h, pathInfo{}, func(rets []AV, h2 *Heap, p pathInfo, fin *frame) {
							if len(rets) != 1 || rets[0].k != 'B' {
								return
							}
							// a latched failure: the key was not of this adapter's kind
							if ad.latched(h2, id) {
								kindOK = false
								return
							}
							n++
							got := rets[0].tri
							if (want && got != 1) || (!want && got != 2) {
								bad = append(bad, fmt.Sprintf("%s(%d,%d) with %s keys ranked %v is %s, want %v", ad.label(choice), ij[0], ij[1], kd.name, ranks, triStr(got), want))
							}
						})
						if n == 0 {
							kindOK = false
						}
						if x.trunc || len(x.gaps) > 0 {
							bad = append(bad, fmt.Sprintf("%s: not decided (unmodelled construct)", x.label))
						}
					}
				}
				if kindOK {
					accepted++
				}
			}
		}
		switch {
		case len(bad) > 0:
			if len(bad) > 4 {
				bad = append(bad[:4], "…")
			}
			r.viol(key, c.pos(less.Pos()), fname(less), "Less is not the strict ascending order of the keys (sort_by must be ascending and stable): "+strings.Join(bad, "; "))
		case accepted != len(ad.variants()):
			r.undecided(key, c.pos(less.Pos()), fname(less), fmt.Sprintf("%d (comparison, key kind) combinations reach an unlatched return, expected one per comparison (%d)", accepted, len(ad.variants())))
		default:
			r.ok(key, c.pos(less.Pos()), fname(less), "Less(i,j) == key(items[i]) < key(items[j]) for the three orderings of two keys and both argument orders")
		}
	}
	return r
}

func isBoolType(t types.Type) bool {
	b, ok := t.Underlying().(*types.Basic)
	return ok && b.Kind() == types.Bool
}

func triStr(t uint8) string {
	switch t {
	case 1:
		return "true"
	case 2:
		return "false"
	}
	return "either"
}

// lessAdapter: a sort adapter of the library whose Less evaluates an
// expression reference (it has an ASTNode field).
type lessAdapter struct {
	less      *ssa.Function
	named     *types.Named
	st        *types.Struct
	latch     int                     // index of the failure latch field (bool or error), -1 if none
	latchPath []int                   // the same as a path through embedded structs (nil: the latch is field `latch` itself)
	latchErr  bool                    // the latch is error-typed
	fnFields  []int                   // indices of func-typed fields
	configs   []map[int]*ssa.Function // assignments of library functions to those fields that occur together (same block, same object)
	opaque    bool                    // a function value that is not a named library function: not decided
	// a function literal handed to sort.Slice / sort.SliceStable: the adapter's
	// state is the literal's captured variables (latch = index of the captured
	// failure flag)
	closure bool
}

func (c *Ctx) lessAdapters() []*lessAdapter {
	var out []*lessAdapter
	for _, less := range allFuncs(c.SLib) {
		if less.Name() != "Less" || less.Signature.Recv() == nil {
			continue
		}
		pt, ok := less.Signature.Recv().Type().Underlying().(*types.Pointer)
		if !ok {
			continue
		}
		st, ok := pt.Elem().Underlying().(*types.Struct)
		if !ok {
			continue
		}
		named, _ := pt.Elem().(*types.Named)
		ad := &lessAdapter{less: less, named: named, st: st, latch: -1}
		hasNode := false
		var scan func(s2 *types.Struct, path []int)
		scan = func(s2 *types.Struct, path []int) {
			for i := 0; i < s2.NumFields(); i++ {
				ft := s2.Field(i).Type()
				switch {
				case c.isASTNode(ft):
					hasNode = true
				case isBoolType(ft) || isErrorType(ft):
					// the latch is the flag Less writes (a struct may carry other
					// flags, e.g. which kind of key it sorts by)
					if !lessWritesField(less, s2, i) && anyBoolWritten(less) {
						break
					}
					if len(path) == 0 {
						ad.latch = i
					} else {
						ad.latch = path[0]
						ad.latchPath = append(append([]int(nil), path...), i)
					}
					ad.latchErr = isErrorType(ft)
				default:
					if _, isSig := ft.Underlying().(*types.Signature); isSig {
						if len(path) == 0 {
							ad.fnFields = append(ad.fnFields, i)
						} else {
							ad.opaque = true
						}
					}
					if es, isStruct := ft.Underlying().(*types.Struct); isStruct && s2.Field(i).Embedded() && len(path) < 3 {
						scan(es, append(append([]int(nil), path...), i))
					}
				}
			}
		}
		scan(st, nil)
		if !hasNode {
			continue
		}
		if len(ad.fnFields) > 0 {
			isFn := map[int]bool{}
			for _, i := range ad.fnFields {
				isFn[i] = true
			}
			type grp struct {
				blk  *ssa.BasicBlock
				base ssa.Value
			}
			groups := map[grp]map[int]*ssa.Function{}
			var order []grp
			for _, fn := range allFuncs(c.SLib) {
				for _, b := range fn.Blocks {
					for _, in := range b.Instrs {
						st2, ok := in.(*ssa.Store)
						if !ok {
							continue
						}
						fa, ok := st2.Addr.(*ssa.FieldAddr)
						if !ok || !isFn[fa.Field] {
							continue
						}
						if p2, ok := fa.X.Type().Underlying().(*types.Pointer); !ok || !types.Identical(p2.Elem(), pt.Elem()) {
							continue
						}
						switch v := st2.Val.(type) {
						case *ssa.Function:
							g := grp{b, fa.X}
							if groups[g] == nil {
								groups[g] = map[int]*ssa.Function{}
								order = append(order, g)
							}
							groups[g][fa.Field] = v
						case *ssa.Const:
							if !v.IsNil() {
								ad.opaque = true
							}
						default:
							ad.opaque = true
						}
					}
				}
			}
			for _, g := range order {
				cfg := groups[g]
				if len(cfg) != len(ad.fnFields) {
					ad.opaque = true // a partial assignment: which functions go together is not visible
					continue
				}
				ad.configs = append(ad.configs, cfg)
			}
			if len(ad.configs) == 0 {
				ad.opaque = true
			}
		}
		out = append(out, ad)
	}
	// function literals: sort.Slice / sort.SliceStable(items, func(i, j int) bool {...})
	// capturing an expression-reference node
	for _, fn := range allFuncs(c.SLib) {
		for _, b := range fn.Blocks {
			for _, in := range b.Instrs {
				call, ok := in.(*ssa.Call)
				if !ok {
					continue
				}
				if n := calleeName(call); n != "sort.Slice" && n != "sort.SliceStable" {
					continue
				}
				for _, mc := range closuresOf(call.Call.Args[1], 0) {
					cf, ok := mc.Fn.(*ssa.Function)
					if !ok || len(cf.Params) != 2 {
						continue
					}
					ad := &lessAdapter{less: cf, latch: -1, closure: true}
					hasNode := false
					for i, fv := range cf.FreeVars {
						pt, ok := fv.Type().(*types.Pointer)
						if !ok {
							ad.opaque = true
							continue
						}
						ft := pt.Elem()
						switch {
						case c.isASTNode(ft):
							hasNode = true
						case isBoolType(ft) || isErrorType(ft):
							// the failure flag is the one the literal writes
							for _, cb := range cf.Blocks {
								for _, cin := range cb.Instrs {
									if st, ok := cin.(*ssa.Store); ok && st.Addr == fv {
										ad.latch = i
										ad.latchErr = isErrorType(ft)
									}
								}
							}
						default:
							if _, isSig := ft.Underlying().(*types.Signature); isSig {
								ad.opaque = true
							}
						}
					}
					if hasNode {
						out = append(out, ad)
					}
				}
			}
		}
	}
	return out
}

// closuresOf: the function literals a value can be: a literal, or a variable
// assigned one of several (a phi of literals).
func closuresOf(v ssa.Value, depth int) []*ssa.MakeClosure {
	switch v := v.(type) {
	case *ssa.MakeClosure:
		return []*ssa.MakeClosure{v}
	case *ssa.Phi:
		if depth > 3 {
			return nil
		}
		var out []*ssa.MakeClosure
		for _, e := range v.Edges {
			out = append(out, closuresOf(e, depth+1)...)
		}
		return out
	}
	return nil
}

// callArgs: the arguments of one call Less(i, j) on the adapter built as id.
func (ad *lessAdapter) callArgs(x *Exec, h *Heap, id int, i, j AV) []AV {
	if ad.closure {
		x.pendingFV = append([]AV(nil), h.objs[id].fields...)
		return []AV{i, j}
	}
	return []AV{{k: 'P', tri: 2, obj: id}, i, j}
}

// variants: one per assignment of library functions to the func fields (a single nil variant when there is none).
func (ad *lessAdapter) variants() []map[int]*ssa.Function {
	if len(ad.fnFields) == 0 {
		return []map[int]*ssa.Function{nil}
	}
	return ad.configs
}

// object builds the adapter on the heap: items is the items slice value.
func (ad *lessAdapter) object(c *Ctx, h *Heap, items AV, choice map[int]*ssa.Function) int {
	if ad.closure {
		// one cell per captured variable; the object holds the pointers (as MakeClosure does)
		o := &aobj{kind: 's'}
		for i, fv := range ad.less.FreeVars {
			ft := fv.Type().(*types.Pointer).Elem()
			var v AV
			switch {
			case i == ad.latch && ad.latchErr:
				v = AV{k: 'E', tri: 1}
			case i == ad.latch:
				v = AV{k: 'B', tri: 2}
			case c.isASTNode(ft):
				v = AV{k: 'O', what: "node expref-body"}
			default:
				if _, isSl := ft.Underlying().(*types.Slice); isSl {
					v = items
				} else if isBoolType(ft) {
					v = AV{k: 'B', tri: 3}
				} else {
					v = AV{k: 'P', tri: 2, what: "interp"}
				}
			}
			cell := h.alloc(&aobj{kind: 'c', v: v, typ: ft})
			o.fields = append(o.fields, AV{k: 'P', tri: 2, obj: cell})
		}
		return h.alloc(o)
	}
	var build func(s2 *types.Struct, top bool) []AV
	build = func(s2 *types.Struct, top bool) []AV {
		var fields []AV
		for i := 0; i < s2.NumFields(); i++ {
			ft := s2.Field(i).Type()
			es, isStruct := ft.Underlying().(*types.Struct)
			switch {
			case isStruct && s2.Field(i).Embedded() && !c.isASTNode(ft):
				fields = append(fields, AV{k: 'G', agg: &aggVal{fields: build(es, false)}, what: "struct"})
			case (isBoolType(ft) || isErrorType(ft)) && isErrorType(ft):
				fields = append(fields, AV{k: 'E', tri: 1})
			case isBoolType(ft):
				fields = append(fields, AV{k: 'B', tri: 2})
			case top && choice != nil && choice[i] != nil:
				fields = append(fields, AV{k: 'U', fn: choice[i], what: choice[i].Name()})
			case c.isASTNode(ft):
				fields = append(fields, AV{k: 'O', what: "node expref-body"})
			default:
				if _, isSl := ft.Underlying().(*types.Slice); isSl {
					fields = append(fields, items)
				} else {
					fields = append(fields, AV{k: 'P', tri: 2, what: "interp"})
				}
			}
		}
		return fields
	}
	o := &aobj{kind: 's', fields: build(ad.st, true)}
	return h.alloc(o)
}

// latched: may the failure latch be set in heap h?
func (ad *lessAdapter) latched(h *Heap, id int) bool {
	if ad.latch < 0 {
		return false
	}
	f := h.objs[id].fields[ad.latch]
	if ad.closure {
		f = h.objs[f.obj].v
	}
	for _, i := range ad.latchPathTail() {
		if f.k != 'G' || f.agg == nil || i >= len(f.agg.fields) {
			return true // cannot read the latch: assume it may be set
		}
		f = f.agg.fields[i]
	}
	if ad.latchErr {
		return f.k != 'E' || f.tri&2 != 0
	}
	return f.tri&1 != 0
}

func (ad *lessAdapter) label(choice map[int]*ssa.Function) string {
	if choice == nil {
		return fname(ad.less)
	}
	var n []string
	for _, i := range ad.fnFields {
		if f := choice[i]; f != nil {
			n = append(n, f.Name())
		}
	}
	return fname(ad.less) + "[" + strings.Join(n, ",") + "]"
}

// latchPathTail: the path from the top-level field to the latch inside embedded structs.
func (ad *lessAdapter) latchPathTail() []int {
	if len(ad.latchPath) < 2 {
		return nil
	}
	return ad.latchPath[1:]
}

// lessWritesField: less stores into field i of a struct of type st (reached from its receiver).
func lessWritesField(less *ssa.Function, st *types.Struct, i int) bool {
	for _, b := range less.Blocks {
		for _, in := range b.Instrs {
			s, ok := in.(*ssa.Store)
			if !ok {
				continue
			}
			fa, ok := s.Addr.(*ssa.FieldAddr)
			if !ok || fa.Field != i {
				continue
			}
			t := fa.X.Type()
			if pt, ok := t.Underlying().(*types.Pointer); ok {
				t = pt.Elem()
			}
			if types.Identical(t.Underlying(), st) {
				return true
			}
		}
	}
	return false
}

// anyBoolWritten: less stores a bool or an error into some field.
func anyBoolWritten(less *ssa.Function) bool {
	for _, b := range less.Blocks {
		for _, in := range b.Instrs {
			if s, ok := in.(*ssa.Store); ok {
				if _, isFA := s.Addr.(*ssa.FieldAddr); isFA && (isBoolType(s.Val.Type()) || isErrorType(s.Val.Type())) {
					return true
				}
			}
		}
	}
	return false
}
