package main

// placeholder engine types (filled in by their own files)
type KindEngine struct{}

func propSpecs() []PropSpec {
	return []PropSpec{
		{ID: "C03", Rules: []string{"T-P1", "T-P2", "T-P3", "T-P4", "T-DISPATCH", "T-PAREN"},
			Explanation: "Tables: the precedence table, the Pratt comparison, every right binding power, the projection-stop threshold and the parenthesis clause are evaluated from the source and compared with the specification's precedence order; the lexer's rune dispatch is folded for every rune (whitespace produces no token and has no effect).",
			NotDecided:  "that each nud/led assembles the right node for its tokens (partly S-SHAPE); parseDotRHS returning a multi-select without the infix loop (a[*].[x,y].c) — reference behaviour, documented"},
		{ID: "C04", Rules: []string{"E-DISC/parse", "S-EMPTY", "S-SHAPE", "P-LISTS", "P-PARSE", "P-CALLEE", "T-TOKENS", "T-P1", "T-DISPATCH", "T-SCAN", "T-DECODE"},
			Explanation: "ErrDisc on lexer/parser (no lexer/parser error is dropped or turned into success), no (empty node, nil) return, list-loop event languages, Parse ends at EOF, callee is an identifier, token tables agree, the rune dispatch and scanner predicates equal the lexical grammar, literals are decoded from their whole text.",
			NotDecided:  "language equality as a whole: slice-bracket grammar ([:1 2], [0:1:2:]), completeness of nud/led acceptance sets ((a)(b), a[*][b])"},
		{ID: "C06", Rules: []string{"O-MODEL", "O-DOC", "BAN"},
			Explanation: "Own: an allocation-site points-to / mod analysis of the whole library; every write instruction in every function reachable from Search (through the function table and the sort adapters) is attributed to the abstract objects it may target, and none may be the document blob. Ban: no reflect.Set*, unsafe, cgo.",
			NotDecided:  "the standard library's own behaviour (modelled, tabulated)"},
		{ID: "C12", Rules: []string{"O-MODEL", "O-SHARED", "O-DOC", "BAN", "A-SKEL"},
			Explanation: "Concurrent calls can only interfere through memory they share. The library starts no goroutines and uses no synchronisation (Ban), writes no package-level variable after initialisation (Ban, Own), and every write reachable from (*JMESPath).Search / Search targets only objects allocated in that activation - never the compiled expression, the function table, literal payloads or the document (Own); constructors return fresh objects (A-SKEL).",
			NotDecided:  "races inside the Go runtime, reflect, encoding/json or sort (trusted)"},
		{ID: "C13", Rules: []string{"O-MODEL", "O-SHARED", "H-RESET", "A-SKEL", "H-MAPORDER", "BAN"},
			Explanation: "History independence: Search writes nothing reachable from the compiled expression (Own), so it is the same object before and after any call; Parse re-initialises every Parser field before it is read and tokenizes with a fresh Lexer (H-RESET); one-shot Search and Compile+Search evaluate Execute(fresh interpreter, Parse(fresh parser, expr), data) alike (A-SKEL); no clock/randomness/environment (Ban); map iteration order can only show in keys(), values() and the object wildcard (H-MAPORDER).",
			NotDecided:  "nothing value-level is needed beyond the trusted standard library"},
		{ID: "C11", Rules: []string{"E-DISC/eval", "E-LATCH", "P-SLICE0"},
			Explanation: "ErrDisc: every error produced while evaluating is tested or forwarded on every path and never followed by a success return on its non-nil edge; latched comparison failures are reported after the sort; a zero slice step is raised for every array.",
			NotDecided:  "errors that should have been raised by type checks (C10); which operands must be evaluated at all (C01/C07 threading rules)"},
		{ID: "C17", Rules: []string{"A-COMPILE", "A-MUST", "A-SYNERR", "S-EMPTY", "E-DISC/parse", "T-DISPATCH", "T-SCAN"},
			Explanation: "Compile returns exactly one of (fresh expression, nil) / (nil, non-nil error); MustCompile panics exactly on Compile's failure edge with a message naming the expression; every SyntaxError literal takes Expression from the stored input and Offset from a cursor or token position; HighlightLocation is Expression + newline + Offset spaces + caret; no parser function returns the empty node with a nil error.",
			NotDecided:  "0 <= Offset <= len(Expression) numerically (needs the lexer's cursor invariant, a declared residual shared with C05); rune/byte semantics of the caret line beyond its construction from Offset"},
		{ID: "C19", Rules: []string{"J-RUN", "E-DISC/cli"},
			Explanation: "PathLang/provenance on cmd/jpgo: status 0 outside -ast only after Parse, read, json.Unmarshal, jmespath.Search and Marshal succeeded and exactly one stdout print of that serialised Search result; every failure edge returns non-zero (ErrDisc); main is os.Exit(run()).",
			NotDecided:  "behaviour of encoding/json, flag, os and fmt themselves"},
		{ID: "C14", Rules: []string{"T-DISPATCH", "T-SCAN", "T-DECODE"},
			Explanation: "The lexer's dispatch and the identifier/number scanners are folded for every rune and compared with the lexical grammar; quoted identifiers and JSON literals are decoded by encoding/json from exactly the delimited text; raw strings and identifiers carry their text unchanged.",
			NotDecided:  "the three escape layers as a value-level round trip over all strings (consumeUntil/consumeRawStringLiteral cursor arithmetic)"},
	}
}
