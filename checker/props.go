package main

// placeholder engine types (filled in by their own files)
type KindEngine struct{}
type OwnEngine struct{}

func propSpecs() []PropSpec {
	return []PropSpec{
		{ID: "C03", Rules: []string{"T-P1", "T-P2", "T-P3", "T-P4", "T-WS", "T-PAREN"},
			Explanation: "Tables: the precedence table, the Pratt comparison, every right binding power, the projection-stop threshold, whitespace arm and parenthesis clause are evaluated from the source and compared with the specification's precedence order.",
			NotDecided:  "that each nud/led assembles the right node for its tokens (partly S-SHAPE)"},
		{ID: "C04", Rules: []string{"E-DISC", "S-EMPTY", "S-SHAPE", "P-LISTS", "P-PARSE", "T-TOKENS", "T-P1"},
			Explanation: "ErrDisc on lexer/parser, no (empty node, nil) return, list-loop event languages, Parse ends at EOF, token tables agree.",
			NotDecided:  "language equality as a whole: slice-bracket grammar, completeness of nud/led acceptance sets"},
		{ID: "C11", Rules: []string{"E-DISC", "E-LATCH"},
			Explanation: "ErrDisc: every error produced while evaluating is tested or forwarded on every path and never followed by a success return on its non-nil edge.",
			NotDecided:  "errors that should have been raised (C10)"},
	}
}
