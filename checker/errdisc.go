package main

import (
	"fmt"
	"go/token"
	"go/types"
	"sort"
	"strings"

	"golang.org/x/tools/go/ssa"
)

// Error discipline (DESIGN §3.2).
//
// For every call whose last result is an error:
//   E1   the error is used at all (exempt callees are tabulated);
//   E1p  on every path from the call to a return the error is tested against
//        nil or forwarded in the function's error slot;
//   E2   on the branch where it is non-nil, every return reachable carries a
//        value in the error slot that is non-nil there (the error itself, a
//        fresh error), and the path does not loop back to the call;
//        functions without an error result must latch (store true to a bool
//        field of the receiver); run() int must return non-zero.
//   E2-latch  a latch field set by Less is tested after sort.Stable/Sort and
//        its true edge returns a non-nil error.

// callees whose error result may be ignored, with the reason.
var e1Exempt = map[string]string{
	"(*strings.Builder).WriteString": "documented to always return a nil error",
	"(*strings.Builder).WriteByte":   "documented to always return a nil error",
	"(*strings.Builder).WriteRune":   "documented to always return a nil error",
	"(*strings.Builder).Write":       "documented to always return a nil error",
	"(*bytes.Buffer).WriteString":    "documented to always return a nil error",
	"(*bytes.Buffer).WriteByte":      "documented to always return a nil error",
	"(*bytes.Buffer).WriteRune":      "documented to always return a nil error",
	"(*bytes.Buffer).Write":          "documented to always return a nil error",
	"fmt.Fprintf":                    "diagnostic output channel; its failure is outside every property",
	"fmt.Fprintln":                   "diagnostic output channel; its failure is outside every property",
	"fmt.Fprint":                     "diagnostic output channel; its failure is outside every property",
	"fmt.Printf":                     "output channel error is not observable by the library properties (C19 checks what is printed, not the write error)",
	"fmt.Println":                    "output channel error is not observable by the library properties",
	"fmt.Print":                      "output channel error is not observable by the library properties",
}

// stdlib callees whose failure must become the caller's failure (E2), by
// the file they are called from: everything else from the standard library
// only needs E1/E1p (the specification maps e.g. a failed ParseFloat to null).
func e2AppliesToStdlib(c *Ctx, call ssa.CallInstruction, name string) bool {
	switch name {
	case "strconv.Atoi", "encoding/json.Unmarshal", "strconv.ParseInt":
		sc := c.scopeOf(call.Parent())
		return sc["parse"] && !sc["eval"]
	}
	if call.Parent().Pkg == c.SCLI {
		return true // in jpgo every failure is the program's failure
	}
	if name == "encoding/json.Marshal" {
		return true // to_string: a value that cannot be serialised is an error
	}
	return false
}

type errSite struct {
	call ssa.CallInstruction
	val  ssa.Value // the call value (tuple or single)
	e    ssa.Value // the error value (Extract or the call itself), nil if dropped
	name string
	// proxy: the callee reports failure through a final bool result (ok == false),
	// not an error; e is that bool and "non-nil" reads "false"
	proxy bool
}

// okProxy: an unexported library function without an error result whose last
// result is a bool and that answers a failed (error-returning) call inside it
// with `return ..., false`: its callers must treat ok == false as the failure.
func okProxy(c *Ctx, f *ssa.Function) bool {
	if f == nil || f.Pkg != c.SLib || f.Blocks == nil || errIndex(f.Signature) >= 0 {
		return false
	}
	res := f.Signature.Results()
	if res.Len() < 2 || !types.Identical(res.At(res.Len()-1).Type(), types.Typ[types.Bool]) {
		return false
	}
	hasErrCall, hasFalse := false, false
	for _, b := range f.Blocks {
		for _, in := range b.Instrs {
			if call, ok := in.(*ssa.Call); ok && errIndex(call.Call.Signature()) >= 0 {
				hasErrCall = true
			}
		}
		if ret := blockReturn(b); ret != nil {
			if bv, ok := constBool(retResults(ret)[res.Len()-1]); ok && !bv {
				hasFalse = true
			}
		}
	}
	return hasErrCall && hasFalse
}

func errSites(c *Ctx, fn *ssa.Function) []errSite {
	var out []errSite
	for _, b := range fn.Blocks {
		for _, in := range b.Instrs {
			call, ok := in.(*ssa.Call)
			if !ok {
				continue
			}
			sig := call.Call.Signature()
			idx := errIndex(sig)
			if idx < 0 {
				if sc := staticCallee(call); okProxy(c, sc) {
					ps := errSite{call: call, val: call, name: calleeName(call), proxy: true}
					last := sig.Results().Len() - 1
					if call.Referrers() != nil {
						for _, r := range *call.Referrers() {
							if ex, ok := r.(*ssa.Extract); ok && ex.Index == last && ex.Referrers() != nil && len(*ex.Referrers()) > 0 {
								ps.e = ex
							}
						}
					}
					out = append(out, ps)
				}
				continue
			}
			s := errSite{call: call, val: call, name: calleeName(call)}
			if sig.Results().Len() == 1 {
				if call.Referrers() != nil && len(*call.Referrers()) > 0 {
					s.e = call
				}
			} else {
				for _, r := range *call.Referrers() {
					if ex, ok := r.(*ssa.Extract); ok && ex.Index == idx {
						if ex.Referrers() != nil && len(*ex.Referrers()) > 0 {
							s.e = ex
						}
					}
				}
			}
			out = append(out, s)
		}
	}
	return out
}

// errFlow: closure of an error value through phis (and stores into local
// error variables, which go/ssa lifts to phis already).
func errFlow(e ssa.Value) map[ssa.Value]bool {
	set := map[ssa.Value]bool{}
	var walk func(v ssa.Value)
	walk = func(v ssa.Value) {
		if set[v] {
			return
		}
		set[v] = true
		if v.Referrers() == nil {
			return
		}
		for _, r := range *v.Referrers() {
			if p, ok := r.(*ssa.Phi); ok {
				walk(p)
			}
		}
	}
	walk(e)
	return set
}

// nilTests: If instructions that test a value of the flow against nil.
// returns for each: the block, and which successor index is the non-nil edge.
type nilTest struct {
	blk     *ssa.BasicBlock
	nonNil  int
	through ssa.Value
}

// okTests: If instructions that branch on a failure-proxy bool (ok / !ok);
// the "non-nil" edge is the one taken when ok is false.
func okTests(flow map[ssa.Value]bool) []nilTest {
	var out []nilTest
	for v := range flow {
		if v.Referrers() == nil {
			continue
		}
		for _, r := range *v.Referrers() {
			switch r := r.(type) {
			case *ssa.If:
				if r.Cond == v {
					out = append(out, nilTest{blk: r.Block(), nonNil: 1, through: v})
				}
			case *ssa.UnOp:
				if r.Op == token.NOT && r.Referrers() != nil {
					for _, rr := range *r.Referrers() {
						if ifi, ok := rr.(*ssa.If); ok && ifi.Cond == ssa.Value(r) {
							out = append(out, nilTest{blk: ifi.Block(), nonNil: 0, through: v})
						}
					}
				}
			}
		}
	}
	return out
}

func nilTests(flow map[ssa.Value]bool) []nilTest {
	var out []nilTest
	for v := range flow {
		if v.Referrers() == nil {
			continue
		}
		for _, r := range *v.Referrers() {
			bo, ok := r.(*ssa.BinOp)
			if !ok || (bo.Op != token.NEQ && bo.Op != token.EQL) {
				continue
			}
			other := bo.Y
			if bo.Y == v {
				other = bo.X
			}
			if !isNilConst(other) || bo.Referrers() == nil {
				continue
			}
			for _, rr := range *bo.Referrers() {
				if ifi, ok := rr.(*ssa.If); ok {
					nn := 0
					if bo.Op == token.EQL {
						nn = 1
					}
					out = append(out, nilTest{blk: ifi.Block(), nonNil: nn, through: v})
				}
			}
		}
	}
	return out
}

// neverNilError: the value is an error that is non-nil by construction.
func neverNilError(c *Ctx, v ssa.Value) bool { return neverNilErrorD(c, v, 0) }

func neverNilErrorD(c *Ctx, v ssa.Value, depth int) bool {
	switch v := v.(type) {
	case *ssa.MakeInterface:
		// a concrete error value boxed into the interface; a nil pointer of a
		// concrete pointer type would be a non-nil interface too (and a bug of
		// another kind); struct values are fine.
		return true
	case *ssa.Call:
		switch calleeName(v) {
		case "errors.New", "fmt.Errorf":
			return true
		}
		// an error constructor of the library: every return of it is non-nil by construction
		if callee := staticCallee(v); callee != nil && (callee.Pkg == c.SLib || callee.Pkg == c.SCLI) && callee.Blocks != nil && depth < 3 {
			res := callee.Signature.Results()
			if res.Len() != 1 || !isErrorType(res.At(0).Type()) {
				return false
			}
			n := 0
			for _, b := range callee.Blocks {
				if ret := blockReturn(b); ret != nil {
					n++
					if !neverNilErrorD(c, retResults(ret)[0], depth+1) {
						return false
					}
				}
			}
			return n > 0
		}
	case *ssa.UnOp:
		// a package-level error value that is only ever given a fresh error at initialisation
		if g, ok := v.X.(*ssa.Global); ok && v.Op == token.MUL && g.Pkg == c.SLib && c.globalNeverWritten(g) && depth < 3 {
			if init := c.SLib.Func("init"); init != nil {
				for _, b := range init.Blocks {
					for _, in := range b.Instrs {
						if st, ok := in.(*ssa.Store); ok && st.Addr == ssa.Value(g) {
							return neverNilErrorD(c, st.Val, depth+1)
						}
					}
				}
			}
		}
	case *ssa.Phi:
		if depth < 3 {
			for _, e := range v.Edges {
				if !neverNilErrorD(c, e, depth+1) {
					return false
				}
			}
			return len(v.Edges) > 0
		}
	}
	return false
}

func init() {
	register("E-DISC/parse", func(c *Ctx) *RuleResult { return ruleErrDisc(c, "parse", 25) })
	register("E-DISC/eval", func(c *Ctx) *RuleResult { return ruleErrDisc(c, "eval", 30) })
	register("E-DISC/cli", func(c *Ctx) *RuleResult { return ruleErrDisc(c, "cli", 5) })
	register("E-LATCH", ruleLatch)
}

// scopeOf: which part of the program a function belongs to, by role (not by
// the file it happens to live in):
//
//	parse: everything reachable from Parse / tokenize and the methods of the
//	       Parser, the Lexer and SyntaxError;
//	eval:  everything reachable from the evaluator, the function caller, their
//	       constructors, the handlers of the function table and the sort adapters;
//	both:  the exported API (it parses and evaluates) and anything reachable
//	       from neither side;
//	cli:   cmd/jpgo.
func (c *Ctx) scopeOf(fn *ssa.Function) map[string]bool {
	if fn.Pkg == c.SCLI {
		return map[string]bool{"cli": true}
	}
	if c.scopeMemo == nil {
		c.scopeMemo = map[*ssa.Function]map[string]bool{}
		recvNamed := func(f *ssa.Function) string {
			if f.Signature.Recv() == nil {
				return ""
			}
			t := f.Signature.Recv().Type()
			if pt, ok := t.(*types.Pointer); ok {
				t = pt.Elem()
			}
			if n, ok := t.(*types.Named); ok {
				return n.Obj().Name()
			}
			return ""
		}
		isAPI := func(f *ssa.Function) bool {
			if f == c.A.Compile || f == c.A.MustCompile || f == c.A.Search || f == c.A.JPSearch {
				return true
			}
			return recvNamed(f) == c.A.JMESPathT.Obj().Name()
		}
		callees := func(f *ssa.Function) []*ssa.Function {
			var out []*ssa.Function
			for _, b := range f.Blocks {
				for _, in := range b.Instrs {
					var ops [16]*ssa.Value
					for _, op := range in.Operands(ops[:0]) {
						if op == nil || *op == nil {
							continue
						}
						switch v := (*op).(type) {
						case *ssa.Function:
							out = append(out, v)
						case *ssa.MakeClosure:
							if g, ok := v.Fn.(*ssa.Function); ok {
								out = append(out, g, boundTarget(g))
							}
						}
					}
				}
			}
			out = append(out, f.AnonFuncs...)
			return out
		}
		reach := func(roots []*ssa.Function) map[*ssa.Function]bool {
			seen := map[*ssa.Function]bool{}
			var walk func(f *ssa.Function)
			walk = func(f *ssa.Function) {
				if f == nil || seen[f] || f.Pkg != c.SLib || isAPI(f) {
					return
				}
				seen[f] = true
				for _, g := range callees(f) {
					walk(g)
				}
			}
			for _, r := range roots {
				walk(r)
			}
			return seen
		}
		var pRoots, eRoots []*ssa.Function
		for _, f := range allFuncs(c.SLib) {
			switch recvNamed(f) {
			case c.A.ParserT.Obj().Name(), c.A.LexerT.Obj().Name(), c.A.SynErrT.Obj().Name():
				pRoots = append(pRoots, f)
			case c.A.InterpT.Obj().Name(), c.A.FCallerT.Obj().Name(), c.A.FEntryT.Obj().Name(), c.A.ArgSpecT.Obj().Name():
				eRoots = append(eRoots, f)
			}
			if f.Name() == "Less" || f.Name() == "Swap" || f.Name() == "Len" {
				if f.Signature.Recv() != nil {
					eRoots = append(eRoots, f)
				}
			}
		}
		pRoots = append(pRoots, c.A.Parse, c.A.Tokenize, c.A.NewParser, c.A.NewLexer)
		eRoots = append(eRoots, c.A.Exec, c.A.CallFunction, c.A.NewInterp, c.A.NewFCaller, c.A.IsFalse, c.A.ObjsEqual)
		pr, er := reach(pRoots), reach(eRoots)
		for _, f := range allFuncs(c.SLib) {
			switch {
			case isAPI(f):
				c.scopeMemo[f] = map[string]bool{"parse": true, "eval": true, "api": true}
			case pr[f] && !er[f]:
				c.scopeMemo[f] = map[string]bool{"parse": true}
			case er[f] && !pr[f]:
				c.scopeMemo[f] = map[string]bool{"eval": true}
			default:
				c.scopeMemo[f] = map[string]bool{"parse": true, "eval": true}
			}
		}
	}
	if m, ok := c.scopeMemo[fn]; ok {
		return m
	}
	return map[string]bool{"parse": true, "eval": true}
}

func ruleErrDisc(c *Ctx, scope string, floor int) *RuleResult {
	r := &RuleResult{Doc: "error discipline (" + scope + "): every error produced is tested or forwarded on every path (E1/E1p) and, where it is non-nil, every reachable return reports failure (E2)", Floor: floor}
	for _, pkg := range []*ssa.Package{c.SLib, c.SCLI} {
		for _, fn := range allFuncs(pkg) {
			if !c.scopeOf(fn)[scope] {
				continue
			}
			ord := map[string]int{}
			for _, s := range errSites(c, fn) {
				r.Instances++
				cl := ""
				if fn == c.A.Exec {
					if k := c.A.ExecSw.clauseAt(instrPos(s.call)); k != nil {
						cl = k.Name()
					}
				} else if fn == c.A.Led || fn == c.A.Nud {
					sw, _ := c.switchLabels(fn, c.A.TokT)
					if k := sw.clauseAt(instrPos(s.call)); k != nil {
						cl = k.Name()
					}
				}
				base := fname(fn) + "|" + cl + "|" + shortCallee(s.name)
				ord[base]++
				key := fmt.Sprintf("%s#%d", base, ord[base])
				pos := c.pos(s.call.Pos())
				checkErrSite(c, r, fn, s, key, pos)
			}
		}
	}
	return r
}

func shortCallee(n string) string {
	n = strings.ReplaceAll(n, libPath+"/cmd/jpgo.", "")
	n = strings.ReplaceAll(n, libPath+".", "")
	n = strings.ReplaceAll(n, libPath, "jmespath")
	return n
}

func checkErrSite(c *Ctx, r *RuleResult, fn *ssa.Function, s errSite, key, pos string) {
	fnName := fname(fn)
	if s.e == nil {
		if why, ok := e1Exempt[s.name]; ok {
			r.ok("E1|"+key, pos, fnName, "error of "+s.name+" ignored: "+why)
		} else {
			r.viol("E1|"+key, pos, fnName, "the error returned by "+shortCallee(s.name)+" is dropped")
		}
		return
	}
	inLib := strings.HasPrefix(s.name, libPath+".") || strings.Contains(s.name, libPath+".")
	if sc := staticCallee(s.call); sc != nil && sc.Pkg == c.SLib {
		inLib = true
	}
	// handler calls through the function table are dynamic
	if s.name == "dynamic" {
		inLib = true
	}
	strict := inLib || e2AppliesToStdlib(c, s.call, s.name)

	flow := errFlow(s.e)
	tests := nilTests(flow)
	if s.proxy {
		tests = okTests(flow)
		inLib = true
	}
	errSlot := errIndex(fn.Signature)
	callBlk := s.call.Block()

	// forwarded: appears in the error slot of a return
	forwardedAt := map[*ssa.BasicBlock]bool{}
	for v := range flow {
		if v.Referrers() == nil {
			continue
		}
		for _, rf := range *v.Referrers() {
			if ret, ok := rf.(*ssa.Return); ok && errSlot >= 0 && retResults(ret)[errSlot] == v {
				forwardedAt[ret.Block()] = true
			}
		}
	}
	testBlk := map[*ssa.BasicBlock]bool{}
	for _, t := range tests {
		testBlk[t.blk] = true
	}
	if len(tests) == 0 && len(forwardedAt) == 0 {
		// used, but never tested nor forwarded (e.g. only printed)
		if !strict {
			r.ok("E1|"+key, pos, fnName, "error of "+shortCallee(s.name)+" is consumed; the specification does not make this failure an error of the caller")
			return
		}
		r.viol("E1|"+key, pos, fnName, "the error of "+shortCallee(s.name)+" is neither tested against nil nor returned")
		return
	}

	// E1p: every path from the call to a return passes a test or a forwarding return.
	{
		bad := ""
		seen := map[*ssa.BasicBlock]bool{}
		var walk func(b *ssa.BasicBlock, first bool)
		walk = func(b *ssa.BasicBlock, first bool) {
			if bad != "" {
				return
			}
			if !first {
				if seen[b] {
					return
				}
				seen[b] = true
				if b == callBlk {
					bad = "a path returns to the call site without the error having been examined"
					return
				}
			}
			if testBlk[b] {
				// the test must come after the call when in the same block: it does (SSA order)
				return
			}
			if ret := blockReturn(b); ret != nil {
				if !forwardedAt[b] {
					bad = "a path reaches the return at " + c.pos(ret.Pos()) + " without examining the error"
				}
				return
			}
			for _, sc := range b.Succs {
				walk(sc, false)
			}
		}
		walk(callBlk, true)
		if bad != "" && strict {
			r.viol("E1p|"+key, pos, fnName, "error of "+shortCallee(s.name)+": "+bad)
			return
		}
	}

	if !strict {
		r.ok("E2|"+key, pos, fnName, "error of "+shortCallee(s.name)+" is examined; its failure is not a failure of the caller by specification (E1 only)")
		return
	}

	// E2 on every non-nil edge
	for _, t := range tests {
		S := t.blk.Succs[t.nonNil]
		why := checkNonNilEdge(c, fn, s, flow, t, S)
		if why != "" {
			r.viol("E2|"+key, pos, fnName, "error of "+shortCallee(s.name)+" is non-nil on the edge at "+c.pos(blockIf(t.blk).Cond.Pos())+" but "+why)
			return
		}
	}
	r.ok("E2|"+key, pos, fnName, fmt.Sprintf("error of %s: %d nil-test(s), %d forwarding return(s); every return reachable from a non-nil edge reports failure", shortCallee(s.name), len(tests), len(forwardedAt)))
}

// checkNonNilEdge returns "" if the discipline holds on the edge into S.
func checkNonNilEdge(c *Ctx, fn *ssa.Function, s errSite, flow map[ssa.Value]bool, t nilTest, S *ssa.BasicBlock) string {
	errSlot := errIndex(fn.Signature)
	callBlk := s.call.Block()
	sameCallee := staticCallee(s.call)
	var recv ssa.Value
	if sameCallee != nil && sameCallee.Signature.Recv() != nil && len(s.call.Common().Args) > 0 {
		recv = s.call.Common().Args[0]
	}
	isLatchFn := errSlot < 0 && fn.Signature.Results().Len() == 1 && types.Identical(fn.Signature.Results().At(0).Type(), types.Typ[types.Bool])
	isIntFn := errSlot < 0 && fn.Signature.Results().Len() == 1 && types.Identical(fn.Signature.Results().At(0).Type(), types.Typ[types.Int])

	// the walk is path sensitive in one respect: the set of error values known
	// to be non-nil on the path (the tested value, and phis that receive it on
	// the edges taken); a later nil test of such a value has one outcome
	seen := map[string]bool{}
	var problem string
	knownKey := func(k map[ssa.Value]bool) string {
		var n []string
		for v := range k {
			n = append(n, v.Name())
		}
		sort.Strings(n)
		return strings.Join(n, ",")
	}
	var walk func(b, prev *ssa.BasicBlock, latched bool, known map[ssa.Value]bool)
	walk = func(b, prev *ssa.BasicBlock, latched bool, known map[ssa.Value]bool) {
		if problem != "" {
			return
		}
		// phis of b as seen from prev
		if prev != nil {
			pi := -1
			for i, pb := range b.Preds {
				if pb == prev {
					pi = i
				}
			}
			var add, del []ssa.Value
			for _, in := range b.Instrs {
				ph, ok := in.(*ssa.Phi)
				if !ok {
					break
				}
				if pi >= 0 && (known[ph.Edges[pi]] || neverNilError(c, ph.Edges[pi])) {
					add = append(add, ph)
				} else if known[ph] {
					del = append(del, ph)
				}
			}
			if len(add)+len(del) > 0 {
				k2 := map[ssa.Value]bool{}
				for v := range known {
					k2[v] = true
				}
				for _, v := range del {
					delete(k2, v)
				}
				for _, v := range add {
					k2[v] = true
				}
				known = k2
			}
		}
		if b == callBlk && b != S {
			problem = "the path continues back to the call site (the failure is skipped, e.g. by 'continue')"
			return
		}
		sk := fmt.Sprintf("%d|%v|%s", b.Index, latched, knownKey(known))
		if seen[sk] {
			return
		}
		seen[sk] = true
		for _, in := range b.Instrs {
			// E2-alt: a retry of the same callee on the same receiver supersedes e
			if call, ok := in.(*ssa.Call); ok && sameCallee == c.A.Match && staticCallee(call) == sameCallee && call != s.call {
				if recv == nil || (len(call.Call.Args) > 0 && sameAddr(call.Call.Args[0], recv)) {
					return
				}
			}
			if st, ok := in.(*ssa.Store); ok && isLatchFn {
				// a function literal records the failure in a captured variable
				if _, ok := st.Addr.(*ssa.FreeVar); ok {
					if bv, ok := constBool(st.Val); ok && bv {
						latched = true
					}
					if isErrorType(st.Val.Type()) && (flow[st.Val] || neverNilError(c, st.Val)) {
						latched = true
					}
				}
				if _, ok := st.Addr.(*ssa.FieldAddr); ok && len(fn.Params) > 0 {
					_, _, onRecv := chainField(st.Addr, fn.Params[0])
					if bv, ok := constBool(st.Val); ok && bv && onRecv {
						latched = true
					}
					// an error-typed latch: the error itself (non-nil on this edge) or a fresh one is recorded
					if onRecv && isErrorType(st.Val.Type()) && (flow[st.Val] || neverNilError(c, st.Val)) {
						latched = true
					}
				}
			}
		}
		if ret := blockReturn(b); ret != nil {
			switch {
			case errSlot >= 0:
				v := retResults(ret)[errSlot]
				if flow[v] || neverNilError(c, v) || known[v] {
					return
				}
				if isNilConst(v) {
					problem = "the return at " + c.pos(ret.Pos()) + " reports success (nil error)"
					return
				}
				// another error value: accept when this return is on that
				// value's own non-nil edge
				if dominatedByNonNilTest(v, b) {
					return
				}
				problem = "the return at " + c.pos(ret.Pos()) + " carries an error value that may be nil here"
			case isLatchFn:
				if !latched {
					problem = "the comparison function returns at " + c.pos(ret.Pos()) + " without recording the failure"
				}
			case isIntFn:
				v := retResults(ret)[0]
				if k, ok := constInt(v); ok {
					if k == 0 {
						problem = "the return at " + c.pos(ret.Pos()) + " yields status 0"
					}
					return
				}
				if call, ok := v.(*ssa.Call); ok {
					if f := staticCallee(call); f != nil && returnsOnlyNonZero(f) {
						return
					}
				}
				problem = "the return at " + c.pos(ret.Pos()) + " yields a status that may be 0"
			default:
				// a function that reports failure through its final bool result
				if nres := fn.Signature.Results().Len(); nres >= 2 && types.Identical(fn.Signature.Results().At(nres-1).Type(), types.Typ[types.Bool]) {
					if bv, ok := constBool(retResults(ret)[nres-1]); ok && !bv {
						return // ok == false: the callers are held to it (ok-proxy sites)
					}
					problem = "the return at " + c.pos(ret.Pos()) + " does not report the failure (its final bool result is not false)"
					return
				}
				problem = "the function cannot report the failure (no error result) and returns at " + c.pos(ret.Pos())
			}
			return
		}
		if len(b.Succs) == 0 {
			return // panic / exit
		}
		// a nil test of a value known to be non-nil here has one outcome
		if ifi := blockIf(b); ifi != nil {
			if bo, ok := ifi.Cond.(*ssa.BinOp); ok && (bo.Op == token.NEQ || bo.Op == token.EQL) {
				x, y := bo.X, bo.Y
				if isNilConst(x) {
					x, y = y, x
				}
				if isNilConst(y) && known[x] {
					idx := 0
					if bo.Op == token.EQL {
						idx = 1
					}
					walk(b.Succs[idx], b, latched, known)
					return
				}
			}
		}
		for _, sc := range b.Succs {
			walk(sc, b, latched, known)
		}
	}
	start := map[ssa.Value]bool{}
	if t.through != nil {
		start[t.through] = true
	}
	walk(S, t.blk, false, start)
	return problem
}

// dominatedByNonNilTest: block b is reached only through the non-nil edge of
// a nil test of v.
func dominatedByNonNilTest(v ssa.Value, b *ssa.BasicBlock) bool {
	for _, t := range nilTests(errFlow(v)) {
		S := t.blk.Succs[t.nonNil]
		if len(S.Preds) == 1 && S.Dominates(b) {
			return true
		}
	}
	return false
}

func returnsOnlyNonZero(f *ssa.Function) bool {
	if f.Blocks == nil {
		return false
	}
	n := 0
	for _, b := range f.Blocks {
		if ret := blockReturn(b); ret != nil {
			if len(ret.Results) != 1 {
				return false
			}
			k, ok := constInt(retResults(ret)[0])
			if !ok || k == 0 {
				return false
			}
			n++
		}
	}
	return n > 0
}

// chainField: addr is &root.e1.e2.f where e1, e2 are embedded structs (or
// addr is &root.f): the struct type that declares f and f's index.
func chainField(addr ssa.Value, root ssa.Value) (*types.Named, int, bool) {
	fa, ok := addr.(*ssa.FieldAddr)
	if !ok {
		return nil, 0, false
	}
	t := fa.X.Type()
	if pt, ok := t.Underlying().(*types.Pointer); ok {
		t = pt.Elem()
	}
	owner, ok := t.(*types.Named)
	if !ok {
		return nil, 0, false
	}
	base := fa.X
	for i := 0; i < 4 && base != root; i++ {
		inner, ok := base.(*ssa.FieldAddr)
		if !ok || !isEmbeddedField(inner) {
			return nil, 0, false
		}
		base = inner.X
	}
	if base != root {
		return nil, 0, false
	}
	return owner, fa.Field, true
}

// E-LATCH: failures recorded by Less are reported after the sort.
func ruleLatch(c *Ctx) *RuleResult {
	r := &RuleResult{Doc: "a failure latched by a sort adapter's Less is tested after sort.Stable/Sort; the latched edge returns a non-nil error and no success return bypasses the test", Floor: 2}
	// latch fields: bool fields of a type T stored true by (*T).Less
	type latch struct {
		T     *types.Named
		field int
		isErr bool // the latch is an error-typed field (set non-nil) instead of a bool (set true)
	}
	var latches []latch
	for _, fn := range allFuncs(c.SLib) {
		if fn.Name() != "Less" || fn.Signature.Recv() == nil {
			continue
		}
		pt, ok := fn.Signature.Recv().Type().(*types.Pointer)
		if !ok {
			continue
		}
		nt, ok := pt.Elem().(*types.Named)
		if !ok {
			continue
		}
		for _, b := range fn.Blocks {
			for _, in := range b.Instrs {
				st, ok := in.(*ssa.Store)
				if !ok {
					continue
				}
				owner, fld, ok := chainField(st.Addr, fn.Params[0])
				if !ok {
					continue
				}
				_ = nt
				isErr := isErrorType(st.Val.Type())
				if bv, ok := constBool(st.Val); (ok && bv) || isErr {
					dup := false
					for _, l := range latches {
						if l.T == owner && l.field == fld {
							dup = true
						}
					}
					if !dup {
						latches = append(latches, latch{owner, fld, isErr})
					}
				}
			}
		}
	}
	// sticky: a store into the latch inside Less never clears it — the stored
	// value is the constant true / a value that is non-nil where it is stored
	for _, fn := range allFuncs(c.SLib) {
		if fn.Name() != "Less" || fn.Signature.Recv() == nil {
			continue
		}
		n := 0
		for _, b := range fn.Blocks {
			for _, in := range b.Instrs {
				st, ok := in.(*ssa.Store)
				if !ok {
					continue
				}
				owner, fld, ok := chainField(st.Addr, fn.Params[0])
				if !ok {
					continue
				}
				var l *latch
				for i := range latches {
					if latches[i].T == owner && latches[i].field == fld {
						l = &latches[i]
					}
				}
				if l == nil {
					continue
				}
				n++
				r.Instances++
				key := fmt.Sprintf("sticky|%s|store#%d", fname(fn), n)
				okStore := false
				if bv, ok := constBool(st.Val); ok && bv {
					okStore = true
				}
				if l.isErr && (neverNilError(c, st.Val) || nonNilAt(st.Val, b)) {
					okStore = true
				}
				if okStore {
					r.ok(key, c.pos(st.Pos()), fname(fn), "the failure latch is only ever set here (never cleared by a later comparison)")
				} else {
					r.viol(key, c.pos(st.Pos()), fname(fn), "this store can clear the failure recorded by an earlier comparison (it writes a value that may be false/nil): a failed key evaluation or ill-typed key is forgotten when a later comparison succeeds")
				}
			}
		}
	}
	afterSort := func(fn *ssa.Function, call *ssa.Call, key, pos string, isErr bool, lname string, isLatchLoad func(ssa.Value) bool) {
		// Walk every path from the sort to a return, carrying the set of
		// values that hold this object's latch (a load of the field, a phi
		// fed by one on the edge taken). A branch on such a value is the
		// test; a return reached without one loses the failure.
		type testEdge struct {
			blk     *ssa.BasicBlock
			latched int
			val     ssa.Value
		}
		var tests []testEdge
		condOf := func(bb *ssa.BasicBlock, held map[ssa.Value]bool) (ssa.Value, int, bool) {
			ifi := blockIf(bb)
			if ifi == nil {
				return nil, 0, false
			}
			cond := ifi.Cond
			neg := false
			if u, ok := cond.(*ssa.UnOp); ok && u.Op == token.NOT {
				cond, neg = u.X, true
			}
			if bo, ok := cond.(*ssa.BinOp); ok && isErr && (bo.Op == token.NEQ || bo.Op == token.EQL) && isNilConst(bo.Y) {
				cond = bo.X
				if bo.Op == token.EQL {
					neg = !neg
				}
			} else if isErr {
				return nil, 0, false
			}
			if !held[cond] {
				return nil, 0, false
			}
			idx := 0
			if neg {
				idx = 1
			}
			return cond, idx, true
		}
		problem := ""
		memo := map[string]bool{}
		steps := 0
		var walk func(bb *ssa.BasicBlock, from *ssa.BasicBlock, start int, held map[ssa.Value]bool)
		walk = func(bb *ssa.BasicBlock, from *ssa.BasicBlock, start int, held map[ssa.Value]bool) {
			if problem != "" {
				return
			}
			steps++
			if steps > 20000 {
				problem = "too many paths after the sort to follow the failure flag"
				return
			}
			h2 := map[ssa.Value]bool{}
			for v := range held {
				h2[v] = true
			}
			if from != nil {
				pi := -1
				for i, pb := range bb.Preds {
					if pb == from {
						pi = i
					}
				}
				for _, in := range bb.Instrs {
					ph, ok := in.(*ssa.Phi)
					if !ok {
						break
					}
					delete(h2, ph)
					if pi >= 0 && held[ph.Edges[pi]] {
						h2[ph] = true
					}
				}
			}
			for _, in := range bb.Instrs[start:] {
				if v, ok := in.(ssa.Value); ok && isLatchLoad(v) {
					h2[v] = true
				}
			}
			var ks []string
			for v := range h2 {
				ks = append(ks, v.Name())
			}
			sort.Strings(ks)
			mk := fmt.Sprint(bb.Index, start, ks)
			if memo[mk] {
				return
			}
			memo[mk] = true
			if cv, idx, ok := condOf(bb, h2); ok {
				dup := false
				for _, t := range tests {
					if t.blk == bb {
						dup = true
					}
				}
				if !dup {
					tests = append(tests, testEdge{bb, idx, cv})
				}
				return
			}
			if ret := blockReturn(bb); ret != nil {
				problem = "the return at " + c.pos(ret.Pos()) + " is reachable after the sort without testing the failure flag"
				return
			}
			for _, sb := range bb.Succs {
				walk(sb, bb, 0, h2)
			}
		}
		ci := 0
		for i, in := range call.Block().Instrs {
			if in == call {
				ci = i + 1
			}
		}
		walk(call.Block(), nil, ci, map[ssa.Value]bool{})
		if problem == "" && len(tests) == 0 {
			r.viol(key, pos, fname(fn), "the failure flag set by "+lname+" is never tested after the sort: evaluation errors inside the comparison are lost")
			return
		}
		if problem == "" {
			// latched edge must return a non-nil error on every path
			errSlot := errIndex(fn.Signature)
			for _, t := range tests {
				T := t.blk.Succs[t.latched]
				for bb := range reachableFrom(T, nil) {
					if ret := blockReturn(bb); ret != nil {
						if errSlot >= 0 && isErr && (retResults(ret)[errSlot] == t.val || isLatchLoad(retResults(ret)[errSlot])) {
							continue // returns the latched error itself, non-nil on this edge
						}
						if errSlot < 0 || !neverNilError(c, retResults(ret)[errSlot]) {
							problem = "the latched edge reaches the return at " + c.pos(ret.Pos()) + " which does not carry a fresh error"
						}
					}
				}
			}
		}
		if problem == "" {
			r.ok(key, pos, fname(fn), "flag tested right after the sort; latched edge returns a fresh error; no return bypasses the test")
		} else {
			r.viol(key, pos, fname(fn), problem)
		}
	}
	ordOf := map[*ssa.Function]int{}
	var handle func(fn *ssa.Function, call *ssa.Call, arg ssa.Value, depth int)
	handle = func(fn *ssa.Function, call *ssa.Call, arg ssa.Value, depth int) {
		// the sorted object: what was boxed, or the interface value itself
		obj := arg
		for {
			if mi, ok := obj.(*ssa.MakeInterface); ok {
				obj = mi.X
				continue
			}
			if ci, ok := obj.(*ssa.ChangeInterface); ok {
				obj = ci.X
				continue
			}
			break
		}
		// the adapter types it can be
		var adapters []*types.Named
		if pt, ok := obj.Type().(*types.Pointer); ok {
			if n, ok := pt.Elem().(*types.Named); ok {
				adapters = append(adapters, n)
			}
		} else if it, ok := obj.Type().Underlying().(*types.Interface); ok {
			for _, m := range c.SLib.Members {
				tm, ok := m.(*ssa.Type)
				if !ok {
					continue
				}
				n, ok := tm.Type().(*types.Named)
				if !ok {
					continue
				}
				if _, isIface := n.Underlying().(*types.Interface); isIface {
					continue
				}
				if types.Implements(types.NewPointer(n), it) || types.Implements(n, it) {
					adapters = append(adapters, n)
				}
			}
		}
		var l *latch
		all := len(adapters) > 0
		for _, A := range adapters {
			fam := structFamily(A)
			found := false
			for i := range latches {
				if fam[latches[i].T] {
					l = &latches[i]
					found = true
				}
			}
			if !found {
				all = false
			}
		}
		if l == nil {
			return
		}
		r.Instances++
		ordOf[fn]++
		ord := ordOf[fn]
		key := fmt.Sprintf("%s|%s#%d", fname(fn), l.T.Obj().Name(), ord)
		pos := c.pos(call.Pos())
		if !all {
			r.undecided(key, pos, fname(fn), "the sorted value can be an adapter without the failure latch")
			return
		}
		lt := l
		// getter: a method all of whose returns yield the latch of its receiver
		isGetter := func(f *ssa.Function) bool {
			if f == nil || f.Blocks == nil || f.Signature.Recv() == nil || len(f.Params) == 0 || f.Signature.Results().Len() != 1 {
				return false
			}
			// a promoted method reaches the declared one through a wrapper
			if f.Synthetic != "" {
				for _, b := range f.Blocks {
					for _, in := range b.Instrs {
						if cl, ok := in.(*ssa.Call); ok {
							if sc := staticCallee(cl); sc != nil && sc.Name() == f.Name() {
								f = sc
							}
						}
					}
				}
			}
			n := 0
			for _, b := range f.Blocks {
				ret := blockReturn(b)
				if ret == nil {
					continue
				}
				n++
				ld, ok := retResults(ret)[0].(*ssa.UnOp)
				if !ok || ld.Op != token.MUL {
					return false
				}
				owner, fld, ok := chainField(ld.X, f.Params[0])
				if !ok || owner != lt.T || fld != lt.field {
					return false
				}
			}
			return n > 0
		}
		rootedAt := func(v ssa.Value) bool {
			for i := 0; i < 4; i++ {
				if v == obj {
					return true
				}
				fa, ok := v.(*ssa.FieldAddr)
				if !ok || !isEmbeddedField(fa) {
					return false
				}
				v = fa.X
			}
			return false
		}
		latchRead := func(v ssa.Value) bool {
			switch v := v.(type) {
			case *ssa.UnOp:
				if v.Op != token.MUL {
					return false
				}
				owner, fld, ok := chainField(v.X, obj)
				return ok && owner == lt.T && fld == lt.field
			case *ssa.Call:
				if v.Call.IsInvoke() {
					if v.Call.Value != obj {
						return false
					}
					for _, A := range adapters {
						m := c.Prog.LookupMethod(types.NewPointer(A), v.Call.Method.Pkg(), v.Call.Method.Name())
						if !isGetter(m) {
							return false
						}
					}
					return len(adapters) > 0
				}
				if sc := staticCallee(v); sc != nil && len(v.Call.Args) > 0 && rootedAt(v.Call.Args[0]) {
					return isGetter(sc)
				}
			}
			return false
		}
		// a helper that sorts what it is handed and leaves the test to its
		// callers: the obligation is theirs, with their argument as the object
		if par, isPar := obj.(*ssa.Parameter); isPar && depth < 3 {
			reads := false
			for _, bb := range fn.Blocks {
				for _, ii := range bb.Instrs {
					if v, isV := ii.(ssa.Value); isV && latchRead(v) {
						reads = true
					}
				}
			}
			pi := -1
			for k, q := range fn.Params {
				if q == par {
					pi = k
				}
			}
			if !reads && pi >= 0 {
				nsites := 0
				for _, caller := range allFuncs(c.SLib) {
					for _, cs := range callsTo(caller, fn) {
						if pi < len(cs.Call.Args) {
							nsites++
							handle(caller, cs, cs.Call.Args[pi], depth+1)
						}
					}
				}
				if nsites > 0 {
					r.Instances--
					return
				}
			}
		}
		afterSort(fn, call, key, pos, l.isErr, l.T.Obj().Name()+".Less", latchRead)
	}
	for _, fn := range allFuncs(c.SLib) {
		for _, b := range fn.Blocks {
			for _, in := range b.Instrs {
				call, ok := in.(*ssa.Call)
				if !ok {
					continue
				}
				n := calleeName(call)
				if n != "sort.Stable" && n != "sort.Sort" {
					continue
				}
				handle(fn, call, call.Call.Args[0], 0)
			}
		}
	}
	// function-literal comparisons: sort.Slice / sort.SliceStable(s, func(i, j int) bool {...})
	// whose literal records a failure in a captured variable
	for _, fn := range allFuncs(c.SLib) {
		ord := 0
		for _, b := range fn.Blocks {
			for _, in := range b.Instrs {
				call, ok := in.(*ssa.Call)
				if !ok {
					continue
				}
				if n := calleeName(call); n != "sort.Slice" && n != "sort.SliceStable" {
					continue
				}
				for _, mc := range closuresOf(call.Call.Args[1], 0) {
					cf, ok := mc.Fn.(*ssa.Function)
					if !ok {
						continue
					}
					// the captured variables the literal stores true / an error into
					for fi, fv := range cf.FreeVars {
						isLatch, isErr := false, false
						nst := 0
						for _, cb := range cf.Blocks {
							for _, cin := range cb.Instrs {
								st, ok := cin.(*ssa.Store)
								if !ok || st.Addr != fv {
									continue
								}
								if bv, ok := constBool(st.Val); ok && bv {
									isLatch = true
								}
								if isErrorType(st.Val.Type()) {
									isLatch, isErr = true, true
								}
							}
						}
						if !isLatch {
							continue
						}
						for _, cb := range cf.Blocks {
							for _, cin := range cb.Instrs {
								st, ok := cin.(*ssa.Store)
								if !ok || st.Addr != fv {
									continue
								}
								nst++
								r.Instances++
								key := fmt.Sprintf("sticky|%s|store#%d", fname(cf), nst)
								okStore := false
								if bv, ok := constBool(st.Val); ok && bv {
									okStore = true
								}
								if isErr && (neverNilError(c, st.Val) || nonNilAt(st.Val, cb)) {
									okStore = true
								}
								if okStore {
									r.ok(key, c.pos(st.Pos()), fname(cf), "the failure latch is only ever set here (never cleared by a later comparison)")
								} else {
									r.viol(key, c.pos(st.Pos()), fname(cf), "this store can clear the failure recorded by an earlier comparison (it writes a value that may be false/nil): a failed key evaluation or ill-typed key is forgotten when a later comparison succeeds")
								}
							}
						}
						r.Instances++
						ord++
						cell := mc.Bindings[fi]
						key := fmt.Sprintf("%s|%s#%d", fname(fn), fv.Name(), ord)
						afterSort(fn, call, key, c.pos(call.Pos()), isErr, "the comparison literal "+fname(cf)+" in "+fv.Name(), func(v ssa.Value) bool {
							ld, ok := v.(*ssa.UnOp)
							return ok && ld.Op == token.MUL && ld.X == cell
						})
					}
				}
			}
		}
	}
	return r
}

// nonNilAt: v is an error value that is known non-nil in block b (b is
// dominated by the non-nil edge of a test of v against nil).
func nonNilAt(v ssa.Value, b *ssa.BasicBlock) bool {
	for _, bb := range b.Parent().Blocks {
		ifi := blockIf(bb)
		if ifi == nil {
			continue
		}
		bo, ok := ifi.Cond.(*ssa.BinOp)
		if !ok || (bo.Op != token.NEQ && bo.Op != token.EQL) || bo.X != v || !isNilConst(bo.Y) {
			continue
		}
		idx := 0
		if bo.Op == token.EQL {
			idx = 1
		}
		s := bb.Succs[idx]
		if len(s.Preds) == 1 && s.Dominates(b) {
			return true
		}
	}
	return false
}

// isLatchValue: v is (a reload of) the latch field of the sorted object.
func isLatchValue(v ssa.Value, latchLoad ssa.Value, field int, obj ssa.Value) bool {
	if v == latchLoad {
		return true
	}
	if ld, ok := v.(*ssa.UnOp); ok && ld.Op == token.MUL {
		if fa, ok := ld.X.(*ssa.FieldAddr); ok && fa.Field == field && fa.X == obj {
			return true
		}
	}
	return false
}

// allReturnsFail: starting on the edge prev -> S, where the error values in
// known are non-nil, every reachable return of fn carries a non-nil error in
// its error slot (path sensitive in the same way as E2: phis fed by a known
// value are known, a nil test of a known value has one outcome). Returns ""
// or what goes wrong. stop: blocks that end the walk (e.g. a loop header).
func (c *Ctx) allReturnsFail(fn *ssa.Function, S, prev *ssa.BasicBlock, known map[ssa.Value]bool, stop map[*ssa.BasicBlock]bool) string {
	errSlot := errIndex(fn.Signature)
	if errSlot < 0 {
		return "the function has no error result"
	}
	seen := map[string]bool{}
	problem := ""
	keyOf := func(k map[ssa.Value]bool) string {
		var n []string
		for v := range k {
			n = append(n, v.Name())
		}
		sort.Strings(n)
		return strings.Join(n, ",")
	}
	var walk func(b, prev *ssa.BasicBlock, known map[ssa.Value]bool)
	walk = func(b, prev *ssa.BasicBlock, known map[ssa.Value]bool) {
		if problem != "" {
			return
		}
		if stop[b] {
			problem = "the path continues the loop"
			return
		}
		if prev != nil {
			pi := -1
			for i, pb := range b.Preds {
				if pb == prev {
					pi = i
				}
			}
			k2 := known
			copied := false
			for _, in := range b.Instrs {
				ph, ok := in.(*ssa.Phi)
				if !ok {
					break
				}
				isK := pi >= 0 && (known[ph.Edges[pi]] || neverNilError(c, ph.Edges[pi]))
				if isK != k2[ph] {
					if !copied {
						k2 = map[ssa.Value]bool{}
						for v := range known {
							k2[v] = true
						}
						copied = true
					}
					if isK {
						k2[ph] = true
					} else {
						delete(k2, ph)
					}
				}
			}
			known = k2
		}
		sk := fmt.Sprintf("%d|%s", b.Index, keyOf(known))
		if seen[sk] {
			return
		}
		seen[sk] = true
		if ret := blockReturn(b); ret != nil {
			v := retResults(ret)[errSlot]
			if !(known[v] || neverNilError(c, v)) {
				problem = "the return at " + c.pos(ret.Pos()) + " may report success"
			}
			return
		}
		if ifi := blockIf(b); ifi != nil {
			if bo, ok := ifi.Cond.(*ssa.BinOp); ok && (bo.Op == token.NEQ || bo.Op == token.EQL) {
				x, y := bo.X, bo.Y
				if isNilConst(x) {
					x, y = y, x
				}
				if isNilConst(y) && known[x] {
					idx := 0
					if bo.Op == token.EQL {
						idx = 1
					}
					walk(b.Succs[idx], b, known)
					return
				}
			}
		}
		for _, sc := range b.Succs {
			walk(sc, b, known)
		}
	}
	walk(S, prev, known)
	return problem
}

// sameAddr: the same SSA value, or the same chain of field addresses on the
// same base (go/ssa computes &p.embedded anew at every use).
func sameAddr(a, b ssa.Value) bool {
	for i := 0; i < 6; i++ {
		if a == b {
			return true
		}
		fa, ok1 := a.(*ssa.FieldAddr)
		fb, ok2 := b.(*ssa.FieldAddr)
		if !ok1 || !ok2 || fa.Field != fb.Field {
			return false
		}
		a, b = fa.X, fb.X
	}
	return false
}
