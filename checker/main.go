// jpcheck decides structural clauses of the properties in
// /verif/properties.jsonl for the go-jmespath working tree by static analysis
// (go/packages + go/types + go/ssa). It never executes code of the analysed
// repository. See /verif/DESIGN.md.
package main

import (
	"encoding/json"
	"flag"
	"fmt"
	"os"
	"os/exec"
	"path/filepath"
	"runtime/debug"
	"runtime/pprof"
	"sort"
	"strings"
	"time"
)

type ruleFn func(c *Ctx) *RuleResult

var rules = map[string]ruleFn{}

func register(name string, f ruleFn) { rules[name] = f }

func (c *Ctx) run(name string) *RuleResult {
	if r, ok := c.cache[name]; ok {
		return r
	}
	f, ok := rules[name]
	if !ok {
		fatal("unknown rule %s", name)
	}
	r := f(c)
	r.Name = name
	for i := range r.Obs {
		r.Obs[i].Rule = name
	}
	c.cache[name] = r
	return r
}

// PropSpec: which rules decide which property, and the words for evidence.
type PropSpec struct {
	ID          string
	Rules       []string
	Explanation string
	NotDecided  string
}

type knownFile struct {
	Findings []knownFinding `json:"findings"`
	Fixed    []fixedEntry   `json:"fixed"`
}
type knownFinding struct {
	Property  string `json:"property"`
	Rule      string `json:"rule"`
	Construct string `json:"construct"`
	What      string `json:"what"`
}
type fixedEntry struct {
	Line string `json:"line"`
}

func verifDir() string {
	if d := os.Getenv("VERIF_DIR"); d != "" {
		return d
	}
	exe, err := os.Executable()
	if err == nil {
		d := filepath.Dir(filepath.Dir(exe))
		if _, err := os.Stat(filepath.Join(d, "properties.jsonl")); err == nil {
			return d
		}
	}
	return "/verif"
}

func main() {
	prop := flag.String("property", "", "property id (C01..C19)")
	tier := flag.String("tier", "", "quick|thorough (default: $VERIF_TIER or quick)")
	root := flag.String("repo", "/repo", "repository root")
	explain := flag.String("explain", "", "replay file: re-decide that obligation on the current tree")
	listRules := flag.Bool("rules", false, "list rules per property")
	verbose := flag.Bool("v", false, "print every obligation")
	noEvidence := flag.Bool("no-evidence", false, "do not write the evidence file")
	flag.Parse()
	if strings.HasPrefix(*prop, "RULE:") {
		*noEvidence = true // the single-rule debugging mode claims no property: it writes no evidence
	}

	if *listRules {
		for _, p := range propSpecs() {
			fmt.Printf("%s: %s\n", p.ID, strings.Join(p.Rules, " "))
		}
		return
	}
	if *tier == "" {
		*tier = os.Getenv("VERIF_TIER")
	}
	if *tier == "" {
		*tier = "quick"
	}
	if *tier != "quick" && *tier != "thorough" {
		fatal("bad tier %q", *tier)
	}

	var replayOb *Ob
	if *explain != "" {
		b, err := os.ReadFile(*explain)
		if err != nil {
			fatal("%v", err)
		}
		var rp struct {
			Property string `json:"property"`
			Ob       Ob     `json:"obligation"`
		}
		if err := json.Unmarshal(b, &rp); err != nil {
			fatal("%v", err)
		}
		*prop = rp.Property
		replayOb = &rp.Ob
	}
	var spec *PropSpec
	for _, p := range propSpecs() {
		if p.ID == *prop {
			pp := p
			spec = &pp
		}
	}
	if spec == nil && strings.HasPrefix(*prop, "RULE:") {
		// debugging: run one rule by name (never registered in the manifest)
		spec = &PropSpec{ID: *prop, Rules: []string{strings.TrimPrefix(*prop, "RULE:")}}
	}
	if spec == nil {
		fatal("unknown or unclaimed property %q", *prop)
	}

	if pf := os.Getenv("JPCHECK_PROF"); pf != "" {
		f, err := os.Create(pf)
		if err == nil {
			pprof.StartCPUProfile(f)
			defer pprof.StopCPUProfile()
		}
	}
	start := time.Now()
	code := 0
	func() {
		defer func() {
			if r := recover(); r != nil {
				if al, ok := r.(anchorLost); ok {
					fmt.Printf("ANCHOR-LOST property=%s: %s\n", spec.ID, al.what)
					fmt.Println("the code no longer has the shape the rules are anchored in; this is a checker failure, not a verdict")
					code = 2
					return
				}
				fmt.Printf("CHECKER-PANIC property=%s: %v\n%s\n", spec.ID, r, debug.Stack())
				code = 2
			}
		}()
		code = check(spec, *tier, *root, *verbose, replayOb, !*noEvidence && replayOb == nil, start)
	}()
	pprof.StopCPUProfile()
	os.Exit(code)
}

type config struct{ tags, arch string }

func check(spec *PropSpec, tier, root string, verbose bool, replayOb *Ob, writeEv bool, start time.Time) int {
	vd := verifDir()
	var known knownFile
	if b, err := os.ReadFile(filepath.Join(vd, "known_findings.json")); err == nil {
		if err := json.Unmarshal(b, &known); err != nil {
			fatal("known_findings.json: %v", err)
		}
	}

	configs := []config{{"", ""}}
	if tier == "thorough" {
		configs = append(configs, config{"verif", ""}, config{"", "386"})
	}

	type ruleStat struct {
		Rule      string `json:"rule"`
		Doc       string `json:"doc,omitempty"`
		Instances int    `json:"instances"`
		Floor     int    `json:"floor"`
		Obs       int    `json:"obligations"`
		OK        int    `json:"discharged"`
		Viol      int    `json:"violations"`
		Undecided int    `json:"undecided"`
		Residual  int    `json:"residual"`
	}
	var stats []ruleStat
	var all []Ob
	var notes []string
	fail := false
	var cfgNames []string
	var nfuncs, npkgs int
	var firstVerdict map[string]string

	for ci, cf := range configs {
		c := load(root, cf.tags, cf.arch)
		c.Tier = tier
		cfgName := "default"
		if cf.tags != "" {
			cfgName = "tags=" + cf.tags
		}
		if cf.arch != "" {
			cfgName = "GOARCH=" + cf.arch
		}
		cfgNames = append(cfgNames, cfgName)
		verdict := map[string]string{}
		for _, rn := range spec.Rules {
			if c.A.Deferred != "" && rn != "J-ABS" {
				lost("%s", c.A.Deferred)
			}
			r := c.run(rn)
			for _, o := range r.Obs {
				verdict[o.Rule+"|"+o.Key] = o.Status
			}
			if ci > 0 {
				continue
			}
			st := ruleStat{Rule: rn, Doc: r.Doc, Instances: r.Instances, Floor: r.Floor, Obs: len(r.Obs)}
			for _, o := range r.Obs {
				switch o.Status {
				case OK:
					st.OK++
				case VIOL:
					st.Viol++
				case UNDECIDED:
					st.Undecided++
				case RESIDUAL:
					st.Residual++
				}
			}
			stats = append(stats, st)
			all = append(all, r.Obs...)
			notes = append(notes, r.Notes...)
			if r.Instances < r.Floor {
				fmt.Printf("VACUOUS rule=%s instances=%d floor=%d — the rule matched fewer constructs than the property implies; checker failure\n", rn, r.Instances, r.Floor)
				fail = true
			}
		}
		if ci == 0 {
			firstVerdict = verdict
			npkgs = len(c.Pkgs)
			nfuncs = len(allFuncs(c.SLib)) + len(allFuncs(c.SCLI))
		} else {
			// thorough: verdicts must not depend on the build configuration
			for k, v := range firstVerdict {
				if verdict[k] != v {
					fmt.Printf("CONFIG-DIFF %s: obligation %s is %q under default and %q under %s\n", spec.ID, k, v, verdict[k], cfgName)
					fail = true
				}
			}
			for k := range verdict {
				if _, ok := firstVerdict[k]; !ok {
					fmt.Printf("CONFIG-DIFF %s: obligation %s exists only under %s\n", spec.ID, k, cfgName)
					fail = true
				}
			}
		}
	}

	sortObs(all)
	nOK, nViol, nUndec, nRes := 0, 0, 0, 0
	var unlisted []Ob
	var knownSeen []string
	for _, o := range all {
		switch o.Status {
		case OK:
			nOK++
		case RESIDUAL:
			nRes++
		case UNDECIDED:
			nUndec++
		case VIOL:
			nViol++
		}
		if replayOb != nil && (o.Rule != replayOb.Rule || o.Key != replayOb.Key) {
			continue
		}
		if verbose || o.Status == VIOL || o.Status == UNDECIDED || replayOb != nil {
			fmt.Printf("%-10s %-12s %s  [%s] %s\n    %s\n", o.Status, o.Rule, o.Pos, o.Func, o.Key, o.Detail)
		}
		if o.Status == VIOL {
			listed := false
			for _, k := range known.Findings {
				if k.Property == spec.ID && k.Rule == o.Rule && k.Construct == o.Key {
					listed = true
					line := fmt.Sprintf("KNOWN-FINDING: property=%s %s [%s %s at %s]", spec.ID, k.What, o.Rule, o.Key, o.Pos)
					fmt.Println(line)
					knownSeen = append(knownSeen, line)
				}
			}
			if !listed {
				unlisted = append(unlisted, o)
			}
		}
	}
	if replayOb != nil {
		return 0
	}

	exit := 0
	if len(unlisted) > 0 {
		exit = 1
		rd := filepath.Join(vd, "evidence", "replay")
		os.MkdirAll(rd, 0o755)
		for i, o := range unlisted {
			path := filepath.Join(rd, fmt.Sprintf("%s-%02d.json", spec.ID, i+1))
			b, _ := json.MarshalIndent(map[string]interface{}{"property": spec.ID, "obligation": o,
				"replay": "bin/jpcheck -explain " + path}, "", " ")
			os.WriteFile(path, b, 0o644)
			fmt.Printf("VIOLATION property=%s replay=%s\n", spec.ID, path)
		}
	}
	if nUndec > 0 {
		fmt.Printf("UNDECIDED property=%s: %d obligations could not be decided (checker failure, not a verdict)\n", spec.ID, nUndec)
		fail = true
	}
	if fail && exit == 0 {
		exit = 2
	}

	fmt.Printf("%s tier=%s configs=%s packages=%d functions=%d rules=%d obligations=%d discharged=%d violations=%d (known %d) undecided=%d residual=%d wall=%.1fs\n",
		spec.ID, tier, strings.Join(cfgNames, ","), npkgs, nfuncs, len(spec.Rules), len(all), nOK, nViol, len(knownSeen), nUndec, nRes, time.Since(start).Seconds())

	// thorough tier: positive controls — seeded variants this check is known to
	// catch must still be caught (a miss is a checker regression, exit 2)
	var controls []string
	if tier == "thorough" && exit == 0 && !fail {
		cres, cfail := runControls(spec.ID, root)
		controls = cres
		for _, l := range cres {
			fmt.Println(l)
		}
		if cfail {
			fmt.Printf("CONTROL-MISSED property=%s: a seeded variant that this check must report was not reported: checker regression\n", spec.ID)
			exit = 2
		}
	}
	if writeEv {
		var samples []Ob
		// a spread of obligations: every violation, then up to 14 others from distinct rules
		perRule := map[string]int{}
		for _, o := range all {
			if o.Status == VIOL || o.Status == UNDECIDED {
				samples = append(samples, o)
			}
		}
		for _, o := range all {
			if o.Status == OK && perRule[o.Rule] < 3 && len(samples) < 40 {
				perRule[o.Rule]++
				samples = append(samples, o)
			}
		}
		var residual []Ob
		for _, o := range all {
			if o.Status == RESIDUAL {
				residual = append(residual, o)
			}
		}
		sort.Strings(notes)
		ev := map[string]interface{}{
			"property_id": spec.ID,
			"tier":        tier,
			"seed":        seedEnv(),
			"level":       "other",
			"coverage": map[string]interface{}{
				"explanation":         spec.Explanation,
				"not_decided":         spec.NotDecided,
				"obligations":         len(all) - nRes,
				"discharged":          nOK,
				"violations":          nViol,
				"undecided":           nUndec,
				"residual_sites":      residual,
				"rules":               stats,
				"samples":             samples,
				"known_findings_seen": knownSeen,
				"build_configs":       cfgNames,
				"positive_controls":   controls,
				"packages_analysed":   npkgs,
				"functions_analysed":  nfuncs,
				"notes":               notes,
				"checker_cmd":         "bin/jpcheck -property " + spec.ID + " -tier " + tier,
				"trusted_base": []string{"go/types and go/ssa of golang.org/x/tools v0.29.0", "hand-written effect/kind models of the standard-library callees (checker/models.go)",
					"absence of unsafe/cgo/reflect.Set/go statements (rule BAN checks it)"},
			},
			"assumptions": []string{
				"static analysis of the sources only: no code of the repository is executed",
				"the Go type checker and go/ssa construction are correct",
				"standard-library callees behave as tabulated in the checker's model table",
			},
			"wall_s":     time.Since(start).Seconds(),
			"violations": len(unlisted),
		}
		b, _ := json.MarshalIndent(ev, "", " ")
		os.MkdirAll(filepath.Join(vd, "evidence"), 0o755)
		if err := os.WriteFile(filepath.Join(vd, "evidence", spec.ID+".json"), b, 0o644); err != nil {
			fatal("write evidence: %v", err)
		}
	}
	return exit
}

func seedEnv() int {
	var n int
	fmt.Sscanf(os.Getenv("VERIF_SEED"), "%d", &n)
	return n
}

// runControls applies each seeded variant whose meta.json lists this property
// as primary target (breaks_property) and as detected, to a scratch copy of
// the repository, and requires the quick check to report a violation there.
func runControls(prop, root string) ([]string, bool) {
	vd := verifDir()
	dirs, _ := filepath.Glob(filepath.Join(vd, "seeded", "*", "meta.json"))
	sort.Strings(dirs)
	var out []string
	failed := false
	exe, _ := os.Executable()
	for _, mp := range dirs {
		b, err := os.ReadFile(mp)
		if err != nil {
			continue
		}
		var meta struct {
			ID     string `json:"id"`
			Breaks string `json:"breaks_property"`
			Det    struct {
				Checks []string `json:"checks"`
			} `json:"detected_by"`
		}
		if json.Unmarshal(b, &meta) != nil || meta.Breaks != prop {
			continue
		}
		expected := false
		for _, c := range meta.Det.Checks {
			if c == prop {
				expected = true
			}
		}
		if !expected {
			continue
		}
		tmp, err := os.MkdirTemp("", "jpcontrol")
		if err != nil {
			continue
		}
		cp := exec.Command("cp", "-a", root+"/.", tmp)
		if err := cp.Run(); err != nil {
			os.RemoveAll(tmp)
			continue
		}
		os.RemoveAll(filepath.Join(tmp, ".git"))
		ap := exec.Command("git", "apply", filepath.Join(filepath.Dir(mp), "patch.diff"))
		ap.Dir = tmp
		if err := ap.Run(); err != nil {
			out = append(out, fmt.Sprintf("CONTROL %s: skipped (patch does not apply to the current tree)", meta.ID))
			os.RemoveAll(tmp)
			continue
		}
		run := exec.Command(exe, "-repo", tmp, "-property", prop, "-tier", "quick", "-no-evidence")
		run.Env = append(os.Environ(), "VERIF_DIR="+vd)
		res, _ := run.CombinedOutput()
		code := run.ProcessState.ExitCode()
		os.RemoveAll(tmp)
		if code == 1 && strings.Contains(string(res), "VIOLATION property="+prop) {
			out = append(out, fmt.Sprintf("CONTROL %s: reported (exit 1)", meta.ID))
		} else {
			out = append(out, fmt.Sprintf("CONTROL %s: NOT reported (exit %d)", meta.ID, code))
			failed = true
		}
	}
	return out, failed
}
