package main

import (
	"fmt"
	"golang.org/x/tools/go/packages"
	"golang.org/x/tools/go/ssa"
	"golang.org/x/tools/go/ssa/ssautil"
	_ "golang.org/x/tools/go/callgraph/vta"
	_ "golang.org/x/tools/go/callgraph/cha"
	_ "golang.org/x/tools/go/cfg"
)

func main() {
	cfg := &packages.Config{Mode: packages.LoadAllSyntax, Dir: "/repo"}
	pkgs, err := packages.Load(cfg, "./...")
	if err != nil { panic(err) }
	prog, spkgs := ssautil.AllPackages(pkgs, ssa.InstantiateGenerics)
	prog.Build()
	fmt.Println(len(pkgs), len(spkgs))
}
