package main

import (
	"fmt"
	"os"
	"go/ast"
	"go/constant"
	"go/types"
	"sort"

	"golang.org/x/tools/go/ssa"
)

// Anchors are the constructs the rules hang on, resolved by type and role.
type Anchors struct {
	ASTNode   *types.Named
	NodeTypeT *types.Named
	TokT      *types.Named
	JPTypeT   *types.Named
	ExpRefT   *types.Named
	InterpT   *types.Named
	ParserT   *types.Named
	LexerT    *types.Named
	SynErrT   *types.Named
	JMESPathT *types.Named
	FEntryT   *types.Named
	ArgSpecT  *types.Named
	TokenT    *types.Named

	NodeTypes []namedConst
	Toks      []namedConst
	JPTypes   []namedConst
	Tok       map[string]int64
	TokName   map[int64]string
	NT        map[string]int64
	NTName    map[int64]string

	Exec     *ssa.Function // the evaluator
	ExecSw   *EnumSwitch   // its switch over astNodeType
	Helpers  []*ssa.Function // evaluator helpers taking the interpreter receiver

	Parse, ParseExpr, Nud, Led                   *ssa.Function
	ParseProjRHS, ParseDotRHS                    *ssa.Function
	Match, Advance, Current, Lookahead, LookTok  *ssa.Function
	Tokenize                                     *ssa.Function
	Compile, MustCompile, Search, JPSearch       *ssa.Function
	NewParser, NewLexer, NewInterp, NewFCaller   *ssa.Function
	CallFunction, ResolveArgs, TypeCheck         *ssa.Function
	IsFalse, ObjsEqual, IsSliceType              *ssa.Function
	BindingPowers                                *ssa.Global

	Table []*TableEntry // the evaluated function table
}

type ArgSpecV struct {
	Types    []string // jpType constant values ("number", ...)
	Variadic bool
}

type TableEntry struct {
	Key       string
	Name      string
	Args      []ArgSpecV
	Handler   *ssa.Function
	HasExpRef bool
	Pos       string
}

func fieldIndex(n *types.Named, name string) int {
	st, ok := n.Underlying().(*types.Struct)
	if !ok {
		lost("%s is not a struct", n.Obj().Name())
	}
	for i := 0; i < st.NumFields(); i++ {
		if st.Field(i).Name() == name {
			return i
		}
	}
	lost("%s has no field %s", n.Obj().Name(), name)
	return -1
}

func resolveAnchors(c *Ctx) *Anchors {
	a := &Anchors{}
	a.ASTNode = c.namedType(c.SLib, "ASTNode")
	a.NodeTypeT = c.namedType(c.SLib, "astNodeType")
	a.TokT = c.namedType(c.SLib, "tokType")
	a.JPTypeT = c.namedType(c.SLib, "jpType")
	a.ExpRefT = c.namedType(c.SLib, "expRef")
	a.InterpT = c.namedType(c.SLib, "treeInterpreter")
	a.ParserT = c.namedType(c.SLib, "Parser")
	a.LexerT = c.namedType(c.SLib, "Lexer")
	a.SynErrT = c.namedType(c.SLib, "SyntaxError")
	a.JMESPathT = c.namedType(c.SLib, "JMESPath")
	a.FEntryT = c.namedType(c.SLib, "functionEntry")
	a.ArgSpecT = c.namedType(c.SLib, "argSpec")
	a.TokenT = c.namedType(c.SLib, "token")
	for _, f := range []string{"nodeType", "value", "children"} {
		fieldIndex(a.ASTNode, f)
	}

	a.NodeTypes = c.constsOf(c.Lib, a.NodeTypeT)
	a.Toks = c.constsOf(c.Lib, a.TokT)
	a.JPTypes = c.constsOf(c.Lib, a.JPTypeT)
	a.Tok, a.TokName = map[string]int64{}, map[int64]string{}
	for _, k := range a.Toks {
		a.Tok[k.Name] = k.Val
		a.TokName[k.Val] = k.Name
	}
	a.NT, a.NTName = map[string]int64{}, map[int64]string{}
	for _, k := range a.NodeTypes {
		a.NT[k.Name] = k.Val
		a.NTName[k.Val] = k.Name
	}
	if len(a.NodeTypes) < 22 || len(a.Toks) < 30 || len(a.JPTypes) < 8 {
		lost("enumerations too small: %d node types, %d tokens, %d jp types", len(a.NodeTypes), len(a.Toks), len(a.JPTypes))
	}

	// evaluator by role: method of *treeInterpreter (ASTNode, interface{}) (interface{}, error)
	// that switches on an astNodeType.
	for _, f := range allFuncs(c.SLib) {
		sig := f.Signature
		if sig.Recv() == nil || sig.Params().Len() != 2 || sig.Results().Len() != 2 {
			continue
		}
		if !types.Identical(sig.Params().At(0).Type(), a.ASTNode) {
			continue
		}
		if _, ok := sig.Params().At(1).Type().Underlying().(*types.Interface); !ok {
			continue
		}
		sws := c.enumSwitches(c.Lib, f, a.NodeTypeT)
		if len(sws) == 0 {
			continue
		}
		if a.Exec != nil {
			lost("two candidate evaluators: %s and %s", fname(a.Exec), fname(f))
		}
		a.Exec = f
		a.ExecSw = sws[0]
	}
	if a.Exec == nil {
		lost("evaluator (method switching on astNodeType) not found")
	}
	for _, f := range allFuncs(c.SLib) {
		if f == a.Exec || f.Signature.Recv() == nil {
			continue
		}
		rt := f.Signature.Recv().Type()
		if p, ok := rt.(*types.Pointer); ok && types.Identical(p.Elem(), a.InterpT) {
			a.Helpers = append(a.Helpers, f)
		}
	}

	a.Parse = c.method("Parser", "Parse")
	a.ParseExpr = c.method("Parser", "parseExpression")
	a.Nud = c.method("Parser", "nud")
	a.Led = c.method("Parser", "led")
	a.ParseProjRHS = c.method("Parser", "parseProjectionRHS")
	a.ParseDotRHS = c.method("Parser", "parseDotRHS")
	a.Match = c.method("Parser", "match")
	a.Advance = c.method("Parser", "advance")
	a.Current = c.method("Parser", "current")
	a.Lookahead = c.method("Parser", "lookahead")
	a.LookTok = c.method("Parser", "lookaheadToken")
	a.Tokenize = c.method("Lexer", "tokenize")
	a.Compile = c.libFunc("Compile")
	a.MustCompile = c.libFunc("MustCompile")
	a.Search = c.libFunc("Search")
	a.JPSearch = c.method("JMESPath", "Search")
	a.NewParser = c.libFunc("NewParser")
	a.NewLexer = c.libFunc("NewLexer")
	a.NewInterp = c.libFunc("newInterpreter")
	a.NewFCaller = c.libFunc("newFunctionCaller")
	a.CallFunction = c.method("functionCaller", "CallFunction")
	a.ResolveArgs = c.method("functionEntry", "resolveArgs")
	a.TypeCheck = c.method("argSpec", "typeCheck")
	a.IsFalse = c.libFunc("isFalse")
	a.ObjsEqual = c.libFunc("objsEqual")
	a.IsSliceType = c.libFunc("isSliceType")

	// the precedence table by type: the package-level map[tokType]int
	for _, m := range c.SLib.Members {
		g, ok := m.(*ssa.Global)
		if !ok {
			continue
		}
		mt, ok := g.Type().(*types.Pointer).Elem().Underlying().(*types.Map)
		if !ok {
			continue
		}
		if types.Identical(mt.Key(), a.TokT) && types.Identical(mt.Elem(), types.Typ[types.Int]) {
			if a.BindingPowers != nil {
				lost("two map[tokType]int globals")
			}
			a.BindingPowers = g
		}
	}
	// (no map: the precedence may be a pure function, see Ctx.power)
	return a
}

// evalFunctionTable constant-evaluates the composite literal of type
// map[string]functionEntry in the function that builds the function caller.
func evalFunctionTable(c *Ctx, a *Anchors) []*TableEntry {
	var lit *ast.CompositeLit
	info := c.Lib.TypesInfo
	want := types.NewMap(types.Typ[types.String], a.FEntryT)
	for _, f := range c.Lib.Syntax {
		ast.Inspect(f, func(n ast.Node) bool {
			cl, ok := n.(*ast.CompositeLit)
			if !ok {
				return true
			}
			if tv, ok := info.Types[cl]; ok && types.Identical(tv.Type, want) {
				if lit != nil {
					lost("two function table literals")
				}
				lit = cl
				return false
			}
			return true
		})
	}
	if lit == nil || os.Getenv("JPCHECK_TABLE_ABS") != "" {
		// not written as one map literal: evaluate the constructor instead
		return evalFunctionTableAbs(c, a)
	}
	var out []*TableEntry
	for _, el := range lit.Elts {
		kv, ok := el.(*ast.KeyValueExpr)
		if !ok {
			lost("function table element is not key: value")
		}
		ktv := info.Types[kv.Key]
		if ktv.Value == nil {
			lost("function table key at %s is not constant", c.pos(kv.Key.Pos()))
		}
		e := &TableEntry{Key: constant.StringVal(ktv.Value), Pos: c.pos(kv.Pos())}
		ev, ok := kv.Value.(*ast.CompositeLit)
		if !ok {
			lost("function table value at %s is not a literal", c.pos(kv.Value.Pos()))
		}
		for _, fe := range ev.Elts {
			fkv, ok := fe.(*ast.KeyValueExpr)
			if !ok {
				lost("function entry %q uses positional fields", e.Key)
			}
			switch fkv.Key.(*ast.Ident).Name {
			case "name":
				tv := info.Types[fkv.Value]
				if tv.Value == nil {
					lost("entry %q: name not constant", e.Key)
				}
				e.Name = constant.StringVal(tv.Value)
			case "hasExpRef":
				tv := info.Types[fkv.Value]
				if tv.Value == nil {
					lost("entry %q: hasExpRef not constant", e.Key)
				}
				e.HasExpRef = constant.BoolVal(tv.Value)
			case "handler":
				id, ok := fkv.Value.(*ast.Ident)
				if !ok {
					lost("entry %q: handler is not a function name", e.Key)
				}
				fo, ok := info.Uses[id].(*types.Func)
				if !ok {
					lost("entry %q: handler is not a function", e.Key)
				}
				e.Handler = c.Prog.FuncValue(fo)
			case "arguments":
				al, ok := fkv.Value.(*ast.CompositeLit)
				if !ok {
					lost("entry %q: arguments not a literal", e.Key)
				}
				for _, ae := range al.Elts {
					sl, ok := ae.(*ast.CompositeLit)
					if !ok {
						lost("entry %q: arg spec not a literal", e.Key)
					}
					var spec ArgSpecV
					for _, se := range sl.Elts {
						skv, ok := se.(*ast.KeyValueExpr)
						if !ok {
							lost("entry %q: positional arg spec", e.Key)
						}
						switch skv.Key.(*ast.Ident).Name {
						case "types":
							tl, ok := skv.Value.(*ast.CompositeLit)
							if !ok {
								lost("entry %q: types not a literal", e.Key)
							}
							for _, te := range tl.Elts {
								tv := info.Types[te]
								if tv.Value == nil {
									lost("entry %q: type not constant", e.Key)
								}
								spec.Types = append(spec.Types, constant.StringVal(tv.Value))
							}
						case "variadic":
							tv := info.Types[skv.Value]
							if tv.Value == nil {
								lost("entry %q: variadic not constant", e.Key)
							}
							spec.Variadic = constant.BoolVal(tv.Value)
						}
					}
					e.Args = append(e.Args, spec)
				}
			}
		}
		out = append(out, e)
	}
	sort.Slice(out, func(i, j int) bool { return out[i].Key < out[j].Key })
	return out
}

// table: the evaluated function table (resolved on first use, so that rules
// that do not need it are not affected when its shape is not recognised).
func (c *Ctx) table() []*TableEntry {
	if !c.tableDone {
		c.A.Table = evalFunctionTable(c, c.A)
		c.tableDone = true
		if os.Getenv("JPCHECK_TABLE_DUMP") != "" {
			for _, e := range c.A.Table {
				fmt.Fprintf(os.Stderr, "TABLE %s name=%s handler=%s expref=%v args=%+v\n", e.Key, e.Name, e.Handler.Name(), e.HasExpRef, e.Args)
			}
		}
	}
	return c.A.Table
}

// evalFunctionTableAbs evaluates the function table by interpreting the
// constructor of the function caller abstractly (no code runs): registration
// lists, helper constructors, loops that fill the map and variadic argument
// lists are looked through; the result is read off the abstract heap. Every
// piece must come out constant, or the anchor is lost.
func evalFunctionTableAbs(c *Ctx, a *Anchors) []*TableEntry {
	x := c.newExec(UJSON, "function table constructor")
	x.tableMode = true
	x.limit = 2000000
	var result *AV
	var heap *Heap
	n := 0
	x.run(a.NewFCaller, nil, newHeap(), pathInfo{}, func(rets []AV, h *Heap, p pathInfo, fin *frame) {
		n++
		if len(rets) == 1 {
			r := rets[0]
			result, heap = &r, h
		}
	})
	if n != 1 || result == nil {
		lost("function table: the constructor %s has %d return paths under abstract evaluation (expected one)", fname(a.NewFCaller), n)
	}
	if len(x.gaps) > 0 {
		for g := range x.gaps {
			lost("function table: constructor not evaluable: %s", g)
		}
	}
	// the map[string]functionEntry reachable from the returned object
	var tbl *aobj
	var find func(v AV, depth int)
	seen := map[int]bool{}
	find = func(v AV, depth int) {
		if tbl != nil || depth > 4 || v.obj == 0 || seen[v.obj] {
			return
		}
		seen[v.obj] = true
		o := heap.objs[v.obj]
		if o == nil {
			return
		}
		if o.kind == 'm' && o.ents != nil {
			tbl = o
			return
		}
		for _, f := range o.fields {
			find(f, depth+1)
		}
		find(o.v, depth+1)
	}
	find(*result, 0)
	if tbl == nil {
		lost("function table: no constant-keyed map reachable from what %s returns", fname(a.NewFCaller))
	}
	fi := func(name string) int { return fieldIndex(a.FEntryT, name) }
	ai := func(name string) int { return fieldIndex(a.ArgSpecT, name) }
	listElems := func(v AV, what string) []AV {
		if v.k == 'L' && v.tri == 1 {
			return nil
		}
		if v.k != 'L' || v.obj == 0 || heap.objs[v.obj] == nil || heap.objs[v.obj].kind != 'l' {
			lost("function table: %s is not a constant list", what)
		}
		return heap.objs[v.obj].elems
	}
	var out []*TableEntry
	for _, key := range tbl.entKeys {
		ev := tbl.ents[key]
		if ev.k != 'G' || ev.agg == nil {
			lost("function table: entry %q is not a struct value", key)
		}
		f := ev.agg.fields
		if os.Getenv("JPCHECK_TABLE_DUMP") != "" && key == "map" {
			for i, fv := range f {
				fmt.Fprintf(os.Stderr, "MAPENTRY field %d: %s (k=%c tri=%d)\n", i, fv.String(), fv.k, fv.tri)
			}
		}
		e := &TableEntry{Key: key, Pos: c.pos(tbl.entPos[key])}
		if nm := f[fi("name")]; nm.k == 'S' && nm.sk {
			e.Name = nm.s
		} else {
			lost("function table: entry %q: name not constant", key)
		}
		if h := f[fi("handler")]; h.k == 'U' && h.fn != nil {
			e.Handler = h.fn
		} else {
			lost("function table: entry %q: handler is not a named function", key)
		}
		switch hb := f[fi("hasExpRef")]; {
		case hb.k == 'B' && hb.tri == 1:
			e.HasExpRef = true
		case hb.k == 'B' && hb.tri == 2:
		default:
			lost("function table: entry %q: hasExpRef not constant", key)
		}
		for _, sv := range listElems(f[fi("arguments")], "arguments of "+key) {
			if sv.k != 'G' || sv.agg == nil {
				lost("function table: entry %q: argument specification is not a struct value", key)
			}
			var spec ArgSpecV
			for _, tv := range listElems(sv.agg.fields[ai("types")], "types of "+key) {
				if tv.k != 'S' || !tv.sk {
					lost("function table: entry %q: type not constant", key)
				}
				spec.Types = append(spec.Types, tv.s)
			}
			switch vb := sv.agg.fields[ai("variadic")]; {
			case vb.k == 'B' && vb.tri == 1:
				spec.Variadic = true
			case vb.k == 'B' && vb.tri == 2:
			default:
				lost("function table: entry %q: variadic not constant", key)
			}
			e.Args = append(e.Args, spec)
		}
		out = append(out, e)
	}
	if len(out) == 0 {
		lost("function table: empty")
	}
	sort.Slice(out, func(i, j int) bool { return out[i].Key < out[j].Key })
	return out
}
