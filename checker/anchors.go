package main

import (
	"fmt"
	"go/ast"
	"go/constant"
	"go/types"
	"os"
	"sort"

	"golang.org/x/tools/go/ssa"
)

// Anchors are the constructs the rules hang on, resolved by type and role.
type Anchors struct {
	ASTNode   *types.Named
	NodeTypeT *types.Named
	TokT      *types.Named
	JPTypeT   *types.Named
	ExpRefT   *types.Named
	InterpT   *types.Named
	ParserT   *types.Named
	LexerT    *types.Named
	// the type itself and the library structs it embeds (state moved into an
	// embedded struct keeps its role)
	ParserFam map[*types.Named]bool
	// Deferred: why the function anchors could not be resolved ("" = resolved);
	// raised when a rule that needs them runs
	Deferred  string
	LexerFam  map[*types.Named]bool
	SynErrT   *types.Named
	JMESPathT *types.Named
	FEntryT   *types.Named
	ArgSpecT  *types.Named
	TokenT    *types.Named
	FCallerT  *types.Named

	NodeTypes []namedConst
	Toks      []namedConst
	JPTypes   []namedConst
	Tok       map[string]int64
	TokName   map[int64]string
	NT        map[string]int64
	NTName    map[int64]string

	Exec    *ssa.Function   // the evaluator
	ExecSw  *EnumSwitch     // its switch over astNodeType
	Helpers []*ssa.Function // evaluator helpers taking the interpreter receiver

	Parse, ParseExpr, Nud, Led                  *ssa.Function
	ParseProjRHS, ParseDotRHS                   *ssa.Function
	Match, Advance, Current, Lookahead, LookTok *ssa.Function
	Tokenize                                    *ssa.Function
	Compile, MustCompile, Search, JPSearch      *ssa.Function
	NewParser, NewLexer, NewInterp, NewFCaller  *ssa.Function
	CallFunction, ResolveArgs, TypeCheck        *ssa.Function
	IsFalse, ObjsEqual, IsSliceType             *ssa.Function
	BindingPowers                               *ssa.Global

	Table []*TableEntry // the evaluated function table
}

type ArgSpecV struct {
	Types    []string // jpType constant values ("number", ...)
	Variadic bool
}

type TableEntry struct {
	Key       string
	Name      string
	Args      []ArgSpecV
	Handler   *ssa.Function
	HasExpRef bool
	Pos       string
}

// structFamily: T and, transitively, the library struct types it embeds.
func structFamily(T *types.Named) map[*types.Named]bool {
	fam := map[*types.Named]bool{}
	var walk func(n *types.Named)
	walk = func(n *types.Named) {
		if n == nil || fam[n] {
			return
		}
		st, ok := n.Underlying().(*types.Struct)
		if !ok {
			return
		}
		fam[n] = true
		for i := 0; i < st.NumFields(); i++ {
			f := st.Field(i)
			if !f.Embedded() {
				continue
			}
			t := f.Type()
			if pt, ok := t.(*types.Pointer); ok {
				t = pt.Elem()
			}
			if m, ok := t.(*types.Named); ok && m.Obj().Pkg() == T.Obj().Pkg() {
				walk(m)
			}
		}
	}
	walk(T)
	return fam
}

// inFam: t (or what it points to) is a member of the family.
func inFam(fam map[*types.Named]bool, t types.Type) bool {
	if pt, ok := t.Underlying().(*types.Pointer); ok {
		t = pt.Elem()
	}
	if pt, ok := t.(*types.Pointer); ok {
		t = pt.Elem()
	}
	n, ok := t.(*types.Named)
	return ok && fam[n]
}

func fieldIndex(n *types.Named, name string) int {
	st, ok := n.Underlying().(*types.Struct)
	if !ok {
		lost("%s is not a struct", n.Obj().Name())
	}
	// by role first (the conventional name is the role's id), then by name
	if m, ok := fieldRoles[n]; ok {
		for i, r := range m {
			if r == name {
				return i
			}
		}
	}
	for i := 0; i < st.NumFields(); i++ {
		if st.Field(i).Name() == name {
			return i
		}
	}
	lost("%s has no field %s", n.Obj().Name(), name)
	return -1
}

// fieldIndexOpt: as fieldIndex, -1 when the struct has no field of that role or name.
func fieldIndexOpt(n *types.Named, name string) int {
	st, ok := n.Underlying().(*types.Struct)
	if !ok {
		return -1
	}
	if m, ok := fieldRoles[n]; ok {
		for i, r := range m {
			if r == name {
				return i
			}
		}
	}
	for i := 0; i < st.NumFields(); i++ {
		if st.Field(i).Name() == name {
			return i
		}
	}
	return -1
}

func resolveAnchors(c *Ctx) *Anchors {
	a := &Anchors{}
	c.resolveTypeAnchors(a)

	a.NodeTypes = c.constsOf(c.Lib, a.NodeTypeT)
	a.Toks = c.constsOf(c.Lib, a.TokT)
	a.JPTypes = c.constsOf(c.Lib, a.JPTypeT)
	a.Tok, a.TokName = map[string]int64{}, map[int64]string{}
	for _, k := range a.Toks {
		a.Tok[k.Name] = k.Val
		a.TokName[k.Val] = k.Name
	}
	a.NT, a.NTName = map[string]int64{}, map[int64]string{}
	for _, k := range a.NodeTypes {
		a.NT[k.Name] = k.Val
		a.NTName[k.Val] = k.Name
	}
	if len(a.NodeTypes) < 22 || len(a.Toks) < 30 || len(a.JPTypes) < 8 {
		lost("enumerations too small: %d node types, %d tokens, %d jp types", len(a.NodeTypes), len(a.Toks), len(a.JPTypes))
	}

	// evaluator by role: method of *treeInterpreter (ASTNode, interface{}) (interface{}, error)
	// that switches on an astNodeType.
	for _, f := range allFuncs(c.SLib) {
		sig := f.Signature
		if sig.Recv() == nil || sig.Params().Len() != 2 || sig.Results().Len() != 2 {
			continue
		}
		if !types.Identical(sig.Params().At(0).Type(), a.ASTNode) {
			continue
		}
		if _, ok := sig.Params().At(1).Type().Underlying().(*types.Interface); !ok {
			continue
		}
		sws := c.enumSwitches(c.Lib, f, a.NodeTypeT)
		if len(sws) == 0 {
			continue
		}
		if a.Exec != nil {
			lost("two candidate evaluators: %s and %s", fname(a.Exec), fname(f))
		}
		a.Exec = f
		a.ExecSw = sws[0]
	}
	if a.Exec == nil {
		// fatal for every rule that looks at the library's evaluator, parser or
		// lexer through these anchors; the command-line rule does not
		a.Deferred = "evaluator (method switching on astNodeType) not found"
		return a
	}
	for _, f := range allFuncs(c.SLib) {
		if f == a.Exec || f.Signature.Recv() == nil {
			continue
		}
		rt := f.Signature.Recv().Type()
		if p, ok := rt.(*types.Pointer); ok && types.Identical(p.Elem(), a.InterpT) {
			a.Helpers = append(a.Helpers, f)
		}
	}

	c.resolveFuncAnchors(a)

	// the precedence table by type: the package-level map[tokType]int
	for _, m := range c.SLib.Members {
		g, ok := m.(*ssa.Global)
		if !ok {
			continue
		}
		mt, ok := g.Type().(*types.Pointer).Elem().Underlying().(*types.Map)
		if !ok {
			continue
		}
		if types.Identical(mt.Key(), a.TokT) && isPlainInt(mt.Elem()) && !types.Identical(mt.Elem(), a.TokT) {
			if a.BindingPowers != nil {
				lost("two map[tokType]int globals")
			}
			a.BindingPowers = g
		}
	}
	// or a package-level array / slice of int that parseExpression indexes with a token
	if a.BindingPowers == nil && a.ParseExpr != nil {
		for _, b := range a.ParseExpr.Blocks {
			for _, in := range b.Instrs {
				ia, ok := in.(*ssa.IndexAddr)
				if !ok || !types.Identical(ia.Index.Type(), a.TokT) {
					continue
				}
				g := rootGlobal(ia.X)
				if g == nil || g.Pkg != c.SLib {
					continue
				}
				var et types.Type
				switch t := g.Type().(*types.Pointer).Elem().Underlying().(type) {
				case *types.Array:
					et = t.Elem()
				case *types.Slice:
					et = t.Elem()
				}
				if et == nil || !isPlainInt(et) || types.Identical(et, a.TokT) {
					continue
				}
				if a.BindingPowers != nil && a.BindingPowers != g {
					lost("parseExpression indexes two int tables with a token")
				}
				a.BindingPowers = g
			}
		}
	}
	// (no table: the precedence may be a pure function, see Ctx.power)
	return a
}

// evalFunctionTable constant-evaluates the composite literal of type
// map[string]functionEntry in the function that builds the function caller.
func evalFunctionTable(c *Ctx, a *Anchors) []*TableEntry {
	var lit *ast.CompositeLit
	info := c.Lib.TypesInfo
	want := types.NewMap(types.Typ[types.String], a.FEntryT)
	for _, f := range c.Lib.Syntax {
		ast.Inspect(f, func(n ast.Node) bool {
			cl, ok := n.(*ast.CompositeLit)
			if !ok {
				return true
			}
			if tv, ok := info.Types[cl]; ok && types.Identical(tv.Type, want) {
				if lit != nil {
					lost("two function table literals")
				}
				lit = cl
				return false
			}
			return true
		})
	}
	if lit == nil || os.Getenv("JPCHECK_TABLE_ABS") != "" {
		// not written as one map literal: evaluate the constructor instead
		return evalFunctionTableAbs(c, a)
	}
	var out []*TableEntry
	for _, el := range lit.Elts {
		kv, ok := el.(*ast.KeyValueExpr)
		if !ok {
			lost("function table element is not key: value")
		}
		ktv := info.Types[kv.Key]
		if ktv.Value == nil {
			lost("function table key at %s is not constant", c.pos(kv.Key.Pos()))
		}
		e := &TableEntry{Key: constant.StringVal(ktv.Value), Pos: c.pos(kv.Pos())}
		ev, ok := kv.Value.(*ast.CompositeLit)
		if !ok {
			lost("function table value at %s is not a literal", c.pos(kv.Value.Pos()))
		}
		for _, fe := range ev.Elts {
			fkv, ok := fe.(*ast.KeyValueExpr)
			if !ok {
				lost("function entry %q uses positional fields", e.Key)
			}
			switch litFieldRole(info, fkv.Key, a.FEntryT) {
			case "name":
				tv := info.Types[fkv.Value]
				if tv.Value == nil {
					lost("entry %q: name not constant", e.Key)
				}
				e.Name = constant.StringVal(tv.Value)
			case "hasExpRef":
				tv := info.Types[fkv.Value]
				if tv.Value == nil {
					lost("entry %q: hasExpRef not constant", e.Key)
				}
				e.HasExpRef = constant.BoolVal(tv.Value)
			case "handler":
				id, ok := fkv.Value.(*ast.Ident)
				if !ok {
					lost("entry %q: handler is not a function name", e.Key)
				}
				fo, ok := info.Uses[id].(*types.Func)
				if !ok {
					lost("entry %q: handler is not a function", e.Key)
				}
				e.Handler = c.Prog.FuncValue(fo)
			case "arguments":
				al, ok := fkv.Value.(*ast.CompositeLit)
				if !ok {
					lost("entry %q: arguments not a literal", e.Key)
				}
				for _, ae := range al.Elts {
					sl, ok := ae.(*ast.CompositeLit)
					if !ok {
						lost("entry %q: arg spec not a literal", e.Key)
					}
					var spec ArgSpecV
					for _, se := range sl.Elts {
						skv, ok := se.(*ast.KeyValueExpr)
						if !ok {
							lost("entry %q: positional arg spec", e.Key)
						}
						switch litFieldRole(info, skv.Key, a.ArgSpecT) {
						case "types":
							tl, ok := skv.Value.(*ast.CompositeLit)
							if !ok {
								lost("entry %q: types not a literal", e.Key)
							}
							for _, te := range tl.Elts {
								tv := info.Types[te]
								if tv.Value == nil {
									lost("entry %q: type not constant", e.Key)
								}
								spec.Types = append(spec.Types, constant.StringVal(tv.Value))
							}
						case "variadic":
							tv := info.Types[skv.Value]
							if tv.Value == nil {
								lost("entry %q: variadic not constant", e.Key)
							}
							spec.Variadic = constant.BoolVal(tv.Value)
						}
					}
					e.Args = append(e.Args, spec)
				}
			}
		}
		out = append(out, e)
	}
	sort.Slice(out, func(i, j int) bool { return out[i].Key < out[j].Key })
	return out
}

// table: the evaluated function table (resolved on first use, so that rules
// that do not need it are not affected when its shape is not recognised).
func (c *Ctx) table() []*TableEntry {
	if !c.tableDone {
		c.A.Table = evalFunctionTable(c, c.A)
		c.tableDone = true
		if os.Getenv("JPCHECK_TABLE_DUMP") != "" {
			for _, e := range c.A.Table {
				fmt.Fprintf(os.Stderr, "TABLE %s name=%s handler=%s expref=%v args=%+v\n", e.Key, e.Name, e.Handler.Name(), e.HasExpRef, e.Args)
			}
		}
	}
	return c.A.Table
}

// evalFunctionTableAbs evaluates the function table by interpreting the
// constructor of the function caller abstractly (no code runs): registration
// lists, helper constructors, loops that fill the map and variadic argument
// lists are looked through; the result is read off the abstract heap. Every
// piece must come out constant, or the anchor is lost.
func evalFunctionTableAbs(c *Ctx, a *Anchors) []*TableEntry {
	x := c.newExec(UJSON, "function table constructor")
	x.tableMode = true
	x.limit = 2000000
	var result *AV
	var heap *Heap
	n := 0
	x.run(a.NewFCaller, nil, newHeap(), pathInfo{}, func(rets []AV, h *Heap, p pathInfo, fin *frame) {
		n++
		if len(rets) == 1 {
			r := rets[0]
			result, heap = &r, h
		}
	})
	if n != 1 || result == nil {
		lost("function table: the constructor %s has %d return paths under abstract evaluation (expected one)", fname(a.NewFCaller), n)
	}
	if len(x.gaps) > 0 {
		for g := range x.gaps {
			lost("function table: constructor not evaluable: %s", g)
		}
	}
	// the map[string]functionEntry reachable from the returned object
	var tbl *aobj
	var find func(v AV, depth int)
	seen := map[int]bool{}
	find = func(v AV, depth int) {
		if tbl != nil || depth > 4 || v.obj == 0 || seen[v.obj] {
			return
		}
		seen[v.obj] = true
		o := heap.objs[v.obj]
		if o == nil {
			return
		}
		if o.kind == 'm' && o.ents != nil {
			tbl = o
			return
		}
		for _, f := range o.fields {
			find(f, depth+1)
		}
		find(o.v, depth+1)
	}
	find(*result, 0)
	if tbl == nil {
		lost("function table: no constant-keyed map reachable from what %s returns", fname(a.NewFCaller))
	}
	fi := func(name string) int { return fieldIndex(a.FEntryT, name) }
	ai := func(name string) int { return fieldIndex(a.ArgSpecT, name) }
	listElems := func(v AV, what string) []AV {
		if v.k == 'L' && v.tri == 1 {
			return nil
		}
		if v.k != 'L' || v.obj == 0 || heap.objs[v.obj] == nil || heap.objs[v.obj].kind != 'l' {
			lost("function table: %s is not a constant list", what)
		}
		return heap.objs[v.obj].elems
	}
	var out []*TableEntry
	for _, key := range tbl.entKeys {
		ev := tbl.ents[key]
		if ev.k != 'G' || ev.agg == nil {
			lost("function table: entry %q is not a struct value", key)
		}
		f := ev.agg.fields
		if os.Getenv("JPCHECK_TABLE_DUMP") != "" && key == "map" {
			for i, fv := range f {
				fmt.Fprintf(os.Stderr, "MAPENTRY field %d: %s (k=%c tri=%d)\n", i, fv.String(), fv.k, fv.tri)
			}
		}
		e := &TableEntry{Key: key, Pos: c.pos(tbl.entPos[key])}
		if nm := f[fi("name")]; nm.k == 'S' && nm.sk {
			e.Name = nm.s
		} else {
			lost("function table: entry %q: name not constant", key)
		}
		if h := f[fi("handler")]; h.k == 'U' && h.fn != nil {
			e.Handler = h.fn
		} else {
			lost("function table: entry %q: handler is not a named function", key)
		}
		if hi := fieldIndexOpt(a.FEntryT, "hasExpRef"); hi >= 0 {
			switch hb := f[hi]; {
			case hb.k == 'B' && hb.tri == 1:
				e.HasExpRef = true
			case hb.k == 'B' && hb.tri == 2:
			default:
				lost("function table: entry %q: hasExpRef not constant", key)
			}
		}
		for _, sv := range listElems(f[fi("arguments")], "arguments of "+key) {
			if sv.k != 'G' || sv.agg == nil {
				lost("function table: entry %q: argument specification is not a struct value", key)
			}
			var spec ArgSpecV
			for _, tv := range listElems(sv.agg.fields[ai("types")], "types of "+key) {
				if tv.k != 'S' || !tv.sk {
					lost("function table: entry %q: type not constant", key)
				}
				spec.Types = append(spec.Types, tv.s)
			}
			switch vb := sv.agg.fields[ai("variadic")]; {
			case vb.k == 'B' && vb.tri == 1:
				spec.Variadic = true
			case vb.k == 'B' && vb.tri == 2:
			default:
				lost("function table: entry %q: variadic not constant", key)
			}
			e.Args = append(e.Args, spec)
		}
		out = append(out, e)
	}
	if len(out) == 0 {
		lost("function table: empty")
	}
	sort.Slice(out, func(i, j int) bool { return out[i].Key < out[j].Key })
	return out
}

// resolveFuncAnchors finds the functions the rules hang on by ROLE: receiver
// type, signature and one structural trait each. The conventional name only
// breaks ties, so renaming an unexported function or method does not lose it.
func (c *Ctx) resolveFuncAnchors(a *Anchors) {
	iface := func(t types.Type) bool { _, ok := t.Underlying().(*types.Interface); return ok }
	recvIs := func(f *ssa.Function, T *types.Named) bool {
		if f.Signature.Recv() == nil {
			return false
		}
		t := f.Signature.Recv().Type()
		if pt, ok := t.(*types.Pointer); ok {
			t = pt.Elem()
		}
		if T == a.ParserT {
			return inFam(a.ParserFam, t)
		}
		if T == a.LexerT {
			return inFam(a.LexerFam, t)
		}
		return types.Identical(t, T)
	}
	sig := func(f *ssa.Function, params []func(types.Type) bool, results []func(types.Type) bool) bool {
		p, r := f.Signature.Params(), f.Signature.Results()
		if p.Len() != len(params) || r.Len() != len(results) {
			return false
		}
		for i, ok := range params {
			if !ok(p.At(i).Type()) {
				return false
			}
		}
		for i, ok := range results {
			if !ok(r.At(i).Type()) {
				return false
			}
		}
		return true
	}
	is := func(T types.Type) func(types.Type) bool {
		return func(t types.Type) bool { return types.Identical(t, T) }
	}
	_, isStr, isBool := is(types.Typ[types.Int]), is(types.Typ[types.String]), is(types.Typ[types.Bool])
	// int, or a named type over int that is not one of the enumerations (a `precedence` type)
	isInt := func(t types.Type) bool {
		if types.Identical(t, a.TokT) || types.Identical(t, a.NodeTypeT) || types.Identical(t, a.JPTypeT) {
			return false
		}
		b, ok := t.Underlying().(*types.Basic)
		return ok && b.Kind() == types.Int
	}
	isErr := func(t types.Type) bool { return isErrorType(t) }
	isNode, isTok, isToken := is(a.ASTNode), is(a.TokT), is(a.TokenT)
	isRune := is(types.Typ[types.Rune])
	all := allFuncs(c.SLib)
	// pick: the candidates of a role; one => it; several => the one with the conventional name
	pick := func(role, name string, cands []*ssa.Function) *ssa.Function {
		var named *ssa.Function
		uniq := map[*ssa.Function]bool{}
		var list []*ssa.Function
		for _, f := range cands {
			if f != nil && !uniq[f] {
				uniq[f] = true
				list = append(list, f)
				if f.Name() == name {
					named = f
				}
			}
		}
		switch {
		case len(list) == 1:
			return list[0]
		case named != nil:
			return named
		case len(list) == 0:
			lost("%s (conventionally %s): no function has that role", role, name)
		default:
			var ns []string
			for _, f := range list {
				ns = append(ns, f.Name())
			}
			sort.Strings(ns)
			lost("%s (conventionally %s): several functions have that role: %v", role, name, ns)
		}
		return nil
	}
	where := func(pred func(f *ssa.Function) bool) []*ssa.Function {
		var out []*ssa.Function
		for _, f := range all {
			if f.Blocks != nil && f.Parent() == nil && pred(f) {
				out = append(out, f)
			}
		}
		return out
	}
	writesField := func(f *ssa.Function, T *types.Named, field string) bool {
		for _, b := range f.Blocks {
			for _, in := range b.Instrs {
				if st, ok := in.(*ssa.Store); ok {
					if fa, ok := st.Addr.(*ssa.FieldAddr); ok {
						if pt, ok := fa.X.Type().Underlying().(*types.Pointer); ok && (types.Identical(pt.Elem(), T) || (T == a.ParserT && inFam(a.ParserFam, pt.Elem())) || (T == a.LexerT && inFam(a.LexerFam, pt.Elem()))) && fieldName(pt.Elem(), fa.Field) == field {
							return true
						}
					}
				}
			}
		}
		return false
	}
	calls := func(f, g *ssa.Function) bool { return g != nil && len(callsTo(f, g)) > 0 }

	// ---- Parser
	P := a.ParserT
	a.Nud = pick("the prefix handler of the parser: method (token) (ASTNode, error)", "nud",
		where(func(f *ssa.Function) bool {
			return recvIs(f, P) && sig(f, []func(types.Type) bool{isToken}, []func(types.Type) bool{isNode, isErr})
		}))
	a.Led = pick("the infix handler of the parser: method (tokType, ASTNode) (ASTNode, error)", "led",
		where(func(f *ssa.Function) bool {
			return recvIs(f, P) && sig(f, []func(types.Type) bool{isTok, isNode}, []func(types.Type) bool{isNode, isErr})
		}))
	intToNode := where(func(f *ssa.Function) bool {
		return recvIs(f, P) && sig(f, []func(types.Type) bool{isInt}, []func(types.Type) bool{isNode, isErr})
	})
	var pe, others []*ssa.Function
	for _, f := range intToNode {
		if calls(f, a.Nud) && calls(f, a.Led) {
			pe = append(pe, f)
		} else {
			others = append(others, f)
		}
	}
	a.ParseExpr = pick("the Pratt loop: method (int) (ASTNode, error) calling both handlers", "parseExpression", pe)
	buildsIdentity := func(f *ssa.Function) bool {
		for _, b := range f.Blocks {
			for _, in := range b.Instrs {
				if st, ok := in.(*ssa.Store); ok {
					if fa, ok := st.Addr.(*ssa.FieldAddr); ok && fa.Field == 0 && func() bool {
						pt, ok := fa.X.Type().(*types.Pointer)
						return ok && types.Identical(pt.Elem(), a.ASTNode)
					}() {
						if k, ok := constInt(st.Val); ok && a.NTName[k] == "ASTIdentity" {
							return true
						}
					}
				}
			}
		}
		return false
	}
	var proj, dot []*ssa.Function
	for _, f := range others {
		if buildsIdentity(f) {
			proj = append(proj, f)
		} else {
			dot = append(dot, f)
		}
	}
	if len(proj) == 0 {
		// the right-hand side parser may take no power at all (one fixed power inside)
		for _, f := range where(func(f *ssa.Function) bool {
			return recvIs(f, P) && sig(f, nil, []func(types.Type) bool{isNode, isErr})
		}) {
			if buildsIdentity(f) && calls(f, a.ParseExpr) {
				proj = append(proj, f)
			}
		}
	}
	a.ParseProjRHS = pick("the projection right-hand side: method (int) (ASTNode, error) that can yield the identity node", "parseProjectionRHS", proj)
	a.ParseDotRHS = pick("the right-hand side of a dot: method (int) (ASTNode, error)", "parseDotRHS", dot)
	a.Parse = pick("Parser.Parse: method (string) (ASTNode, error)", "Parse",
		where(func(f *ssa.Function) bool {
			return recvIs(f, P) && sig(f, []func(types.Type) bool{isStr}, []func(types.Type) bool{isNode, isErr})
		}))
	a.Match = pick("match: method (tokType) error", "match",
		where(func(f *ssa.Function) bool {
			return recvIs(f, P) && sig(f, []func(types.Type) bool{isTok}, []func(types.Type) bool{isErr})
		}))
	a.Advance = pick("advance: method () of the parser that moves the token cursor", "advance",
		where(func(f *ssa.Function) bool { return recvIs(f, P) && sig(f, nil, nil) && writesField(f, P, "index") }))
	a.Current = pick("current: method () tokType", "current",
		where(func(f *ssa.Function) bool { return recvIs(f, P) && sig(f, nil, []func(types.Type) bool{isTok}) }))
	a.Lookahead = pick("lookahead: method (int) tokType", "lookahead",
		where(func(f *ssa.Function) bool {
			return recvIs(f, P) && sig(f, []func(types.Type) bool{isInt}, []func(types.Type) bool{isTok})
		}))
	a.LookTok = pick("lookaheadToken: method (int) token", "lookaheadToken",
		where(func(f *ssa.Function) bool {
			return recvIs(f, P) && sig(f, []func(types.Type) bool{isInt}, []func(types.Type) bool{isToken})
		}))

	// ---- Lexer
	L := a.LexerT
	isTokSlice := func(t types.Type) bool {
		sl, ok := t.Underlying().(*types.Slice)
		return ok && types.Identical(sl.Elem(), a.TokenT)
	}
	a.Tokenize = pick("tokenize: method (string) ([]token, error)", "tokenize",
		where(func(f *ssa.Function) bool {
			return recvIs(f, L) && sig(f, []func(types.Type) bool{isStr}, []func(types.Type) bool{isTokSlice, isErr})
		}))

	// ---- API and constructors (exported names are the API; unexported by result type)
	a.Compile = c.libFunc("Compile")
	a.MustCompile = c.libFunc("MustCompile")
	a.Search = c.libFunc("Search")
	a.JPSearch = c.method("JMESPath", "Search")
	a.NewParser = c.libFunc("NewParser")
	a.NewLexer = c.libFunc("NewLexer")
	ptrTo := func(T *types.Named) func(types.Type) bool {
		return func(t types.Type) bool {
			pt, ok := t.(*types.Pointer)
			return ok && types.Identical(pt.Elem(), T)
		}
	}
	fcT := a.FCallerT
	a.NewInterp = pick("constructor of the interpreter: func() *treeInterpreter", "newInterpreter",
		where(func(f *ssa.Function) bool {
			return f.Signature.Recv() == nil && sig(f, nil, []func(types.Type) bool{ptrTo(a.InterpT)})
		}))
	a.NewFCaller = pick("constructor of the function caller: func() *functionCaller", "newFunctionCaller",
		where(func(f *ssa.Function) bool {
			r := f.Signature.Results()
			return f.Signature.Recv() == nil && r.Len() == 1 && ptrTo(fcT)(r.At(0).Type())
		}))
	isIfaceSlice := func(t types.Type) bool {
		sl, ok := t.Underlying().(*types.Slice)
		return ok && iface(sl.Elem())
	}
	a.CallFunction = pick("CallFunction: method of the function caller (string, []interface{}, ...) (interface{}, error)", "CallFunction",
		where(func(f *ssa.Function) bool {
			p := f.Signature.Params()
			return recvIs(f, fcT) && p.Len() >= 2 && isStr(p.At(0).Type()) && isIfaceSlice(p.At(1).Type()) &&
				f.Signature.Results().Len() == 2 && iface(f.Signature.Results().At(0).Type()) && isErr(f.Signature.Results().At(1).Type())
		}))
	a.ResolveArgs = pick("resolveArgs: method of a function entry ([]interface{}) ([]interface{}, error)", "resolveArgs",
		where(func(f *ssa.Function) bool {
			return recvIs(f, a.FEntryT) && sig(f, []func(types.Type) bool{isIfaceSlice}, []func(types.Type) bool{isIfaceSlice, isErr})
		}))
	a.TypeCheck = pick("typeCheck: method of an argument specification (interface{}) error", "typeCheck",
		where(func(f *ssa.Function) bool {
			return recvIs(f, a.ArgSpecT) && sig(f, []func(types.Type) bool{iface}, []func(types.Type) bool{isErr})
		}))
	a.ObjsEqual = pick("deep equality: func(interface{}, interface{}) bool", "objsEqual",
		where(func(f *ssa.Function) bool {
			return f.Signature.Recv() == nil && sig(f, []func(types.Type) bool{iface, iface}, []func(types.Type) bool{isBool})
		}))
	// truthiness and "is a slice": both func(interface{}) bool; the truth test is
	// the one the evaluator's negation clause calls
	preds := where(func(f *ssa.Function) bool {
		return f.Signature.Recv() == nil && sig(f, []func(types.Type) bool{iface}, []func(types.Type) bool{isBool})
	})
	var truth, rest []*ssa.Function
	if cl := a.ExecSw.clause("ASTNotExpression"); cl != nil {
		for _, f := range preds {
			used := false
			for _, call := range callsTo(a.Exec, f) {
				if a.ExecSw.clauseAt(instrPos(call)) == cl {
					used = true
				}
			}
			if used {
				truth = append(truth, f)
			} else {
				rest = append(rest, f)
			}
		}
	}
	if len(truth) == 0 {
		truth = preds
	}
	a.IsFalse = pick("the truth test: func(interface{}) bool used by the negation case", "isFalse", truth)
	if f := c.libFuncOpt("isSliceType"); f != nil {
		a.IsSliceType = f
	} else if len(rest) == 1 {
		a.IsSliceType = rest[0]
	}
	_ = isRune
}

// nodeProducerFn: the library function that builds nodes of the given type
// (the conventional name breaks ties between several).
func (c *Ctx) nodeProducerFn(nodeType, conventional string) *ssa.Function {
	k, ok := c.A.NT[nodeType]
	if !ok {
		lost("node type %s not found", nodeType)
	}
	seen := map[*ssa.Function]bool{}
	var cands []*ssa.Function
	for _, fn := range allFuncs(c.SLib) {
		for _, b := range fn.Blocks {
			for _, in := range b.Instrs {
				st, ok := in.(*ssa.Store)
				if !ok {
					continue
				}
				fa, ok := st.Addr.(*ssa.FieldAddr)
				if !ok || fa.Field != fNodeType || !c.isASTNodePtr(fa.X.Type()) {
					continue
				}
				if v, ok := constInt(st.Val); ok && v == k && types.Identical(st.Val.Type(), c.A.NodeTypeT) && !seen[fn] {
					seen[fn] = true
					cands = append(cands, fn)
				}
			}
		}
	}
	return pickOne("the function that builds "+nodeType+" nodes", conventional, cands)
}

// tokenProducerFn: the lexer function that emits tokens of the given type.
func (c *Ctx) tokenProducerFn(tok, conventional string) *ssa.Function {
	k := c.tok(tok)
	seen := map[*ssa.Function]bool{}
	var cands []*ssa.Function
	for _, fn := range allFuncs(c.SLib) {
		if fn == c.A.Tokenize {
			continue
		}
		for _, b := range fn.Blocks {
			for _, in := range b.Instrs {
				st, ok := in.(*ssa.Store)
				if !ok {
					continue
				}
				fa, ok := st.Addr.(*ssa.FieldAddr)
				if !ok || fa.Field != 0 {
					continue
				}
				if pt, ok := fa.X.Type().Underlying().(*types.Pointer); !ok || !types.Identical(pt.Elem(), c.A.TokenT) {
					continue
				}
				if v, ok := constInt(st.Val); ok && v == k && !seen[fn] {
					seen[fn] = true
					cands = append(cands, fn)
				}
			}
		}
	}
	return pickOne("the scanner that emits "+tok, conventional, cands)
}

func pickOne(role, name string, cands []*ssa.Function) *ssa.Function {
	if len(cands) == 1 {
		return cands[0]
	}
	for _, f := range cands {
		if f.Name() == name {
			return f
		}
	}
	var ns []string
	for _, f := range cands {
		ns = append(ns, f.Name())
	}
	sort.Strings(ns)
	lost("%s (conventionally %s): %d candidates %v", role, name, len(cands), ns)
	return nil
}

// sliceFns: the function that applies a slice to a list (called by the
// evaluator's slice case: ([]interface{}, params) ([]interface{}, error)) and
// the function it calls to compute the bounds (... ) ([]int-like, error).
func (c *Ctx) sliceFns() (sl, cp *ssa.Function) {
	isIfaceSlice := func(t types.Type) bool {
		s, ok := t.Underlying().(*types.Slice)
		if !ok {
			return false
		}
		_, ok = s.Elem().Underlying().(*types.Interface)
		return ok
	}
	var cands []*ssa.Function
	for _, fn := range allFuncs(c.SLib) {
		sg := fn.Signature
		if fn.Blocks == nil || sg.Recv() != nil || sg.Params().Len() != 2 || sg.Results().Len() != 2 {
			continue
		}
		if isIfaceSlice(sg.Params().At(0).Type()) && isIfaceSlice(sg.Results().At(0).Type()) && isErrorType(sg.Results().At(1).Type()) {
			used := len(callsTo(c.A.Exec, fn)) > 0
			for _, h := range c.A.Helpers {
				if len(callsTo(h, fn)) > 0 {
					used = true
				}
			}
			if used {
				cands = append(cands, fn)
			}
		}
	}
	sl = pickOne("the function that slices a list", "slice", cands)
	var cps []*ssa.Function
	seen := map[*ssa.Function]bool{}
	for _, b := range sl.Blocks {
		for _, in := range b.Instrs {
			if call, ok := in.(*ssa.Call); ok {
				if g := staticCallee(call); g != nil && g.Pkg == c.SLib && errIndex(g.Signature) >= 0 && !seen[g] {
					seen[g] = true
					cps = append(cps, g)
				}
			}
		}
	}
	cp = pickOne("the function that computes the slice bounds", "computeSliceParams", cps)
	return
}

// fieldRoles: for the struct types the rules look into, the ROLE of each field
// (named after the conventional field name), found by the field's type and
// use, so that renaming a field does not change what the rules see.
var fieldRoles = map[*types.Named]map[int]string{}

func setRole(T *types.Named, idx int, role string) {
	if idx < 0 {
		return
	}
	if fieldRoles[T] == nil {
		fieldRoles[T] = map[int]string{}
	}
	fieldRoles[T][idx] = role
}

// resolveTypeAnchors finds the types by role: exported types by their (API)
// name, unexported ones by where they occur in the exported ones.
func (c *Ctx) resolveTypeAnchors(a *Anchors) {
	fieldRoles = map[*types.Named]map[int]string{}
	st := func(T *types.Named) *types.Struct {
		s, ok := T.Underlying().(*types.Struct)
		if !ok {
			lost("%s is not a struct", T.Obj().Name())
		}
		return s
	}
	named := func(t types.Type) *types.Named {
		if pt, ok := t.(*types.Pointer); ok {
			t = pt.Elem()
		}
		n, _ := t.(*types.Named)
		return n
	}
	inLib := func(n *types.Named) bool { return n != nil && n.Obj().Pkg() == c.SLib.Pkg }
	isIface := func(t types.Type) bool { _, ok := t.Underlying().(*types.Interface); return ok }
	// fieldsWhere: indices of the fields of T whose type satisfies pred
	fieldsWhere := func(T *types.Named, pred func(types.Type) bool) []int {
		var out []int
		s := st(T)
		for i := 0; i < s.NumFields(); i++ {
			if pred(s.Field(i).Type()) {
				out = append(out, i)
			}
		}
		return out
	}
	// one: the single index, or the one with the conventional name, or lost
	one := func(T *types.Named, role string, idxs []int) int {
		if len(idxs) == 1 {
			return idxs[0]
		}
		for _, i := range idxs {
			if st(T).Field(i).Name() == role {
				return i
			}
		}
		lost("%s: %d fields can be the %s field", T.Obj().Name(), len(idxs), role)
		return -1
	}
	// the same over a type and the structs it embeds: (owner, index) pairs
	type fref struct {
		T *types.Named
		i int
	}
	famWhere := func(fam map[*types.Named]bool, pred func(types.Type) bool) []fref {
		var out []fref
		var ts []*types.Named
		for T := range fam {
			ts = append(ts, T)
		}
		sort.Slice(ts, func(i, j int) bool { return ts[i].Obj().Name() < ts[j].Obj().Name() })
		for _, T := range ts {
			for _, i := range fieldsWhere(T, pred) {
				out = append(out, fref{T, i})
			}
		}
		return out
	}
	oneFam := func(T *types.Named, role string, refs []fref) fref {
		if len(refs) == 1 {
			return refs[0]
		}
		for _, r := range refs {
			if st(r.T).Field(r.i).Name() == role {
				return r
			}
		}
		lost("%s: %d fields can be the %s field", T.Obj().Name(), len(refs), role)
		return fref{}
	}
	basic := func(k types.BasicKind) func(types.Type) bool {
		return func(t types.Type) bool {
			b, ok := t.(*types.Basic)
			return ok && b.Kind() == k
		}
	}
	// ---- exported types: their names are API
	a.ASTNode = c.namedType(c.SLib, "ASTNode")
	a.ParserT = c.namedType(c.SLib, "Parser")
	a.LexerT = c.namedType(c.SLib, "Lexer")
	a.ParserFam, a.LexerFam = structFamily(a.ParserT), structFamily(a.LexerT)
	a.SynErrT = c.namedType(c.SLib, "SyntaxError")
	a.JMESPathT = c.namedType(c.SLib, "JMESPath")

	// ---- ASTNode{nodeType, value, children}
	ntIdx := one(a.ASTNode, "nodeType", fieldsWhere(a.ASTNode, func(t types.Type) bool {
		n := named(t)
		if !inLib(n) {
			return false
		}
		b, ok := n.Underlying().(*types.Basic)
		return ok && b.Info()&types.IsInteger != 0
	}))
	a.NodeTypeT = named(st(a.ASTNode).Field(ntIdx).Type())
	setRole(a.ASTNode, ntIdx, "nodeType")
	setRole(a.ASTNode, one(a.ASTNode, "value", fieldsWhere(a.ASTNode, isIface)), "value")
	setRole(a.ASTNode, one(a.ASTNode, "children", fieldsWhere(a.ASTNode, func(t types.Type) bool {
		sl, ok := t.(*types.Slice)
		return ok && types.Identical(sl.Elem(), a.ASTNode)
	})), "children")
	if ntIdx != 0 || fieldRoles[a.ASTNode][1] != "value" || fieldRoles[a.ASTNode][2] != "children" {
		lost("ASTNode's fields are not (node type, payload, children) in this order")
	}

	// ---- token: element of what the lexer's (string) ([]T, error) method returns
	for _, f := range allFuncs(c.SLib) {
		if f.Signature.Recv() == nil || !inFam(a.LexerFam, f.Signature.Recv().Type()) {
			continue
		}
		p, r := f.Signature.Params(), f.Signature.Results()
		if p.Len() == 1 && basic(types.String)(p.At(0).Type()) && r.Len() == 2 && isErrorType(r.At(1).Type()) {
			if sl, ok := r.At(0).Type().(*types.Slice); ok {
				if n := named(sl.Elem()); inLib(n) {
					a.TokenT = n
				}
			}
		}
	}
	if a.TokenT == nil {
		a.TokenT = c.namedType(c.SLib, "token")
	}
	ttIdx := one(a.TokenT, "tokenType", fieldsWhere(a.TokenT, func(t types.Type) bool {
		n := named(t)
		if !inLib(n) {
			return false
		}
		b, ok := n.Underlying().(*types.Basic)
		return ok && b.Info()&types.IsInteger != 0
	}))
	a.TokT = named(st(a.TokenT).Field(ttIdx).Type())
	setRole(a.TokenT, ttIdx, "tokenType")
	setRole(a.TokenT, one(a.TokenT, "value", fieldsWhere(a.TokenT, basic(types.String))), "value")
	ints := fieldsWhere(a.TokenT, basic(types.Int))
	if len(ints) == 2 {
		// (position, length) in declaration order unless the names say otherwise
		pi, li := ints[0], ints[1]
		if st(a.TokenT).Field(ints[1]).Name() == "position" || st(a.TokenT).Field(ints[0]).Name() == "length" {
			pi, li = ints[1], ints[0]
		}
		setRole(a.TokenT, pi, "position")
		setRole(a.TokenT, li, "length")
	} else {
		setRole(a.TokenT, one(a.TokenT, "position", ints), "position")
	}
	if ttIdx != 0 {
		lost("the token type is not the first field of token")
	}

	// ---- Parser{expression, tokens, index} (possibly inside an embedded struct)
	{
		r := oneFam(a.ParserT, "expression", famWhere(a.ParserFam, basic(types.String)))
		setRole(r.T, r.i, "expression")
		r = oneFam(a.ParserT, "tokens", famWhere(a.ParserFam, func(t types.Type) bool {
			sl, ok := t.(*types.Slice)
			return ok && types.Identical(sl.Elem(), a.TokenT)
		}))
		setRole(r.T, r.i, "tokens")
		r = oneFam(a.ParserT, "index", famWhere(a.ParserFam, basic(types.Int)))
		setRole(r.T, r.i, "index")
	}

	// ---- Lexer{expression, currentPos, lastWidth, buf}: the two ints are told
	// apart by the push-back method (), which writes the cursor and only reads the width
	{
		r := oneFam(a.LexerT, "expression", famWhere(a.LexerFam, basic(types.String)))
		setRole(r.T, r.i, "expression")
	}
	lints := famWhere(a.LexerFam, basic(types.Int))
	if len(lints) == 2 {
		written := map[fref]int{}
		for _, f := range allFuncs(c.SLib) {
			if f.Signature.Recv() == nil || !inFam(a.LexerFam, f.Signature.Recv().Type()) || f.Signature.Params().Len() != 0 || f.Signature.Results().Len() != 0 {
				continue
			}
			for _, b := range f.Blocks {
				for _, in := range b.Instrs {
					if s2, ok := in.(*ssa.Store); ok {
						if fa, ok := s2.Addr.(*ssa.FieldAddr); ok && inFam(a.LexerFam, fa.X.Type()) {
							written[fref{named(fa.X.Type()), fa.Field}]++
						}
					}
				}
			}
		}
		var cp, lw *fref
		switch {
		case written[lints[0]] > 0 && written[lints[1]] == 0:
			cp, lw = &lints[0], &lints[1]
		case written[lints[1]] > 0 && written[lints[0]] == 0:
			cp, lw = &lints[1], &lints[0]
		default:
			for k := range lints {
				switch st(lints[k].T).Field(lints[k].i).Name() {
				case "currentPos":
					cp = &lints[k]
				case "lastWidth":
					lw = &lints[k]
				}
			}
		}
		if cp == nil || lw == nil {
			lost("Lexer: cannot tell the cursor from the last width")
		}
		setRole(cp.T, cp.i, "currentPos")
		setRole(lw.T, lw.i, "lastWidth")
	} else {
		for _, r := range lints {
			setRole(r.T, r.i, st(r.T).Field(r.i).Name())
		}
	}
	for _, r := range famWhere(a.LexerFam, func(t types.Type) bool {
		n := named(t)
		return n != nil && n.Obj().Pkg() != nil && (n.Obj().Pkg().Path() == "bytes" && n.Obj().Name() == "Buffer" || n.Obj().Pkg().Path() == "strings" && n.Obj().Name() == "Builder")
	}) {
		setRole(r.T, r.i, "buf")
	}

	// ---- JMESPath{ast, intr}
	astIdx := one(a.JMESPathT, "ast", fieldsWhere(a.JMESPathT, func(t types.Type) bool { return types.Identical(t, a.ASTNode) }))
	setRole(a.JMESPathT, astIdx, "ast")
	intrIdx := one(a.JMESPathT, "intr", fieldsWhere(a.JMESPathT, func(t types.Type) bool {
		pt, ok := t.(*types.Pointer)
		return ok && inLib(named(pt.Elem()))
	}))
	setRole(a.JMESPathT, intrIdx, "intr")
	a.InterpT = named(st(a.JMESPathT).Field(intrIdx).Type())

	// ---- interpreter -> function caller -> entries -> argument specs -> jp types
	var fcT *types.Named
	for _, i := range fieldsWhere(a.InterpT, func(t types.Type) bool {
		pt, ok := t.(*types.Pointer)
		return ok && inLib(named(pt.Elem()))
	}) {
		cand := named(st(a.InterpT).Field(i).Type())
		if _, isStruct := cand.Underlying().(*types.Struct); !isStruct {
			continue
		}
		for _, j := range fieldsWhere(cand, func(t types.Type) bool {
			m, ok := t.(*types.Map)
			return ok && basic(types.String)(m.Key()) && inLib(named(m.Elem()))
		}) {
			fcT = cand
			a.FEntryT = named(st(cand).Field(j).Type().(*types.Map).Elem())
			setRole(cand, j, "functionTable")
			setRole(a.InterpT, i, "fCall")
		}
	}
	if fcT == nil || a.FEntryT == nil {
		lost("the function caller (a struct holding a map[string]<entry>) is not reachable from the interpreter's fields")
	}
	a.FCallerT = fcT
	setRole(a.FEntryT, one(a.FEntryT, "name", fieldsWhere(a.FEntryT, basic(types.String))), "name")
	argsIdx := one(a.FEntryT, "arguments", fieldsWhere(a.FEntryT, func(t types.Type) bool {
		sl, ok := t.(*types.Slice)
		return ok && inLib(named(sl.Elem()))
	}))
	setRole(a.FEntryT, argsIdx, "arguments")
	a.ArgSpecT = named(st(a.FEntryT).Field(argsIdx).Type().(*types.Slice).Elem())
	setRole(a.FEntryT, one(a.FEntryT, "handler", fieldsWhere(a.FEntryT, func(t types.Type) bool {
		_, ok := t.Underlying().(*types.Signature)
		return ok
	})), "handler")
	// (the flag may be absent: an entry type without it simply has no such role)
	if bs := fieldsWhere(a.FEntryT, basic(types.Bool)); len(bs) > 0 {
		setRole(a.FEntryT, one(a.FEntryT, "hasExpRef", bs), "hasExpRef")
	}
	typesIdx := one(a.ArgSpecT, "types", fieldsWhere(a.ArgSpecT, func(t types.Type) bool {
		sl, ok := t.(*types.Slice)
		return ok && inLib(named(sl.Elem()))
	}))
	setRole(a.ArgSpecT, typesIdx, "types")
	a.JPTypeT = named(st(a.ArgSpecT).Field(typesIdx).Type().(*types.Slice).Elem())
	setRole(a.ArgSpecT, one(a.ArgSpecT, "variadic", fieldsWhere(a.ArgSpecT, basic(types.Bool))), "variadic")

	// ---- the expression reference: a library struct with exactly one field, an ASTNode
	var exprefs []*types.Named
	for _, m := range c.SLib.Members {
		tn, ok := m.(*ssa.Type)
		if !ok {
			continue
		}
		n, ok := tn.Type().(*types.Named)
		if !ok {
			continue
		}
		s, ok := n.Underlying().(*types.Struct)
		if ok && s.NumFields() == 1 && types.Identical(s.Field(0).Type(), a.ASTNode) {
			exprefs = append(exprefs, n)
		}
	}
	switch {
	case len(exprefs) == 1:
		a.ExpRefT = exprefs[0]
	default:
		a.ExpRefT = c.namedType(c.SLib, "expRef")
	}
	setRole(a.ExpRefT, 0, "ref")

	// ---- SyntaxError: exported fields by name; the message is the unexported string
	for i := 0; i < st(a.SynErrT).NumFields(); i++ {
		f := st(a.SynErrT).Field(i)
		if f.Exported() {
			setRole(a.SynErrT, i, f.Name())
		} else if basic(types.String)(f.Type()) {
			setRole(a.SynErrT, i, "msg")
		}
	}
}

// litFieldRole: the role of the field a keyed composite-literal element sets
// (by the field object's position in the struct, not by its spelling).
func litFieldRole(info *types.Info, key ast.Expr, T *types.Named) string {
	id, ok := key.(*ast.Ident)
	if !ok {
		return ""
	}
	st, ok := T.Underlying().(*types.Struct)
	if !ok {
		return id.Name
	}
	if obj, ok := info.Uses[id].(*types.Var); ok {
		for i := 0; i < st.NumFields(); i++ {
			if st.Field(i) == obj {
				if r, ok := fieldRoles[T][i]; ok {
					return r
				}
			}
		}
	}
	return id.Name
}
