package main

import (
	"fmt"
	"go/token"
	"go/types"
	"sort"
	"strings"

	"golang.org/x/tools/go/ssa"
)

func init() {
	register("A-COMPILE", ruleCompile)
	register("A-MUST", ruleMustCompile)
	register("A-SYNERR", ruleSyntaxErrors)
	register("A-SKEL", ruleSkeleton)
	register("H-RESET", ruleParserReset)
	register("H-MAPORDER", ruleMapOrder)
	register("BAN", ruleBan)
	register("J-RUN", ruleJpgo)
}

// nonNilHere: error value v is known non-nil in block b.
func (c *Ctx) nonNilHere(v ssa.Value, b *ssa.BasicBlock) bool {
	if neverNilError(c, v) {
		return true
	}
	return dominatedByNonNilTest(v, b)
}

// A-SYNERR: SyntaxError values carry the input expression and a cursor/token offset.
func ruleSyntaxErrors(c *Ctx) *RuleResult {
	r := &RuleResult{Doc: "every SyntaxError literal sets Expression from the lexer's/parser's expression field (stored from the parameter before any error can be built) and Offset from len(expression), currentPos-1 or a token position; HighlightLocation = Expression + newline + Offset spaces + caret", Floor: 6}
	// classification of the two payload values by data flow (receiver and
	// variable names do not matter); a parameter of a constructor helper is
	// classified at every call site of the helper
	fieldOf := func(v ssa.Value) (owner types.Type, name string, ok bool) {
		base, fld, ok := fieldRead(v)
		if !ok {
			return nil, "", false
		}
		t := base.Type()
		if pt, isPtr := t.Underlying().(*types.Pointer); isPtr {
			t = pt.Elem()
		}
		if _, isStruct := t.Underlying().(*types.Struct); !isStruct {
			return nil, "", false
		}
		return t, fieldName(t, fld), true
	}
	isLexOrParser := func(t types.Type) bool {
		return inFam(c.A.LexerFam, t) || inFam(c.A.ParserFam, t)
	}
	var classify func(v ssa.Value, fn *ssa.Function, what string, depth int) string
	classify = func(v ssa.Value, fn *ssa.Function, what string, depth int) string {
		if par, ok := v.(*ssa.Parameter); ok && depth < 4 {
			idx := -1
			for i, q := range fn.Params {
				if q == par {
					idx = i
				}
			}
			sites := 0
			cls := ""
			for _, caller := range allFuncs(c.SLib) {
				for _, cs := range callsTo(caller, fn) {
					sites++
					if idx < 0 || idx >= len(cs.Call.Args) {
						return ""
					}
					k := classify(cs.Call.Args[idx], caller, what, depth+1)
					if k == "" {
						return ""
					}
					if cls == "" {
						cls = k
					} else if cls != k {
						cls = cls + "|" + k
					}
				}
			}
			if sites == 0 {
				return ""
			}
			return cls
		}
		if ph, ok := v.(*ssa.Phi); ok && depth < 4 {
			// chosen among several: each must be of an accepted kind
			cls := ""
			for _, e := range ph.Edges {
				k := classify(e, fn, what, depth+1)
				if k == "" {
					return ""
				}
				if cls == "" {
					cls = k
				} else if !strings.Contains(cls, k) {
					cls = cls + "|" + k
				}
			}
			return cls
		}
		switch what {
		case "Expression":
			if t, name, ok := fieldOf(v); ok && isLexOrParser(t) && name == "expression" {
				return "the input expression"
			}
		case "Offset":
			if t, name, ok := fieldOf(v); ok && types.Identical(t, c.A.TokenT) && name == "position" {
				return "a token position"
			}
			if call, ok := v.(*ssa.Call); ok {
				if b, ok := call.Call.Value.(*ssa.Builtin); ok && b.Name() == "len" {
					if t, name, ok := fieldOf(call.Call.Args[0]); ok && isLexOrParser(t) && name == "expression" {
						return "len(expression)"
					}
				}
			}
			if bo, ok := v.(*ssa.BinOp); ok && bo.Op == token.SUB {
				if t, name, ok := fieldOf(bo.X); ok && inFam(c.A.LexerFam, t) && name == "currentPos" {
					if k, ok := constInt(bo.Y); ok && k == 1 {
						return "currentPos-1"
					}
					if t2, name2, ok := fieldOf(bo.Y); ok && inFam(c.A.LexerFam, t2) && name2 == "lastWidth" {
						return "currentPos-lastWidth"
					}
				}
			}
		}
		return ""
	}
	for _, fn := range allFuncs(c.SLib) {
		n := 0
		for _, b := range fn.Blocks {
			for _, in := range b.Instrs {
				al, ok := in.(*ssa.Alloc)
				if !ok {
					continue
				}
				pt := al.Type().(*types.Pointer)
				if !types.Identical(pt.Elem(), c.A.SynErrT) {
					continue
				}
				fields := map[string]ssa.Value{}
				for _, rf := range *al.Referrers() {
					fa, ok := rf.(*ssa.FieldAddr)
					if !ok {
						continue
					}
					for _, rr := range *fa.Referrers() {
						if st, ok := rr.(*ssa.Store); ok {
							fields[fieldName(fa.X.Type(), fa.Field)] = st.Val
						}
					}
				}
				if len(fields) == 0 {
					continue // a variable holding a SyntaxError, not a literal
				}
				n++
				r.Instances++
				key := fmt.Sprintf("%s|literal#%d", fname(fn), n)
				pos := c.pos(al.Pos())
				exC, offC := "", ""
				if v := fields["Expression"]; v != nil {
					exC = classify(v, fn, "Expression", 0)
				}
				if v := fields["Offset"]; v != nil {
					offC = classify(v, fn, "Offset", 0)
				}
				if exC != "" && offC != "" {
					r.ok(key, pos, fname(fn), "Expression is "+exC+", Offset is "+offC)
				} else {
					exS, offS := "", ""
					if v := fields["Expression"]; v != nil {
						exS = c.symStr(v, 0)
					}
					if v := fields["Offset"]; v != nil {
						offS = c.symStr(v, 0)
					}
					r.viol(key, pos, fname(fn), fmt.Sprintf("SyntaxError{Expression: %s, Offset: %s}: Expression must be the input expression and Offset a cursor/token position", orNone(exS), orNone(offS)))
				}
			}
		}
	}
	// the expression fields are stored from the parameter first
	for _, x := range []struct {
		fn    *ssa.Function
		field string
	}{{c.A.Tokenize, "expression"}, {c.A.Parse, "expression"}} {
		r.Instances++
		key := "stores-input|" + fname(x.fn)
		ok := false
		pos := c.pos(x.fn.Pos())
		// in the entry block, before any call, a store of the string parameter into recv.expression
		for _, in := range x.fn.Blocks[0].Instrs {
			if call, isCall := in.(*ssa.Call); isCall {
				// constructing a fresh lexer is harmless; anything else ends the search
				if sc := staticCallee(call); sc == c.A.NewLexer {
					continue
				}
				break
			}
			if st, isSt := in.(*ssa.Store); isSt {
				// recv.expression = param, possibly through embedded structs
				rooted := func(v ssa.Value) bool {
					for {
						if v == ssa.Value(x.fn.Params[0]) {
							return true
						}
						fa, isFA := v.(*ssa.FieldAddr)
						if !isFA || !isEmbeddedField(fa) {
							return false
						}
						v = fa.X
					}
				}
				if fa, isFA := st.Addr.(*ssa.FieldAddr); isFA && rooted(fa.X) && fieldName(fa.X.Type(), fa.Field) == x.field {
					if p, isP := st.Val.(*ssa.Parameter); isP && p == x.fn.Params[1] {
						ok = true
						pos = c.pos(st.Pos())
					}
				}
				// recv.embedded = T{expression: param, ...}: a whole-struct store of a
				// literal whose expression field is the parameter
				if fa, isFA := st.Addr.(*ssa.FieldAddr); isFA && rooted(fa) {
					if ld, isLd := st.Val.(*ssa.UnOp); isLd && ld.Op == token.MUL {
						if al, isAl := ld.X.(*ssa.Alloc); isAl {
							for _, rf := range *al.Referrers() {
								fa2, isFA2 := rf.(*ssa.FieldAddr)
								if !isFA2 || fieldName(fa2.X.Type(), fa2.Field) != x.field {
									continue
								}
								for _, rr := range *fa2.Referrers() {
									if st2, isSt2 := rr.(*ssa.Store); isSt2 && st2.Addr == fa2 && st2.Val == ssa.Value(x.fn.Params[1]) {
										ok = true
										pos = c.pos(st.Pos())
									}
								}
							}
						}
					}
				}
			}
		}
		if ok {
			r.ok(key, pos, fname(x.fn), "stores its string parameter into ."+x.field+" before any call")
		} else {
			r.viol(key, pos, fname(x.fn), "does not store its parameter into ."+x.field+" before the first call: a SyntaxError could carry a stale expression")
		}
	}
	// HighlightLocation
	{
		fn := c.method("SyntaxError", "HighlightLocation")
		r.Instances++
		var got string
		for _, b := range fn.Blocks {
			if ret := blockReturn(b); ret != nil {
				got = c.symStr(retResults(ret)[0], 0)
			}
		}
		want := `param#0.Expression+"\n"+strings.Repeat(" ",param#0.Offset)+"^"`
		if got == want {
			r.ok("highlight", c.pos(fn.Pos()), fname(fn), got)
		} else {
			r.viol("highlight", c.pos(fn.Pos()), fname(fn), "caret rendering is "+got+", wanted "+want)
		}
	}
	return r
}

func orNone(s string) string {
	if s == "" {
		return "<unset>"
	}
	return s
}

// A-SKEL: one-shot Search and Compile+Search evaluate the same thing.
func ruleSkeleton(c *Ctx) *RuleResult {
	r := &RuleResult{Doc: "Search(expr, d) = Execute(newInterpreter(), Parse(NewParser(), expr), d) with Parse's error returned first; (*JMESPath).Search(d) = Execute(jp.intr, jp.ast, d); Compile stores exactly those (A-COMPILE)", Floor: 2}
	c.skeletonAbs(r)
	// constructors return fresh objects
	for _, k := range []*ssa.Function{c.A.NewParser, c.A.NewLexer, c.A.NewInterp, c.A.NewFCaller} {
		r.Instances++
		fresh := true
		for _, b := range k.Blocks {
			if ret := blockReturn(b); ret != nil {
				if _, ok := retResults(ret)[0].(*ssa.Alloc); !ok {
					fresh = false
				}
			}
		}
		if fresh {
			r.ok("fresh|"+k.Name(), c.pos(k.Pos()), fname(k), "returns a new allocation on every call")
		} else {
			r.viol("fresh|"+k.Name(), c.pos(k.Pos()), fname(k), "may return something other than a fresh allocation (shared or cached state)")
		}
	}
	return r
}

// H-RESET: Parse (re)initialises every Parser field before anything reads it;
// the Lexer it uses is fresh or equally reset.
func ruleParserReset(c *Ctx) *RuleResult {
	r := &RuleResult{Doc: "every Parser field read by a method reachable from Parse is stored by Parse before the first call that reads it; the Lexer used is a fresh object (or every Lexer field read by tokenize is reset first)", Floor: 4}
	checkReset := func(entry *ssa.Function, T *types.Named, label string) {
		fam := structFamily(T)
		// fields are named by their path from T through embedded structs ("1.0")
		isRecv := func(f *ssa.Function) bool {
			return f != nil && f.Signature.Recv() != nil && f.Blocks != nil && len(f.Params) > 0 && inFam(fam, f.Signature.Recv().Type())
		}
		embedded := func(t types.Type) *types.Named {
			n, ok := t.(*types.Named)
			if ok && fam[n] {
				return n
			}
			return nil
		}
		var leaves func(n *types.Named, prefix string) []string
		leaves = func(n *types.Named, prefix string) []string {
			var out []string
			st := n.Underlying().(*types.Struct)
			for i := 0; i < st.NumFields(); i++ {
				pth := prefix + fmt.Sprint(i)
				if e := embedded(st.Field(i).Type()); e != nil && st.Field(i).Embedded() {
					out = append(out, leaves(e, pth+".")...)
				} else {
					out = append(out, pth)
				}
			}
			return out
		}
		leafName := func(pth string) string {
			n := T
			name := ""
			for _, part := range strings.Split(pth, ".") {
				var i int
				fmt.Sscan(part, &i)
				st := n.Underlying().(*types.Struct)
				name = st.Field(i).Name()
				if e := embedded(st.Field(i).Type()); e != nil {
					n = e
				}
			}
			return name
		}
		// pathFrom: v is a chain of field addresses rooted at root; the path
		// and the struct type reached
		pathFrom := func(v ssa.Value, root ssa.Value) (string, bool) {
			var parts []string
			for {
				if v == root {
					break
				}
				fa, ok := v.(*ssa.FieldAddr)
				if !ok {
					return "", false
				}
				parts = append([]string{fmt.Sprint(fa.Field)}, parts...)
				v = fa.X
			}
			return strings.Join(parts, "."), true
		}
		under := func(n *types.Named, pth string) []string {
			// the leaves below pth (pth itself when it is a leaf), relative to n
			cur := n
			if pth != "" {
				for _, part := range strings.Split(pth, ".") {
					var i int
					fmt.Sscan(part, &i)
					st := cur.Underlying().(*types.Struct)
					if i >= st.NumFields() {
						return nil
					}
					e := embedded(st.Field(i).Type())
					if e == nil || !st.Field(i).Embedded() {
						return []string{pth}
					}
					cur = e
				}
				return leaves(cur, pth+".")
			}
			return leaves(cur, "")
		}
		recvNamed := func(f *ssa.Function) *types.Named {
			t := f.Signature.Recv().Type()
			if pt, ok := t.(*types.Pointer); ok {
				t = pt.Elem()
			}
			n, _ := t.(*types.Named)
			return n
		}
		// per method: leaf paths (relative to its receiver type) it reads directly,
		// and the family methods it calls on (a part of) its receiver
		type sub struct {
			f      *ssa.Function
			prefix string
		}
		direct := map[*ssa.Function]map[string]bool{}
		callees := map[*ssa.Function][]sub{}
		scan := func(fn *ssa.Function, root ssa.Value, rootT *types.Named) (map[string]bool, []sub, []ssa.Instruction) {
			d := map[string]bool{}
			var cs []sub
			var sites []ssa.Instruction
			for _, b := range fn.Blocks {
				for _, in := range b.Instrs {
					switch in := in.(type) {
					case *ssa.FieldAddr:
						pth, ok := pathFrom(in, root)
						if !ok {
							continue
						}
						for _, rf := range *in.Referrers() {
							if s, ok := rf.(*ssa.Store); ok && s.Addr == in {
								continue
							}
							if _, ok := rf.(*ssa.FieldAddr); ok {
								continue // a longer path: handled there
							}
							if call, ok := rf.(*ssa.Call); ok {
								if sc := staticCallee(call); isRecv(sc) && len(call.Call.Args) > 0 && call.Call.Args[0] == ssa.Value(in) {
									continue // receiver of a family method: handled as a call
								}
							}
							for _, l := range under(rootT, pth) {
								d[l] = true
							}
							sites = append(sites, in)
						}
					case *ssa.Call:
						sc := staticCallee(in)
						if !isRecv(sc) || len(in.Call.Args) == 0 {
							continue
						}
						if pth, ok := pathFrom(in.Call.Args[0], root); ok {
							cs = append(cs, sub{sc, pth})
							sites = append(sites, in)
						}
					}
				}
			}
			return d, cs, sites
		}
		for _, fn := range allFuncs(c.SLib) {
			if !isRecv(fn) {
				continue
			}
			direct[fn], callees[fn], _ = scan(fn, fn.Params[0], recvNamed(fn))
		}
		join := func(a, b string) string {
			if a == "" {
				return b
			}
			return a + "." + b
		}
		var reads func(f *ssa.Function, seen map[*ssa.Function]bool) map[string]bool
		reads = func(f *ssa.Function, seen map[*ssa.Function]bool) map[string]bool {
			out := map[string]bool{}
			if seen[f] {
				return out
			}
			seen[f] = true
			for k := range direct[f] {
				out[k] = true
			}
			for _, g := range callees[f] {
				for k := range reads(g.f, seen) {
					out[join(g.prefix, k)] = true
				}
			}
			return out
		}
		recv := entry.Params[0]
		// what entry stores, per leaf
		stores := map[string][]*ssa.Store{}
		for _, b := range entry.Blocks {
			for _, in := range b.Instrs {
				if s, ok := in.(*ssa.Store); ok {
					if pth, ok := pathFrom(s.Addr, recv); ok {
						for _, l := range under(recvNamed(entry), pth) {
							stores[l] = append(stores[l], s)
						}
					}
				}
			}
		}
		entryDirect, entryCalls, _ := scan(entry, recv, recvNamed(entry))
		_ = entryDirect
		for _, leaf := range leaves(recvNamed(entry), "") {
			fieldN := leafName(leaf)
			storedBefore := func(in ssa.Instruction) bool {
				for _, s := range stores[leaf] {
					if s.Block() == in.Block() {
						if instrIndex(s) < instrIndex(in) {
							return true
						}
					} else if s.Block().Dominates(in.Block()) {
						return true
					}
				}
				return false
			}
			nread := 0
			bad := ""
			for _, b := range entry.Blocks {
				for _, in := range b.Instrs {
					switch in := in.(type) {
					case *ssa.Call:
						sc := staticCallee(in)
						if !isRecv(sc) || len(in.Call.Args) == 0 {
							continue
						}
						pth, ok := pathFrom(in.Call.Args[0], recv)
						if !ok {
							continue
						}
						hit := false
						for k := range reads(sc, map[*ssa.Function]bool{}) {
							if join(pth, k) == leaf {
								hit = true
							}
						}
						if hit {
							nread++
							if !storedBefore(in) {
								bad = "call of " + sc.Name() + " at " + c.pos(in.Pos())
							}
						}
					case *ssa.FieldAddr:
						pth, ok := pathFrom(in, recv)
						if !ok {
							continue
						}
						covers := false
						for _, l := range under(recvNamed(entry), pth) {
							if l == leaf {
								covers = true
							}
						}
						if !covers {
							continue
						}
						isRead := false
						for _, rf := range *in.Referrers() {
							if s, ok := rf.(*ssa.Store); ok && s.Addr == in {
								continue
							}
							if _, ok := rf.(*ssa.FieldAddr); ok {
								continue
							}
							if call, ok := rf.(*ssa.Call); ok {
								if sc := staticCallee(call); isRecv(sc) && len(call.Call.Args) > 0 && call.Call.Args[0] == ssa.Value(in) {
									continue
								}
							}
							isRead = true
						}
						if isRead {
							nread++
							if !storedBefore(in) {
								bad = "read at " + c.pos(in.Pos())
							}
						}
					}
				}
			}
			_ = entryCalls
			r.Instances++
			key := label + "|" + fieldN
			switch {
			case nread == 0:
				r.ok(key, c.pos(entry.Pos()), fname(entry), "field "+fieldN+" is not read on any path from "+entry.Name())
			case bad == "":
				r.ok(key, c.pos(entry.Pos()), fname(entry), fmt.Sprintf("field %s is stored by %s before each of its %d reading sites", fieldN, entry.Name(), nread))
			default:
				r.viol(key, c.pos(entry.Pos()), fname(entry), fmt.Sprintf("field %s is read (%s) before %s has stored it on that path: the value left by a previous call leaks into this one", fieldN, bad, entry.Name()))
			}
		}
	}
	checkReset(c.A.Parse, c.A.ParserT, "Parser")
	// the lexer used by Parse
	calls := callsTo(c.A.Parse, c.A.Tokenize)
	r.Instances++
	if len(calls) != 1 {
		r.viol("lexer-fresh", c.pos(c.A.Parse.Pos()), fname(c.A.Parse), fmt.Sprintf("Parse calls tokenize %d times", len(calls)))
	} else {
		src := c.symStr(calls[0].Call.Args[0], 0)
		if src == "NewLexer()" {
			r.ok("lexer-fresh", c.pos(calls[0].Pos()), fname(c.A.Parse), "tokenize runs on NewLexer() of this activation (fresh: A-SKEL), so no lexer state survives a Parse")
		} else {
			r.Notes = append(r.Notes, "the lexer is not fresh per Parse ("+src+"): checking that tokenize resets every field it reads")
			checkReset(c.A.Tokenize, c.A.LexerT, "Lexer(reused: "+src+")")
		}
	}
	return r
}

// H-MAPORDER: iteration over Go maps cannot leak its order except where the
// property allows it.
func ruleMapOrder(c *Ctx) *RuleResult {
	r := &RuleResult{Doc: "every range over a map on a Search path either only copies entries into a fresh map under the same key (order-insensitive) or is one of the three places whose order the specification leaves open: keys(), values(), the object wildcard", Floor: 3}
	exemptFn := map[*ssa.Function]string{}
	for _, e := range c.table() {
		if e.Key == "keys" || e.Key == "values" {
			exemptFn[e.Handler] = e.Key + "()"
		}
	}
	for _, fn := range allFuncs(c.SLib) {
		if !c.scopeOf(fn)["eval"] {
			continue
		}
		n := 0
		for _, b := range fn.Blocks {
			for _, in := range b.Instrs {
				rg, ok := in.(*ssa.Range)
				if !ok {
					continue
				}
				if _, isMap := rg.X.Type().Underlying().(*types.Map); !isMap {
					continue
				}
				n++
				r.Instances++
				key := fmt.Sprintf("%s|range#%d", fname(fn), n)
				pos := c.pos(rg.Pos())
				if why, ok := exemptFn[fn]; ok {
					r.ok(key, pos, fname(fn), "order of "+why+" is unspecified by the property")
					continue
				}
				if fn == c.A.Exec {
					if cl := c.A.ExecSw.clauseAt(instrPos(rg)); cl != nil && cl.has("ASTValueProjection") {
						r.ok(key, pos, fname(fn), "object wildcard: member order is unspecified by the property")
						continue
					}
				}
				// a helper used only by those three places shares their licence
				if fn != c.A.Exec {
					sites, okAll := 0, true
					for _, caller := range allFuncs(c.SLib) {
						for _, cs := range callsTo(caller, fn) {
							sites++
							_, ex := exemptFn[caller]
							if caller == c.A.Exec {
								if cl := c.A.ExecSw.clauseAt(instrPos(cs)); cl != nil && cl.has("ASTValueProjection") {
									ex = true
								}
							}
							if !ex {
								okAll = false
							}
						}
					}
					if sites > 0 && okAll {
						r.ok(key, pos, fname(fn), "called only from keys()/values()/the object wildcard, whose order is unspecified by the property")
						continue
					}
				}
				// order-insensitive body: the loop only does fresh[k] = v
				if c.rangeOnlyCopies(rg) {
					r.ok(key, pos, fname(fn), "loop body only stores each entry under its own key into a map allocated in this function: the result does not depend on iteration order")
				} else if c.rangeIsQuantifier(rg) {
					r.ok(key, pos, fname(fn), "the loop carries nothing from one entry to the next, writes nothing, and leaves early only with constant results (a for-all / exists test): the result does not depend on iteration order")
				} else {
					r.viol(key, pos, fname(fn), "the result of this map iteration can depend on Go's random map order, outside keys()/values()/object wildcard")
				}
			}
		}
	}
	return r
}

func (c *Ctx) rangeOnlyCopies(rg *ssa.Range) bool {
	// find the Next, its extracts, and the loop body blocks
	var next *ssa.Next
	for _, rf := range *rg.Referrers() {
		if n, ok := rf.(*ssa.Next); ok {
			next = n
		}
	}
	if next == nil {
		return false
	}
	var keyV ssa.Value
	for _, rf := range *next.Referrers() {
		if ex, ok := rf.(*ssa.Extract); ok && ex.Index == 1 {
			keyV = ex
		}
	}
	head := next.Block()
	ifi := blockIf(head)
	if ifi == nil {
		return false
	}
	body := head.Succs[0]
	for bb := range reachableFrom(body, map[*ssa.BasicBlock]bool{head: true}) {
		for _, in := range bb.Instrs {
			switch in := in.(type) {
			case *ssa.MapUpdate:
				if in.Key != keyV {
					return false
				}
				if _, ok := in.Map.(*ssa.MakeMap); !ok {
					return false
				}
			case *ssa.Jump, *ssa.Extract, *ssa.DebugRef:
			default:
				return false
			}
		}
	}
	return true
}

// rangeIsQuantifier: the map loop is a for-all / exists test: no value is
// carried from one iteration to the next (the loop head has no phi), the body
// stores nothing and appends nothing, and every return inside the loop yields
// only constants. Whatever order the entries come in, the outcome is the same.
func (c *Ctx) rangeIsQuantifier(rg *ssa.Range) bool {
	var next *ssa.Next
	for _, rf := range *rg.Referrers() {
		if n, ok := rf.(*ssa.Next); ok {
			next = n
		}
	}
	if next == nil {
		return false
	}
	head := next.Block()
	for _, in := range head.Instrs {
		if _, isPhi := in.(*ssa.Phi); isPhi {
			return false
		}
	}
	if blockIf(head) == nil {
		return false
	}
	body := head.Succs[0]
	for bb := range reachableFrom(body, map[*ssa.BasicBlock]bool{head: true}) {
		if !head.Dominates(bb) {
			continue
		}
		for _, in := range bb.Instrs {
			switch in := in.(type) {
			case *ssa.Store, *ssa.MapUpdate, *ssa.Send, *ssa.Go, *ssa.Defer:
				return false
			case *ssa.Call:
				if bi, ok := in.Call.Value.(*ssa.Builtin); ok && bi.Name() == "append" {
					return false
				}
			case *ssa.Return:
				for _, res := range retResults(in) {
					if _, isConst := res.(*ssa.Const); !isConst {
						return false
					}
				}
			}
		}
	}
	return true
}

// BAN: constructs the other arguments rely on being absent.
func ruleBan(c *Ctx) *RuleResult {
	r := &RuleResult{Doc: "the library starts no goroutines, uses no channels, sync, atomic, unsafe, cgo, clock, randomness or environment, never calls reflect.Value.Set*, and writes no package-level variable outside initialisation", Floor: 30}
	banned := map[string]string{
		"unsafe": "unsafe memory access", "sync": "synchronisation primitives (none needed if nothing shared is written)",
		"sync/atomic": "atomics", "math/rand": "randomness", "time": "clock", "os": "environment", "C": "cgo",
		"math/rand/v2": "randomness", "crypto/rand": "randomness", "runtime": "runtime hooks",
	}
	for _, f := range c.Lib.Syntax {
		for _, im := range f.Imports {
			p := strings.Trim(im.Path.Value, `"`)
			r.Instances++
			if why, bad := banned[p]; bad {
				r.viol("import|"+p, c.pos(im.Pos()), "imports", "the library imports "+p+" ("+why+")")
			} else {
				r.ok("import|"+c.file(im.Pos())+"|"+p, c.pos(im.Pos()), "imports", "import "+p)
			}
		}
	}
	for _, fn := range allFuncs(c.SLib) {
		isInit := fn.Name() == "init" && fn.Synthetic != ""
		n := 0
		for _, b := range fn.Blocks {
			for _, in := range b.Instrs {
				bad := ""
				switch in := in.(type) {
				case *ssa.Go:
					bad = "starts a goroutine"
				case *ssa.Send, *ssa.Select, *ssa.MakeChan:
					bad = "uses channels"
				case *ssa.Store:
					if g := rootGlobal(in.Addr); g != nil && !isInit {
						bad = "writes package-level variable " + g.Name()
					}
				case *ssa.MapUpdate:
					if g := rootGlobal(in.Map); g != nil && !isInit {
						bad = "writes package-level map " + g.Name()
					}
				case *ssa.Call:
					nm := calleeName(in)
					if strings.HasPrefix(nm, "(reflect.Value).Set") || strings.HasPrefix(nm, "reflect.Copy") || strings.HasPrefix(nm, "(reflect.Value).Append") {
						bad = "calls " + nm + " (writes through reflection)"
					}
					if in.Call.IsInvoke() == false {
						if bi, ok := in.Call.Value.(*ssa.Builtin); ok && bi.Name() == "recover" {
							bad = "recovers from panics (would hide C05 violations)"
						}
					}
				}
				if bad != "" {
					n++
					r.Instances++
					r.viol(fmt.Sprintf("construct|%s#%d", fname(fn), n), c.pos(in.Pos()), fname(fn), bad)
				}
			}
		}
		r.Instances++
		if n == 0 {
			r.ok("clean|"+fname(fn)+"|"+c.file(fn.Pos()), c.pos(fn.Pos()), fname(fn), "no banned construct")
		}
	}
	return r
}

// ---------------------------------------------------------------- jpgo

func ruleJpgo(c *Ctx) *RuleResult {
	r := &RuleResult{Doc: "jpgo run(): return 0 (outside -ast) only after Parse, input read, json.Unmarshal, jmespath.Search and json.Marshal(Indent) succeeded and exactly one stdout print of that marshalled Search result; no other stdout write outside -ast; other returns are non-zero; main exits with run()", Floor: 6}
	run := c.SCLI.Func("run")
	mainF := c.SCLI.Func("main")
	if run == nil || mainF == nil {
		lost("cmd/jpgo: run or main not found")
	}
	type site struct {
		call *ssa.Call
		name string
	}
	var all []site
	for _, b := range run.Blocks {
		for _, in := range b.Instrs {
			if call, ok := in.(*ssa.Call); ok {
				all = append(all, site{call, calleeName(call)})
			}
		}
	}
	find := func(names ...string) []*ssa.Call {
		var out []*ssa.Call
		for _, s := range all {
			for _, n := range names {
				if s.name == n {
					out = append(out, s.call)
				}
			}
		}
		return out
	}
	one := func(what string, names ...string) *ssa.Call {
		cs := find(names...)
		r.Instances++
		if len(cs) != 1 {
			r.viol("site|"+what, c.pos(run.Pos()), "run", fmt.Sprintf("expected exactly one call of %s, found %d", strings.Join(names, "/"), len(cs)))
			return nil
		}
		r.ok("site|"+what, c.pos(cs[0].Pos()), "run", what+" = "+shortCallee(calleeName(cs[0])))
		return cs[0]
	}
	parse := one("parse", "(*"+libPath+".Parser).Parse")
	unm := one("decode-input", "encoding/json.Unmarshal")
	search := one("search", libPath+".Search")
	marshal := one("serialise", "encoding/json.MarshalIndent", "encoding/json.Marshal")
	if parse == nil || unm == nil || search == nil || marshal == nil {
		return r
	}
	// the -ast branch
	astBlocks := map[*ssa.BasicBlock]bool{}
	for _, b := range run.Blocks {
		ifi := blockIf(b)
		if ifi == nil {
			continue
		}
		if strings.Contains(c.symStr(ifi.Cond, 0), `flag.Bool("ast"`) {
			for bb := range reachableFrom(b.Succs[0], map[*ssa.BasicBlock]bool{b.Succs[1]: true}) {
				if b.Succs[0].Dominates(bb) {
					astBlocks[bb] = true
				}
			}
		}
	}
	// success edge of each step
	successDom := func(call *ssa.Call, b *ssa.BasicBlock) bool {
		idx := errIndex(call.Call.Signature())
		var e ssa.Value
		if call.Call.Signature().Results().Len() == 1 {
			e = call
		} else {
			for _, rfr := range *call.Referrers() {
				if ex, ok := rfr.(*ssa.Extract); ok && ex.Index == idx {
					e = ex
				}
			}
		}
		if e == nil {
			return false
		}
		for _, t := range nilTests(errFlow(e)) {
			s := t.blk.Succs[1-t.nonNil]
			if len(s.Preds) == 1 && s.Dominates(b) {
				return true
			}
		}
		return false
	}
	// stdout writers in run
	isStdoutPrint := func(s site) (bool, string) {
		switch s.name {
		case "fmt.Println", "fmt.Print":
			return true, "data"
		case "fmt.Printf":
			return true, "format"
		case "fmt.Fprintln", "fmt.Fprint", "fmt.Fprintf", "io.WriteString":
			if strings.Contains(c.symStr(s.call.Call.Args[0], 0), "os.Stdout") {
				if s.name == "fmt.Fprintf" {
					return true, "fformat"
				}
				return true, "fdata"
			}
		case "(*os.File).Write", "(*os.File).WriteString":
			if strings.Contains(c.symStr(s.call.Call.Args[0], 0), "os.Stdout") {
				return true, "fdata"
			}
		}
		return false, ""
	}
	// helper functions of the package that write to stdout are not understood
	for _, fn := range allFuncs(c.SCLI) {
		if fn == run {
			continue
		}
		for _, b := range fn.Blocks {
			for _, in := range b.Instrs {
				if call, ok := in.(*ssa.Call); ok {
					if is, _ := isStdoutPrint(site{call, calleeName(call)}); is {
						r.Instances++
						r.viol("stdout-helper|"+fname(fn), c.pos(call.Pos()), fname(fn), "a helper writes to standard output: the result must be printed by exactly one plain print of the serialised value in run()")
					}
				}
			}
		}
	}
	var prints []site
	for _, s := range all {
		if is, _ := isStdoutPrint(s); is && !astBlocks[s.call.Block()] {
			prints = append(prints, s)
		}
	}
	r.Instances++
	var print *ssa.Call
	if len(prints) != 1 {
		var where []string
		for _, p := range prints {
			where = append(where, c.pos(p.call.Pos()))
		}
		r.viol("J2|single-print", c.pos(run.Pos()), "run", fmt.Sprintf("%d stdout writes outside -ast mode (%s), expected exactly one", len(prints), strings.Join(where, ", ")))
	} else {
		print = prints[0].call
		_, mode := isStdoutPrint(prints[0])
		// operand: string(marshal result)
		var data []ssa.Value
		args := print.Call.Args
		switch mode {
		case "data":
			data = args
		case "fdata":
			data = args[1:]
		case "format":
			data = args
		case "fformat":
			data = args[1:]
		}
		s := ""
		for _, a := range data {
			s += c.symStr(a, 0) + ";"
		}
		mname := shortCallee(calleeName(marshal))
		wantSub := mname + "(" // the marshalled value
		okData := strings.Contains(s, wantSub) && strings.Contains(s, "Search(")
		if (mode == "format" || mode == "fformat") && len(data) > 0 {
			if _, isConst := data[0].(*ssa.Const); !isConst {
				okData = false
				s = "result used as a format string: " + s
			}
		}
		if okData {
			r.ok("J2|single-print", c.pos(print.Pos()), "run", "the only stdout write outside -ast prints "+s)
		} else {
			r.viol("J2|single-print", c.pos(print.Pos()), "run", "the stdout write does not print exactly the serialised Search result: "+s)
		}
	}
	// J-marshal input is exactly Search's result; Search's inputs
	r.Instances++
	{
		m0 := c.symStr(marshal.Call.Args[0], 0)
		sArgs := c.symStr(search.Call.Args[0], 0) + " , " + c.symStr(search.Call.Args[1], 0)
		pArg := c.symStr(parse.Call.Args[1], 0)
		wantSearch := shortCallee(calleeName(search)) + "("
		okM := strings.HasPrefix(m0, wantSearch) && strings.HasSuffix(m0, "#0")
		okE := c.symStr(search.Call.Args[0], 0) == pArg && strings.Contains(pArg, "flag.Args()")
		// data: the variable json.Unmarshal decoded into
		okD := false
		if mi, ok := unm.Call.Args[1].(*ssa.MakeInterface); ok {
			if al, ok := mi.X.(*ssa.Alloc); ok {
				if ld, ok := search.Call.Args[1].(*ssa.UnOp); ok && ld.X == al {
					okD = true
				}
			}
		}
		if okM && okE && okD {
			r.ok("J1|dataflow", c.pos(search.Pos()), "run", "Marshal(Search(expression, decoded input)); expression = "+pArg+" in Parse and Search alike")
		} else {
			r.viol("J1|dataflow", c.pos(search.Pos()), "run", fmt.Sprintf("marshal input is Search's result: %v (%s); same expression for Parse and Search: %v (%s); Search data is the decoded input: %v", okM, m0, okE, sArgs, okD))
		}
	}
	// J5: input bytes: everything from the -input file, or everything from stdin
	r.Instances++
	var readCalls []*ssa.Call
	{
		var edges []ssa.Value
		if ph, ok := unm.Call.Args[0].(*ssa.Phi); ok {
			edges = ph.Edges
		} else {
			edges = []ssa.Value{unm.Call.Args[0]}
		}
		fileOK, stdinOK, bad := false, false, ""
		for _, e := range edges {
			s := c.symStr(e, 0)
			ex, ok := e.(*ssa.Extract)
			var call *ssa.Call
			if ok {
				call, _ = ex.Tuple.(*ssa.Call)
			}
			if call == nil || ex.Index != 0 {
				bad = s
				continue
			}
			n := calleeName(call)
			arg := c.symStr(call.Call.Args[0], 0)
			fromFlag := strings.Contains(arg, `flag.String("input"`)
			switch {
			case (n == "io/ioutil.ReadFile" || n == "os.ReadFile") && fromFlag:
				fileOK = true
				readCalls = append(readCalls, call)
			case (n == "io/ioutil.ReadAll" || n == "io.ReadAll") && (arg == "os.Stdin" || arg == "*os.Stdin"):
				stdinOK = true
				readCalls = append(readCalls, call)
			case (n == "io/ioutil.ReadAll" || n == "io.ReadAll") && fromFlag && strings.Contains(arg, "os.Open("):
				fileOK = true
				readCalls = append(readCalls, call)
			default:
				bad = s
			}
		}
		if fileOK && stdinOK && bad == "" {
			r.ok("J5|input", c.pos(unm.Pos()), "run", "decodes the complete contents of the -input file or of standard input: "+c.symStr(unm.Call.Args[0], 0))
		} else {
			r.viol("J5|input", c.pos(unm.Pos()), "run", fmt.Sprintf("decoder input is not (all of -input file | all of stdin): file=%v stdin=%v other=%s", fileOK, stdinOK, bad))
		}
	}
	// J1: every return 0 outside -ast is dominated by all successes and the print
	n := 0
	for _, b := range run.Blocks {
		ret := blockReturn(b)
		if ret == nil {
			continue
		}
		n++
		r.Instances++
		key := fmt.Sprintf("J1|return#%d", n)
		pos := c.pos(ret.Pos())
		if k, ok := constInt(retResults(ret)[0]); ok && k == 0 {
			if astBlocks[b] {
				r.ok(key, pos, "run", "return 0 in -ast mode (prints the AST only)")
				continue
			}
			var missing []string
			for _, st := range []struct {
				n string
				c *ssa.Call
			}{{"Parse", parse}, {"json.Unmarshal", unm}, {"Search", search}, {"Marshal", marshal}} {
				if !successDom(st.c, b) {
					missing = append(missing, st.n)
				}
			}
			_ = readCalls // the reads are on alternative branches; their errors are E-DISC/cli's
			if print == nil || !(print.Block().Dominates(b)) {
				missing = append(missing, "the stdout print")
			}
			if len(missing) == 0 {
				r.ok(key, pos, "run", "status 0 only after Parse, read, decode, Search, Marshal succeeded and the result was printed")
			} else {
				r.viol(key, pos, "run", "status 0 is reachable without: "+strings.Join(missing, ", "))
			}
			continue
		}
		if k, ok := constInt(retResults(ret)[0]); ok && k != 0 {
			r.ok(key, pos, "run", fmt.Sprintf("non-zero status %d", k))
			continue
		}
		if call, ok := retResults(ret)[0].(*ssa.Call); ok {
			if f := staticCallee(call); f != nil && returnsOnlyNonZero(f) {
				r.ok(key, pos, "run", "status of "+f.Name()+"(…), which returns non-zero on all paths")
				continue
			}
		}
		r.viol(key, pos, "run", "status is neither the constant 0 after full success nor provably non-zero")
	}
	// the read errors of both channels must be checked before decoding: E-DISC/cli.
	// J3b: the print is after every failure point (no result on stdout before a failure can still happen)
	if print != nil {
		r.Instances++
		late := successDom(marshal, print.Block()) && successDom(search, print.Block())
		if late {
			r.ok("J3|print-last", c.pos(print.Pos()), "run", "the print happens only after Search and Marshal have succeeded: failure paths print no result")
		} else {
			r.viol("J3|print-last", c.pos(print.Pos()), "run", "the result can be printed before Search/Marshal are known to have succeeded")
		}
	}
	// J4: main
	r.Instances++
	{
		var seq []string
		for _, b := range mainF.Blocks {
			for _, in := range b.Instrs {
				switch in := in.(type) {
				case *ssa.Call:
					seq = append(seq, shortCallee(calleeName(in))+"("+func() string {
						var a []string
						for _, x := range in.Call.Args {
							a = append(a, c.symStr(x, 0))
						}
						return strings.Join(a, ",")
					}()+")")
				case *ssa.Return, *ssa.DebugRef:
				default:
					seq = append(seq, in.String())
				}
			}
		}
		if strings.Join(seq, ";") == "run();os.Exit(run())" {
			r.ok("J4|main", c.pos(mainF.Pos()), "main", "main is os.Exit(run())")
		} else {
			r.viol("J4|main", c.pos(mainF.Pos()), "main", "main does "+strings.Join(seq, "; ")+" instead of os.Exit(run())")
		}
	}
	sort.SliceStable(r.Obs, func(i, j int) bool { return r.Obs[i].Key < r.Obs[j].Key })
	_ = token.NoPos
	return r
}
