package main

import (
	"fmt"
	"go/token"
	"go/types"
	"regexp"
	"sort"
	"strings"

	"golang.org/x/tools/go/ssa"
)

func init() {
	register("T-RAW", ruleRawString)
	register("T-NUMBER", ruleNumberBase)
	register("H-FIELDNAME", ruleFieldName)
	register("K-TWINS", ruleTwins)
	register("T-STRINGER", ruleStringers)
	register("T-DISPATCH", ruleDispatch)
	register("T-SCAN", ruleScanLoops)
	register("T-DECODE", ruleDecode)
}

// The lexer's cursor primitives by role: next is the method () rune that moves
// the cursor itself, peek the other method () rune, back the method () that
// moves the cursor and returns nothing. Conventional names break ties.
func (c *Ctx) lexerPrims() (next, back, peek *ssa.Function) {
	if c.lexPrims[0] != nil {
		return c.lexPrims[0], c.lexPrims[1], c.lexPrims[2]
	}
	writesPos := func(f *ssa.Function) bool {
		for _, b := range f.Blocks {
			for _, in := range b.Instrs {
				if st, ok := in.(*ssa.Store); ok {
					if fa, ok := st.Addr.(*ssa.FieldAddr); ok {
						if pt, ok := fa.X.Type().Underlying().(*types.Pointer); ok && inFam(c.A.LexerFam, pt.Elem()) && fieldName(pt.Elem(), fa.Field) == "currentPos" {
							return true
						}
					}
				}
			}
		}
		return false
	}
	var nexts, peeks, backs []*ssa.Function
	for _, f := range allFuncs(c.SLib) {
		if f.Blocks == nil || f.Signature.Recv() == nil || f.Parent() != nil {
			continue
		}
		t := f.Signature.Recv().Type()
		if pt, ok := t.(*types.Pointer); ok {
			t = pt.Elem()
		}
		if !inFam(c.A.LexerFam, t) || f.Signature.Params().Len() != 0 {
			continue
		}
		res := f.Signature.Results()
		switch {
		case res.Len() == 1 && types.Identical(res.At(0).Type(), types.Typ[types.Rune]):
			if writesPos(f) {
				nexts = append(nexts, f)
			} else {
				peeks = append(peeks, f)
			}
		case res.Len() == 0 && writesPos(f):
			backs = append(backs, f)
		}
	}
	one := func(role, name string, cands []*ssa.Function, required bool) *ssa.Function {
		if len(cands) == 1 {
			return cands[0]
		}
		for _, f := range cands {
			if f.Name() == name {
				return f
			}
		}
		if required {
			lost("lexer primitive %s (conventionally %s): %d candidates", role, name, len(cands))
		}
		return nil
	}
	c.lexPrims[0] = one("read the next rune", "next", nexts, true)
	c.lexPrims[1] = one("push the last rune back", "back", backs, false)
	c.lexPrims[2] = one("look at the next rune", "peek", peeks, false)
	return c.lexPrims[0], c.lexPrims[1], c.lexPrims[2]
}

func (c *Ctx) lexerNext() *ssa.Function { n, _, _ := c.lexerPrims(); return n }

// callsTo lists the calls to callee inside fn.
func callsTo(fn, callee *ssa.Function) []*ssa.Call {
	var out []*ssa.Call
	for _, b := range fn.Blocks {
		for _, in := range b.Instrs {
			if call, ok := in.(*ssa.Call); ok && staticCallee(call) == callee {
				out = append(out, call)
			}
		}
	}
	return out
}

func instrIndex(in ssa.Instruction) int {
	for i, x := range in.Block().Instrs {
		if x == in {
			return i
		}
	}
	return -1
}

// errorOnly: every path from b ends in a return with a non-nil error and
// never re-enters the block head.
func errorOnly(b *ssa.BasicBlock, head *ssa.BasicBlock, errSlot int) bool {
	seen := map[*ssa.BasicBlock]bool{}
	ok := true
	var walk func(b *ssa.BasicBlock)
	walk = func(b *ssa.BasicBlock) {
		if !ok || seen[b] {
			return
		}
		seen[b] = true
		if b == head {
			ok = false
			return
		}
		if ret := blockReturn(b); ret != nil {
			if errSlot < 0 || isNilConst(retResults(ret)[errSlot]) {
				ok = false
			}
			return
		}
		for _, s := range b.Succs {
			walk(s)
		}
	}
	walk(b)
	return ok
}

// successOnly: every path from b reaches a return with a nil error without
// re-entering head.
func successOnly(b *ssa.BasicBlock, head *ssa.BasicBlock, errSlot int) bool {
	seen := map[*ssa.BasicBlock]bool{}
	ok := true
	var walk func(b *ssa.BasicBlock)
	walk = func(b *ssa.BasicBlock) {
		if !ok || seen[b] {
			return
		}
		seen[b] = true
		if b == head {
			ok = false
			return
		}
		if ret := blockReturn(b); ret != nil {
			if errSlot >= 0 && !isNilConst(retResults(ret)[errSlot]) {
				ok = false
			}
			return
		}
		for _, s := range b.Succs {
			walk(s)
		}
	}
	walk(b)
	return ok
}

// tokenTypeStored: in block b, the token type stored into a token literal
// (field 0 of a struct of type token), folded with f.
func (c *Ctx) tokenTypeStored(f *folder, b *ssa.BasicBlock) (string, bool) {
	for _, in := range b.Instrs {
		st, ok := in.(*ssa.Store)
		if !ok {
			continue
		}
		fa, ok := st.Addr.(*ssa.FieldAddr)
		if !ok || fa.Field != 0 {
			continue
		}
		pt, ok := fa.X.Type().(*types.Pointer)
		if !ok || !types.Identical(pt.Elem(), c.A.TokenT) {
			continue
		}
		if v, ok := f.eval(st.Val); ok && v.kind == 'i' {
			if n, ok := c.A.TokName[v.i]; ok {
				return n, true
			}
			return fmt.Sprintf("tokType(%d)", v.i), true
		}
		// the value may be computed later in the block than the folder got
		return "?", true
	}
	return "", false
}

func runeLit(r int64) string {
	switch {
	case r == -1:
		return "eof"
	case r >= 0x20 && r < 0x7f:
		return fmt.Sprintf("%q", rune(r))
	}
	return fmt.Sprintf("U+%04X", r)
}

// dispatchAction classifies what tokenize does with rune r.
func (c *Ctx) dispatchAction(fn *ssa.Function, next *ssa.Call, r int64) string {
	f := newFolder(c)
	f.env[next] = fval{kind: 'i', i: r, bits: 32}
	head := next.Block()
	errSlot := errIndex(fn.Signature)
	st := f.run(next.Block(), instrIndex(next)+1, nil)
	switch st.kind {
	case "panic":
		return "panic: " + st.what
	case "limit", "unknown":
		return "unknown: " + st.what
	case "return":
		ret := st.instr.(*ssa.Return)
		if errSlot >= 0 && isNilConst(retResults(ret)[errSlot]) {
			return "finish"
		}
		return "error"
	case "call":
		call := st.instr.(*ssa.Call)
		callee := staticCallee(call)
		if callee == c.lexerNext() {
			return "skip"
		}
		if callee != nil && callee.Pkg == c.SLib && callee.Signature.Recv() != nil {
			name := callee.Name()
			if strings.HasPrefix(name, "consume") || name == "matchOrElse" {
				var args []string
				for i, a := range st.args {
					if i == 0 {
						continue // receiver
					}
					if !st.argOK[i] || a.kind != 'i' {
						args = append(args, "?")
					} else if types.Identical(call.Call.Args[i].Type(), c.A.TokT) {
						args = append(args, c.A.TokName[a.i])
					} else {
						args = append(args, runeLit(a.i))
					}
				}
				if len(args) > 0 {
					return name + "(" + strings.Join(args, ",") + ")"
				}
				return name
			}
		}
		if errorOnly(call.Block(), head, errSlot) {
			return "error"
		}
		return "call " + calleeName(call)
	case "impure":
		blk := st.instr.Block()
		if errorOnly(blk, head, errSlot) {
			return "error"
		}
		if tt, ok := c.tokenTypeStored(f, blk); ok {
			// fold the rest of the block so that the stored value is known
			if tt == "?" {
				for _, in := range blk.Instrs {
					f.step(in)
				}
				tt, _ = c.tokenTypeStored(f, blk)
			}
			if successOnly(blk, head, errSlot) {
				return "finish:" + tt
			}
			return "emit:" + tt
		}
		return "impure " + st.instr.String()
	}
	return "unknown"
}

func expectedDispatch(r int64) string {
	switch {
	case r == -1:
		return "finish:tEOF"
	case (r >= 'A' && r <= 'Z') || (r >= 'a' && r <= 'z') || r == '_':
		return "consumeUnquotedIdentifier"
	case r == '-' || (r >= '0' && r <= '9'):
		return "consumeNumber"
	case r == ' ' || r == '\t' || r == '\n' || r == '\r':
		return "skip"
	}
	switch r {
	case '.':
		return "emit:tDot"
	case '*':
		return "emit:tStar"
	case ',':
		return "emit:tComma"
	case ':':
		return "emit:tColon"
	case '{':
		return "emit:tLbrace"
	case '}':
		return "emit:tRbrace"
	case ']':
		return "emit:tRbracket"
	case '(':
		return "emit:tLparen"
	case ')':
		return "emit:tRparen"
	case '@':
		return "emit:tCurrent"
	case '[':
		return "consumeLBracket"
	case '"':
		return "consumeQuotedIdentifier"
	case '\'':
		return "consumeRawStringLiteral"
	case '`':
		return "consumeLiteral"
	case '|':
		return "matchOrElse('|','|',tOr,tPipe)"
	case '<':
		return "matchOrElse('<','=',tLTE,tLT)"
	case '>':
		return "matchOrElse('>','=',tGTE,tGT)"
	case '!':
		return "matchOrElse('!','=',tNE,tNot)"
	case '=':
		return "matchOrElse('=','=',tEQ,tUnknown)"
	case '&':
		return "matchOrElse('&','&',tAnd,tExpref)"
	}
	return "error"
}

func runeDomain(tier string) []int64 {
	var d []int64
	hi := int64(0x3000)
	if tier == "thorough" {
		hi = 0x10FFFF
	}
	for r := int64(-1); r <= hi; r++ {
		d = append(d, r)
	}
	if tier != "thorough" {
		d = append(d, 0xD7FF, 0xE000, 0xFFFD, 0xFFFE, 0xFFFF, 0x10000, 0x1F600, 0x10FFFF)
	}
	return d
}

type mismatch struct {
	lo, hi    int64
	want, got string
}

func groupMismatches(dom []int64, want, got func(int64) string) []mismatch {
	var out []mismatch
	for _, r := range dom {
		w, g := want(r), got(r)
		if w == g {
			continue
		}
		if n := len(out); n > 0 && out[n-1].hi == r-1 && out[n-1].want == w && out[n-1].got == g {
			out[n-1].hi = r
			continue
		}
		out = append(out, mismatch{r, r, w, g})
	}
	return out
}

// T-DISPATCH: the first action of tokenize for every rune equals the
// specification's token table.
func ruleDispatchOld(c *Ctx) *RuleResult {
	r := &RuleResult{Doc: "tokenize's dispatch, folded for every rune of the domain, equals the lexical grammar: identifier start [A-Za-z_], ten single-character tokens, numbers, the four bracket/quote scanners, six two-character operator families, whitespace {space,tab,LF,CR} skipped without effect, EOF finishes with tEOF, every other rune is an unknown-character error", Floor: 128}
	fn := c.A.Tokenize
	calls := callsTo(fn, c.lexerNext())
	if len(calls) != 1 {
		lost("tokenize: expected one call of next(), found %d", len(calls))
	}
	dom := runeDomain(c.Tier)
	cache := map[int64]string{}
	got := func(x int64) string {
		if v, ok := cache[x]; ok {
			return v
		}
		v := c.dispatchAction(fn, calls[0], x)
		cache[x] = v
		return v
	}
	mm := groupMismatches(dom, expectedDispatch, got)
	r.Instances = len(dom)
	pos := c.pos(calls[0].Pos())
	// one obligation per ASCII rune class and one for "all other runes"
	classes := map[string][]int64{}
	for _, x := range dom {
		classes[expectedDispatch(x)] = append(classes[expectedDispatch(x)], x)
	}
	var names []string
	for n := range classes {
		names = append(names, n)
	}
	sort.Strings(names)
	bad := map[string][]string{}
	for _, m := range mm {
		rng := runeLit(m.lo)
		if m.hi != m.lo {
			rng += ".." + runeLit(m.hi)
		}
		bad[m.want] = append(bad[m.want], fmt.Sprintf("%s does %q", rng, m.got))
	}
	for _, n := range names {
		key := "class|" + n
		if b := bad[n]; len(b) > 0 {
			if len(b) > 6 {
				b = append(b[:6], fmt.Sprintf("… %d more ranges", len(b)-6))
			}
			r.viol(key, pos, fname(fn), fmt.Sprintf("runes that must %q: %s", n, strings.Join(b, "; ")))
		} else {
			r.ok(key, pos, fname(fn), fmt.Sprintf("%d runes of the domain all dispatch to %q", len(classes[n]), n))
		}
	}
	r.Notes = append(r.Notes, fmt.Sprintf("T-DISPATCH folded %d runes (tier %s)", len(dom), c.Tier))
	return r
}

// T-SCAN: the continue predicates of the identifier and number scanners.
func ruleScanLoopsOld(c *Ctx) *RuleResult {
	r := &RuleResult{Doc: "identifier scanner continues exactly on [A-Za-z0-9_], number scanner exactly on [0-9]; for every rune the predicate neither panics (mask index in range) nor depends on anything but the rune", Floor: 2}
	dom := runeDomain(c.Tier)
	type scan struct {
		fn   string
		want func(int64) bool
	}
	scans := []scan{
		{"consumeUnquotedIdentifier", func(x int64) bool {
			return (x >= 'A' && x <= 'Z') || (x >= 'a' && x <= 'z') || (x >= '0' && x <= '9') || x == '_'
		}},
		{"consumeNumber", func(x int64) bool { return x >= '0' && x <= '9' }},
	}
	for _, s := range scans {
		fn := c.method("Lexer", s.fn)
		calls := callsTo(fn, c.lexerNext())
		if len(calls) != 1 {
			lost("%s: expected one call of next(), found %d", s.fn, len(calls))
		}
		_, back, _ := c.lexerPrims()
		r.Instances++
		got := func(x int64) string {
			f := newFolder(c)
			f.env[calls[0]] = fval{kind: 'i', i: x, bits: 32}
			st := f.run(calls[0].Block(), instrIndex(calls[0])+1, nil)
			switch st.kind {
			case "panic":
				return "panic: " + st.what
			case "call":
				cal := staticCallee(st.instr.(*ssa.Call))
				if cal == c.lexerNext() {
					return "continue"
				}
				if cal == back {
					return "stop"
				}
				return "call " + calleeName(st.instr.(*ssa.Call))
			}
			return st.kind + " " + st.what
		}
		want := func(x int64) string {
			if s.want(x) {
				return "continue"
			}
			return "stop"
		}
		mm := groupMismatches(dom, want, got)
		pos := c.pos(calls[0].Pos())
		if len(mm) == 0 {
			r.ok("scan|"+s.fn, pos, fname(fn), fmt.Sprintf("folded for %d runes: continues exactly on the specified character class, never panics", len(dom)))
			continue
		}
		var b []string
		for i, m := range mm {
			if i >= 6 {
				b = append(b, fmt.Sprintf("… %d more", len(mm)-6))
				break
			}
			rng := runeLit(m.lo)
			if m.hi != m.lo {
				rng += ".." + runeLit(m.hi)
			}
			b = append(b, fmt.Sprintf("%s: wanted %s, code does %q", rng, m.want, m.got))
		}
		r.viol("scan|"+s.fn, pos, fname(fn), strings.Join(b, "; "))
	}
	return r
}

// ---------------------------------------------------------------- decoders

// symStr renders where a string/[]byte value comes from.
func (c *Ctx) symStr(v ssa.Value, depth int) string {
	if depth > 12 {
		return "…"
	}
	switch v := v.(type) {
	case *ssa.Const:
		if s, ok := constStr(v); ok {
			return fmt.Sprintf("%q", s)
		}
		if n, ok := constInt(v); ok {
			return fmt.Sprint(n)
		}
		return "const"
	case *ssa.Convert:
		return c.symStr(v.X, depth+1)
	case *ssa.ChangeType:
		return c.symStr(v.X, depth+1)
	case *ssa.BinOp:
		return c.symStr(v.X, depth+1) + v.Op.String() + c.symStr(v.Y, depth+1)
	case *ssa.Global:
		if v.Pkg != nil {
			return v.Pkg.Pkg.Name() + "." + v.Name()
		}
		return v.Name()
	case *ssa.Slice:
		if al, ok := v.X.(*ssa.Alloc); ok && al.Referrers() != nil {
			if at, ok := al.Type().(*types.Pointer).Elem().Underlying().(*types.Array); ok {
				elems := make([]string, at.Len())
				for _, rf := range *al.Referrers() {
					ia, ok := rf.(*ssa.IndexAddr)
					if !ok || ia.Referrers() == nil {
						continue
					}
					k, ok := constInt(ia.Index)
					if !ok || int(k) >= len(elems) {
						continue
					}
					for _, rr := range *ia.Referrers() {
						if st, ok := rr.(*ssa.Store); ok && st.Addr == ia {
							elems[k] = c.symStr(st.Val, depth+1)
						}
					}
				}
				return "[" + strings.Join(elems, ",") + "]"
			}
		}
		lo, hi := "", ""
		if v.Low != nil {
			lo = c.symStr(v.Low, depth+1)
		}
		if v.High != nil {
			hi = c.symStr(v.High, depth+1)
		}
		return c.symStr(v.X, depth+1) + "[" + lo + ":" + hi + "]"
	case *ssa.IndexAddr:
		return c.symStr(v.X, depth+1) + "[" + c.symStr(v.Index, depth+1) + "]"
	case *ssa.Extract:
		if call, ok := v.Tuple.(*ssa.Call); ok {
			if s, ok := c.inlineWrapper(call, v.Index, depth); ok {
				return s
			}
		}
		return c.symStr(v.Tuple, depth+1) + fmt.Sprintf("#%d", v.Index)
	case *ssa.Call:
		if _, isTuple := v.Type().(*types.Tuple); !isTuple {
			// (a constructor that returns a fresh object keeps its name)
			if s, ok := c.inlineWrapper(v, 0, depth); ok && !strings.Contains(s, "local:") {
				return s
			}
		}
		var a []string
		for _, x := range v.Call.Args {
			a = append(a, c.symStr(x, depth+1))
		}
		n := shortCallee(calleeName(v))
		n = strings.TrimPrefix(n, "builtin.")
		return n + "(" + strings.Join(a, ",") + ")"
	case *ssa.Parameter:
		// a parameter of an unexported helper with exactly one call site stands for that argument
		if s, ok := c.singleCallArg(v, depth); ok {
			return s
		}
		return paramRef(v)
	case *ssa.Field:
		return c.symStr(v.X, depth+1) + "." + fieldName(v.X.Type(), v.Field)
	case *ssa.FieldAddr:
		// the address of an embedded struct stands for the outer object (its
		// fields and methods are promoted)
		if isEmbeddedField(v) {
			return c.symStr(v.X, depth+1)
		}
	case *ssa.UnOp:
		if v.Op == token.MUL {
			if fa, ok := v.X.(*ssa.FieldAddr); ok {
				return c.symStr(fa.X, depth+1) + "." + fieldName(fa.X.Type(), fa.Field)
			}
			if al, ok := v.X.(*ssa.Alloc); ok {
				// a spilled parameter or single-assignment local
				for _, r := range *al.Referrers() {
					if st, ok := r.(*ssa.Store); ok && st.Addr == al {
						return c.symStr(st.Val, depth+1)
					}
				}
				return "local:" + al.Comment
			}
			return "*" + c.symStr(v.X, depth+1)
		}
	case *ssa.Alloc:
		if v.Referrers() != nil {
			var stores []ssa.Value
			for _, r := range *v.Referrers() {
				if st, ok := r.(*ssa.Store); ok && st.Addr == v {
					stores = append(stores, st.Val)
				}
			}
			if len(stores) == 1 {
				if p, ok := stores[0].(*ssa.Parameter); ok {
					return c.symStr(p, depth+1)
				}
			}
		}
		return "local:" + v.Comment
	case *ssa.MakeInterface:
		return c.symStr(v.X, depth+1)
	case *ssa.TypeAssert:
		return c.symStr(v.X, depth+1) + ".(" + shortType(v.AssertedType.String()) + ")"
	case *ssa.Phi:
		return "phi"
	}
	return "?"
}

// isEmbeddedField: fa addresses an embedded (anonymous) struct field.
func isEmbeddedField(fa *ssa.FieldAddr) bool {
	t := fa.X.Type()
	if p, ok := t.Underlying().(*types.Pointer); ok {
		t = p.Elem()
	}
	st, ok := t.Underlying().(*types.Struct)
	return ok && fa.Field < st.NumFields() && st.Field(fa.Field).Embedded()
}

func fieldName(t types.Type, i int) string {
	if p, ok := t.Underlying().(*types.Pointer); ok {
		t = p.Elem()
	}
	if n, ok := t.(*types.Named); ok {
		if r, ok := fieldRoles[n][i]; ok {
			return r // the field's role (its conventional name), whatever it is called today
		}
	}
	if st, ok := t.Underlying().(*types.Struct); ok && i < st.NumFields() {
		return st.Field(i).Name()
	}
	return fmt.Sprint(i)
}

// T-DECODE: quoted identifiers and JSON literals are decoded by
// encoding/json.Unmarshal from exactly the delimited text.
func ruleDecode(c *Ctx) *RuleResult {
	r := &RuleResult{Doc: "quoted identifier = json.Unmarshal of '\"' + text-up-to-closing-quote + '\"'; JSON literal = json.Unmarshal of the text up to the closing backtick with only \\` replaced by `; raw string and identifier tokens carry their text unchanged into the node", Floor: 4}
	find := func(fn *ssa.Function, within *Clause, sw *EnumSwitch) []*ssa.Call {
		var out []*ssa.Call
		for _, b := range fn.Blocks {
			for _, in := range b.Instrs {
				call, ok := in.(*ssa.Call)
				if !ok {
					continue
				}
				if within != nil && sw.clauseAt(instrPos(call)) != within {
					continue
				}
				n := calleeName(call)
				if strings.HasPrefix(n, "encoding/json.") || strings.HasPrefix(n, "(*encoding/json.") {
					out = append(out, call)
				}
			}
		}
		return out
	}
	// (a) quoted identifier
	{
		fn := c.tokenProducerFn("tQuotedIdentifier", "consumeQuotedIdentifier")
		r.Instances++
		calls := find(fn, nil, nil)
		if len(calls) == 0 {
			// the decoding may sit in a plain helper the scanner calls with the text
			for _, b := range fn.Blocks {
				for _, in := range b.Instrs {
					if call, ok := in.(*ssa.Call); ok {
						if g := staticCallee(call); g != nil && g.Pkg == c.SLib && g.Blocks != nil && g.Signature.Recv() == nil {
							if cs := find(g, nil, nil); len(cs) > 0 {
								calls = append(calls, cs...)
							}
						}
					}
				}
			}
		}
		pos := c.pos(fn.Pos())
		if len(calls) == 0 {
			// the decoding is not done in this function (handed to a helper through a
			// function value, a table ...): this rule does not see it
			r.undecided("quoted-identifier", pos, fname(fn), "no json call in the scanner itself: where the delimited text is decoded is not visible to this rule")
		} else if len(calls) != 1 || calleeName(calls[0]) != "encoding/json.Unmarshal" {
			r.viol("quoted-identifier", pos, fname(fn), fmt.Sprintf("expected exactly one call of encoding/json.Unmarshal (whole-text decoder), found %d json calls %v", len(calls), callNames(calls)))
		} else {
			got := c.symStr(calls[0].Call.Args[0], 0)
			want := `"\""+(*Lexer).consumeUntil(param#0,34)#0+"\""`
			// the delimiter scanner is recognised by its shape (a lexer method taking the
			// closing rune), not by its name
			// ... or the same text assembled by appending to a byte buffer: '"', the delimited text, '"'
			appendForm := regexp.MustCompile(`^append\(append\(append\([^,()]*(\([^()]*\))?,\[34\]\),\(\*\w+\)\.\w+\((param#0|\?),34\)#0\),\[34\]\)$`)
			if regexp.MustCompile(`^"\\""\+\(\*\w+\)\.\w+\((param#0|\?),34\)#0\+"\\""$`).MatchString(got) || appendForm.MatchString(got) {
				r.ok("quoted-identifier", c.pos(calls[0].Pos()), fname(fn), "decoder input is "+got)
			} else {
				r.viol("quoted-identifier", c.pos(calls[0].Pos()), fname(fn), "decoder input is "+got+", wanted "+want)
			}
		}
	}
	// (b) JSON literal token text
	{
		fn := c.tokenProducerFn("tJSONLiteral", "consumeLiteral")
		r.Instances++
		pos := c.pos(fn.Pos())
		// the value field of the returned token
		got := ""
		for _, b := range fn.Blocks {
			for _, in := range b.Instrs {
				st, ok := in.(*ssa.Store)
				if !ok {
					continue
				}
				fa, ok := st.Addr.(*ssa.FieldAddr)
				if !ok {
					continue
				}
				pt, ok := fa.X.Type().(*types.Pointer)
				if !ok || !types.Identical(pt.Elem(), c.A.TokenT) || fieldName(fa.X.Type(), fa.Field) != "value" {
					continue
				}
				if _, isConst := st.Val.(*ssa.Const); isConst {
					continue
				}
				got = c.symStr(st.Val, 0)
			}
		}
		want := "strings.Replace((*Lexer).consumeUntil(param#0,96)#0,\"\\\\`\",\"`\",-1)"
		alt := "strings.ReplaceAll((*Lexer).consumeUntil(param#0,96)#0,\"\\\\`\",\"`\")"
		unnamed := regexp.MustCompile(`\(\*\w+\)\.\w+\((param#0|\?),96\)`).ReplaceAllString(got, "(*Lexer).consumeUntil(param#0,96)")
		if got == want || got == alt || unnamed == want || unnamed == alt {
			r.ok("json-literal-text", pos, fname(fn), "token text is "+got)
		} else if got == "" {
			r.undecided("json-literal-text", pos, fname(fn), "the scanner does not build its token here: where the token text comes from is not visible to this rule")
		} else {
			r.viol("json-literal-text", pos, fname(fn), "token text is "+got+", wanted "+want)
		}
	}
	// (c) nud: literal node payload
	{
		fn := c.A.Nud
		sw, _ := c.switchLabels(fn, c.A.TokT)
		cl := sw.clause("tJSONLiteral")
		r.Instances++
		if cl == nil {
			r.viol("json-literal-decode", c.pos(fn.Pos()), fname(fn), "nud has no tJSONLiteral clause")
		} else {
			calls := find(fn, cl, sw)
			if len(calls) != 1 || calleeName(calls[0]) != "encoding/json.Unmarshal" {
				r.viol("json-literal-decode", c.pos(cl.Pos), fname(fn), fmt.Sprintf("expected exactly one call of encoding/json.Unmarshal (whole-text decoder, rejects trailing data), found %v", callNames(calls)))
			} else {
				got := c.symStr(calls[0].Call.Args[0], 0)
				dst := calls[0].Call.Args[1]
				dstOK := false
				if mi, ok := dst.(*ssa.MakeInterface); ok {
					if al, ok := mi.X.(*ssa.Alloc); ok {
						if pt, ok := al.Type().(*types.Pointer); ok {
							if it, ok := pt.Elem().Underlying().(*types.Interface); ok && it.Empty() {
								// and the node payload is a load of the same alloc
								for _, p := range c.producersByType()["ASTLiteral"] {
									_ = p
								}
								dstOK = c.literalPayloadFrom(fn, cl, sw, al)
							}
						}
					}
				}
				if c.isTokenTextOfParam(fn, calls[0].Call.Args[0]) && dstOK {
					r.ok("json-literal-decode", c.pos(calls[0].Pos()), fname(fn), "literal payload = json.Unmarshal(token text) into an interface{}: same representation as a decoded document")
				} else {
					r.viol("json-literal-decode", c.pos(calls[0].Pos()), fname(fn), fmt.Sprintf("decoder input is %s (wanted the token text), destination-is-the-node-payload=%v", got, dstOK))
				}
			}
		}
		// (d) string literal / identifiers: payload is the token text
		for _, tk := range []string{"tStringLiteral", "tUnquotedIdentifier", "tQuotedIdentifier"} {
			r.Instances++
			cl := sw.clause(tk)
			if cl == nil {
				r.viol("payload|"+tk, c.pos(fn.Pos()), fname(fn), "no clause")
				continue
			}
			okAll, n := true, 0
			detail := ""
			for _, b := range fn.Blocks {
				for _, in := range b.Instrs {
					st, ok := in.(*ssa.Store)
					if !ok || sw.clauseAt(instrPos(st)) != cl {
						continue
					}
					fa, ok := st.Addr.(*ssa.FieldAddr)
					if !ok || !c.isASTNodePtr(fa.X.Type()) || fa.Field != fValue {
						continue
					}
					n++
					mi, ok := st.Val.(*ssa.MakeInterface)
					if !ok || !c.isTokenTextOfParam(fn, mi.X) {
						okAll = false
						detail = c.symStr(st.Val, 0)
					}
				}
			}
			if n > 0 && okAll {
				r.ok("payload|"+tk, c.pos(cl.Pos), fname(fn), "node payload is the token's text, unchanged")
			} else {
				r.viol("payload|"+tk, c.pos(cl.Pos), fname(fn), fmt.Sprintf("node payload is not the unchanged token text (%d stores; %s)", n, detail))
			}
		}
	}
	return r
}

func callNames(cs []*ssa.Call) []string {
	var out []string
	for _, c := range cs {
		out = append(out, calleeName(c))
	}
	return out
}

// literalPayloadFrom: in the clause, some ASTNode.value store is a load of al.
func (c *Ctx) literalPayloadFrom(fn *ssa.Function, cl *Clause, sw *EnumSwitch, al *ssa.Alloc) bool {
	for _, b := range fn.Blocks {
		for _, in := range b.Instrs {
			st, ok := in.(*ssa.Store)
			if !ok || sw.clauseAt(instrPos(st)) != cl {
				continue
			}
			fa, ok := st.Addr.(*ssa.FieldAddr)
			if !ok || !c.isASTNodePtr(fa.X.Type()) || fa.Field != fValue {
				continue
			}
			if ld, ok := st.Val.(*ssa.UnOp); ok && ld.Op == token.MUL && ld.X == al {
				return true
			}
		}
	}
	return false
}

// T-STRINGER: the generated String() methods, reachable through error
// messages, cannot index outside their tables for any value of the enumeration type.
func ruleStringers(c *Ctx) *RuleResult {
	r := &RuleResult{Doc: "generated stringers (tokType, astNodeType): folded for every value in a window around the table and at the extremes; the range guard keeps both table indices and the name slice in bounds", Floor: 2}
	for _, tn := range []string{"tokType", "astNodeType"} {
		fn := c.methodOpt(tn, "String")
		if fn == nil {
			continue
		}
		r.Instances++
		dom := []int64{-9223372036854775808, -129, -1, 9223372036854775807, 255, 256, 65536}
		for i := int64(-4); i < 64; i++ {
			dom = append(dom, i)
		}
		var bad []string
		for _, v := range dom {
			f := newFolder(c)
			f.env[fn.Params[0]] = fval{kind: 'i', i: v, bits: 64}
			st := f.run(fn.Blocks[0], 0, nil)
			switch st.kind {
			case "return":
			case "call":
				// strconv.FormatInt for out-of-range values: fine
				if !strings.HasPrefix(calleeName(st.instr.(*ssa.Call)), "strconv.") {
					bad = append(bad, fmt.Sprintf("%d: calls %s", v, calleeName(st.instr.(*ssa.Call))))
				}
			default:
				bad = append(bad, fmt.Sprintf("%d: %s %s", v, st.kind, st.what))
			}
		}
		if len(bad) == 0 {
			r.ok("stringer|"+tn, c.pos(fn.Pos()), fname(fn), fmt.Sprintf("folded for %d values: returns a name or formats the number, never indexes out of range", len(dom)))
		} else {
			if len(bad) > 5 {
				bad = bad[:5]
			}
			r.viol("stringer|"+tn, c.pos(fn.Pos()), fname(fn), strings.Join(bad, "; "))
		}
	}
	return r
}

// T-RAW: the raw-string scanner treats only the quote and the backslash-quote
// pair specially.
func ruleRawString(c *Ctx) *RuleResult {
	r := &RuleResult{Doc: "consumeRawStringLiteral compares the scanned rune only with ' and \\, the look-ahead only with ' and eof, and writes to its buffer only pieces of the expression and the quote: every other backslash sequence is preserved", Floor: 3}
	fn := c.tokenProducerFn("tStringLiteral", "consumeRawStringLiteral")
	next, _, peek := c.lexerPrims()
	srcOf := func(v ssa.Value) string {
		seen := map[ssa.Value]bool{}
		var f func(v ssa.Value) string
		f = func(v ssa.Value) string {
			if seen[v] {
				return ""
			}
			seen[v] = true
			switch v := v.(type) {
			case *ssa.Call:
				switch staticCallee(v) {
				case next:
					return "current"
				case peek:
					return "peek"
				}
			case *ssa.Phi:
				out := ""
				for _, e := range v.Edges {
					if s := f(e); s != "" {
						out = s
					}
				}
				return out
			}
			return ""
		}
		return f(v)
	}
	allowed := map[string]map[int64]bool{"current": {'\'': true, '\\': true, -1: true}, "peek": {'\'': true, -1: true}}
	n := 0
	for _, b := range fn.Blocks {
		for _, in := range b.Instrs {
			switch in := in.(type) {
			case *ssa.BinOp:
				k, ok := constInt(in.Y)
				if !ok {
					continue
				}
				src := srcOf(in.X)
				if src == "" {
					continue
				}
				n++
				r.Instances++
				key := fmt.Sprintf("compare|%s|%s", src, runeLit(k))
				if allowed[src][k] {
					r.ok(key, c.pos(in.Pos()), fname(fn), src+" rune compared with "+runeLit(k))
				} else {
					r.viol(key, c.pos(in.Pos()), fname(fn), "the "+src+" rune is compared with "+runeLit(k)+": a raw string gives special meaning only to ' and to the pair \\'")
				}
			case *ssa.Call:
				nm := calleeName(in)
				if !strings.HasPrefix(nm, "(*bytes.Buffer).Write") {
					continue
				}
				n++
				r.Instances++
				arg := ""
				if len(in.Call.Args) > 1 {
					arg = c.symStr(in.Call.Args[1], 0)
				}
				key := fmt.Sprintf("write|%s#%d", shortCallee(nm), n)
				if nm == "(*bytes.Buffer).WriteString" && (arg == `"'"` || strings.HasPrefix(arg, "param#0.expression[")) {
					r.ok(key, c.pos(in.Pos()), fname(fn), "writes "+arg)
				} else {
					r.viol(key, c.pos(in.Pos()), fname(fn), "writes "+arg+" with "+shortCallee(nm)+": only pieces of the expression and the unescaped quote may be emitted")
				}
			}
		}
	}
	return r
}

// T-NUMBER: number tokens are decimal.
func ruleNumberBase(c *Ctx) *RuleResult {
	r := &RuleResult{Doc: "every integer conversion reachable from Parse converts a token's text in base 10 (strconv.Atoi, or ParseInt/ParseUint with base 10): index and slice numbers are decimal", Floor: 1}
	// functions reachable from Parse through static calls inside the library
	reach := map[*ssa.Function]bool{}
	var visit func(f *ssa.Function)
	visit = func(f *ssa.Function) {
		if f == nil || reach[f] || f.Pkg != c.SLib {
			return
		}
		reach[f] = true
		for _, b := range f.Blocks {
			for _, in := range b.Instrs {
				if call, ok := in.(*ssa.Call); ok {
					visit(staticCallee(call))
					for _, a := range call.Call.Args {
						switch fv := a.(type) {
						case *ssa.Function:
							visit(fv)
						case *ssa.MakeClosure:
							if cf, ok := fv.Fn.(*ssa.Function); ok {
								visit(boundTarget(cf))
								visit(cf)
							}
						}
					}
				}
			}
		}
		for _, an := range f.AnonFuncs {
			visit(an)
		}
	}
	visit(c.A.Parse)
	isTokenText := func(v ssa.Value) bool {
		base, fld, ok := fieldRead(v)
		if !ok {
			return false
		}
		t := base.Type()
		if pt, ok := t.Underlying().(*types.Pointer); ok {
			t = pt.Elem()
		}
		return types.Identical(t, c.A.TokenT) && fieldName(c.A.TokenT, fld) == "value"
	}
	var fns []*ssa.Function
	for f := range reach {
		fns = append(fns, f)
	}
	sort.Slice(fns, func(i, j int) bool { return fns[i].Pos() < fns[j].Pos() })
	for _, fn := range fns {
		if fn == c.A.Tokenize || (fn.Signature.Recv() != nil && strings.Contains(fn.Signature.Recv().Type().String(), "Lexer")) {
			continue // the lexer does not convert numbers; literals are T-DECODE's
		}
		n := 0
		for _, b := range fn.Blocks {
			for _, in := range b.Instrs {
				call, ok := in.(*ssa.Call)
				if !ok {
					continue
				}
				nm := calleeName(call)
				if nm != "strconv.Atoi" && nm != "strconv.ParseInt" && nm != "strconv.ParseUint" {
					continue
				}
				n++
				r.Instances++
				key := fmt.Sprintf("%s|convert#%d", fn.Name(), n)
				arg := c.symStr(call.Call.Args[0], 0)
				okArg := isTokenText(call.Call.Args[0])
				if !okArg {
					if p, ok := call.Call.Args[0].(*ssa.Parameter); ok {
						// a helper that is handed the text: every call site passes a token's text
						sites, good := 0, 0
						for _, caller := range allFuncs(c.SLib) {
							for _, cs := range callsTo(caller, fn) {
								sites++
								for i, q := range fn.Params {
									if q == p && i < len(cs.Call.Args) && isTokenText(cs.Call.Args[i]) {
										good++
									}
								}
							}
						}
						okArg = sites > 0 && sites == good
					}
				}
				okBase := nm == "strconv.Atoi"
				if nm == "strconv.ParseInt" || nm == "strconv.ParseUint" {
					if k, ok := constInt(call.Call.Args[1]); ok && k == 10 {
						okBase = true
					}
				}
				switch {
				case okArg && okBase:
					r.ok(key, c.pos(call.Pos()), fname(fn), nm+"("+arg+"): decimal")
				case !okBase:
					r.viol(key, c.pos(call.Pos()), fname(fn), fmt.Sprintf("number converted by %s(%s…): must be a base-10 conversion of the token text (leading zeros are not octal)", nm, arg))
				default:
					r.undecided(key, c.pos(call.Pos()), fname(fn), fmt.Sprintf("%s(%s): cannot tell that the converted text is a token's text", nm, arg))
				}
			}
		}
	}
	return r
}

var fieldNameRe = regexp.MustCompile(`^unicode\.ToUpper\(unicode/utf8\.DecodeRuneInString\((.+)\)#0\)\+(.+)\[unicode/utf8\.DecodeRuneInString\((.+)\)#1:\]$`)

// H-FIELDNAME: struct fields are matched after upper-casing the first rune.
func ruleFieldName(c *Ctx) *RuleResult {
	r := &RuleResult{Doc: "fieldFromStruct looks up unicode.ToUpper(first rune of key) + rest of key (rune-wise, not byte-wise)", Floor: 1}
	var fn *ssa.Function
	want := "unicode.ToUpper(unicode/utf8.DecodeRuneInString(param#1)#0)+param#1[unicode/utf8.DecodeRuneInString(param#1)#1:]"
	n := 0
	for _, f := range allFuncs(c.SLib) {
		for _, b := range f.Blocks {
			for _, in := range b.Instrs {
				call, ok := in.(*ssa.Call)
				if !ok || calleeName(call) != "(reflect.Value).FieldByName" {
					continue
				}
				n++
				r.Instances++
				got := c.symStr(call.Call.Args[1], 0)
				key := fmt.Sprintf("fieldname#%d", n)
				if m := fieldNameRe.FindStringSubmatch(got); got == want || (m != nil && m[1] == m[2] && m[2] == m[3]) {
					r.ok(key, c.pos(call.Pos()), fname(f), "looks up "+got)
				} else {
					r.viol(key, c.pos(call.Pos()), fname(f), "looks up "+got+"; wanted "+want)
				}
			}
		}
	}
	_ = fn
	return r
}

// K-TWINS: the reflection twin of the index case adjusts and guards the
// index exactly like the generic case (sibling cross-check).
func ruleTwins(c *Ctx) *RuleResult {
	r := &RuleResult{Doc: "ASTIndex: the generic and the reflective access use the same index expression and the same guards, modulo len(x) vs reflect.Value.Len()", Floor: 1}
	fn := c.A.Exec
	cl := c.A.ExecSw.clause("ASTIndex")
	if cl == nil {
		lost("no ASTIndex case")
	}
	norm := func(s string) string {
		re := []string{"len(", "(reflect.Value).Len("}
		for _, p := range re {
			for {
				i := strings.Index(s, p)
				if i < 0 {
					break
				}
				depth, j := 0, i+len(p)-1
				for ; j < len(s); j++ {
					if s[j] == '(' {
						depth++
					} else if s[j] == ')' {
						depth--
						if depth == 0 {
							break
						}
					}
				}
				if j >= len(s) {
					break
				}
				s = s[:i] + "LEN" + s[j+1:]
			}
		}
		return s
	}
	guards := func(b *ssa.BasicBlock) string {
		var out []string
		for d := b; d.Idom() != nil; d = d.Idom() {
			id := d.Idom()
			ifi := blockIf(id)
			if ifi == nil || c.A.ExecSw.clauseAt(instrPos(ifi)) != cl {
				if ifi == nil || c.A.ExecSw.clauseAt(ifi.Cond.Pos()) != cl {
					continue
				}
			}
			pol := ""
			switch {
			case id.Succs[0] == d || (id.Succs[0].Dominates(d) && !id.Succs[1].Dominates(d)):
				pol = "T:"
			case id.Succs[1] == d || id.Succs[1].Dominates(d):
				pol = "F:"
			default:
				continue
			}
			s := norm(c.symStr(ifi.Cond, 0))
			if strings.Contains(s, "LEN") || strings.Contains(s, ">=0") || strings.Contains(s, "<0") {
				out = append(out, pol+s)
			}
		}
		sort.Strings(out)
		return strings.Join(out, " & ")
	}
	var gen, ref []string
	for _, b := range fn.Blocks {
		for _, in := range b.Instrs {
			if c.A.ExecSw.clauseAt(instrPos(in)) != cl {
				continue
			}
			switch in := in.(type) {
			case *ssa.IndexAddr:
				if _, isConst := in.Index.(*ssa.Const); !isConst {
					gen = append(gen, norm(c.symStr(in.Index, 0))+" | "+guards(b))
				}
			case *ssa.Call:
				if calleeName(in) == "(reflect.Value).Index" {
					ref = append(ref, norm(c.symStr(in.Call.Args[1], 0))+" | "+guards(b))
				}
			}
		}
	}
	r.Instances++
	pos := c.pos(cl.Pos)
	switch {
	case len(gen) != 1 || len(ref) != 1:
		r.undecided("index-twins", pos, fname(fn), fmt.Sprintf("expected one generic and one reflective element access, found %d and %d", len(gen), len(ref)))
	case gen[0] == ref[0]:
		r.ok("index-twins", pos, fname(fn), "both twins access element "+gen[0])
	default:
		r.viol("index-twins", pos, fname(fn), "the generic case accesses ["+gen[0]+"] but the reflection twin accesses ["+ref[0]+"]: Go slices would index differently from JSON arrays")
	}
	return r
}

// inlineWrapper: if call targets a library function whose success returns all
// yield the same expression for result idx (a thin wrapper), render that
// expression with the wrapper's parameters replaced by the call's arguments.
func (c *Ctx) inlineWrapper(call *ssa.Call, idx int, depth int) (string, bool) {
	callee := staticCallee(call)
	if callee == nil || callee.Pkg != c.SLib || callee.Blocks == nil || depth > 8 {
		return "", false
	}
	if callee.Object() != nil && callee.Object().Exported() {
		return "", false // API functions and exported methods are rendered by name
	}
	n := 0
	for _, b := range callee.Blocks {
		n += len(b.Instrs)
	}
	if n > 40 {
		return "", false
	}
	var exprs []string
	errSlot := errIndex(callee.Signature)
	for _, b := range callee.Blocks {
		ret := blockReturn(b)
		if ret == nil {
			continue
		}
		res := retResults(ret)
		if errSlot >= 0 && errSlot < len(res) && !isNilConst(res[errSlot]) && idx != errSlot {
			// an error return (or a forwarded error): skip zero-valued companions
			if k, ok := res[idx].(*ssa.Const); ok && (k.Value == nil) {
				continue
			}
		}
		if idx >= len(res) {
			return "", false
		}
		exprs = append(exprs, c.symStrSubst(res[idx], callee, call, depth+1))
	}
	if len(exprs) == 0 {
		return "", false
	}
	for _, e := range exprs[1:] {
		if e != exprs[0] {
			return "", false
		}
	}
	if strings.Contains(exprs[0], "phi") || strings.Contains(exprs[0], "…") {
		return "", false // not one expression of the arguments: keep the call
	}
	return exprs[0], true
}

// symStrSubst renders v (a value of callee) with callee's parameters replaced
// by the arguments of call.
func (c *Ctx) symStrSubst(v ssa.Value, callee *ssa.Function, call *ssa.Call, depth int) string {
	if c.subst == nil {
		c.subst = map[*ssa.Parameter]ssa.Value{}
	}
	var saved []*ssa.Parameter
	for i, p := range callee.Params {
		if i < len(call.Call.Args) {
			if _, busy := c.subst[p]; !busy {
				c.subst[p] = call.Call.Args[i]
				saved = append(saved, p)
			}
		}
	}
	s := c.symStr(v, depth)
	for _, p := range saved {
		delete(c.subst, p)
	}
	return s
}

// singleCallArg: the argument a parameter stands for, when known.
func (c *Ctx) singleCallArg(p *ssa.Parameter, depth int) (string, bool) {
	if depth > 8 {
		return "", false
	}
	if v, ok := c.subst[p]; ok {
		delete(c.subst, p)
		s := c.symStr(v, depth+1)
		c.subst[p] = v
		return s, true
	}
	fn := p.Parent()
	if fn == nil || fn.Pkg != c.SLib || (fn.Object() != nil && fn.Object().Exported()) {
		return "", false
	}
	if c.helperSites == nil {
		c.helperSites = map[*ssa.Function][]*ssa.Call{}
		for _, f := range allFuncs(c.SLib) {
			for _, b := range f.Blocks {
				for _, in := range b.Instrs {
					if call, ok := in.(*ssa.Call); ok {
						if sc := staticCallee(call); sc != nil && sc.Pkg == c.SLib {
							c.helperSites[sc] = append(c.helperSites[sc], call)
						}
					}
				}
			}
		}
	}
	sites := c.helperSites[fn]
	if len(sites) == 0 {
		return "", false
	}
	idx := -1
	for i, q := range fn.Params {
		if q == p {
			idx = i
		}
	}
	if idx < 0 || (idx == 0 && fn.Signature.Recv() != nil) {
		return "", false // receivers keep their name: rules speak about "the lexer", "the parser"
	}
	// all call sites must pass the same rendered argument
	var first string
	for i, s := range sites {
		if idx >= len(s.Call.Args) || s.Parent() == fn {
			return "", false
		}
		r := c.symStr(s.Call.Args[idx], depth+1)
		if i == 0 {
			first = r
		} else if r != first {
			return "", false
		}
	}
	return first, true
}

// T-BUF: the lexer's scratch buffer. A field of type bytes.Buffer /
// strings.Builder in the Lexer accumulates the text of one token; the next
// token that uses it must start from an empty buffer, or it denotes the
// concatenation of both. Typestate per lexer method, two states {clean, dirty}:
//
//	entry: clean (inductive invariant);  Write*: dirty;  Reset: clean;
//	a call of another lexer method that uses the buffer needs clean and leaves clean;
//	every return that is not a failure (non-nil error => lexing stops, E-DISC) needs clean.
//
// Base case: tokenize runs on a fresh Lexer (H-RESET's lexer-fresh) or resets
// the buffer before anything else touches it.
func init() { register("T-BUF", ruleScratchBuffer) }

func ruleScratchBuffer(c *Ctx) *RuleResult {
	r := &RuleResult{Doc: "the lexer's scratch buffer is empty whenever a scanner starts: every lexer method that writes it resets it on every path to a non-failing return, and tokenize starts from a fresh lexer or a reset buffer", Floor: 1}
	// the member of the lexer's struct family that holds the buffer
	bufOwner := c.A.LexerT
	for T := range c.A.LexerFam {
		if m, ok := fieldRoles[T]; ok {
			for _, role := range m {
				if role == "buf" {
					bufOwner = T
				}
			}
		}
	}
	st := bufOwner.Underlying().(*types.Struct)
	isBufType := func(t types.Type) bool {
		n, ok := t.(*types.Named)
		if !ok || n.Obj().Pkg() == nil {
			return false
		}
		q := n.Obj().Pkg().Path() + "." + n.Obj().Name()
		return q == "bytes.Buffer" || q == "strings.Builder"
	}
	var bufFields []int
	for i := 0; i < st.NumFields(); i++ {
		if isBufType(st.Field(i).Type()) {
			bufFields = append(bufFields, i)
		}
	}
	if len(bufFields) == 0 {
		r.Instances++
		r.ok("no-scratch-buffer", c.pos(c.A.Tokenize.Pos()), "", "the Lexer has no accumulating buffer field: nothing can leak from one token into the next")
		return r
	}
	isLexerMethod := func(f *ssa.Function) bool {
		if f == nil || f.Signature.Recv() == nil || f.Blocks == nil {
			return false
		}
		pt, ok := f.Signature.Recv().Type().(*types.Pointer)
		return ok && types.Identical(pt.Elem(), bufOwner)
	}
	for _, fi := range bufFields {
		fieldN := st.Field(fi).Name()
		// classification of an instruction w.r.t. the buffer
		const (
			opNone = iota
			opWrite
			opReset
			opRead
		)
		bufOp := func(fn *ssa.Function, in ssa.Instruction) int {
			call, ok := in.(*ssa.Call)
			if !ok {
				return opNone
			}
			sc := staticCallee(call)
			if sc == nil || sc.Signature.Recv() == nil || len(call.Call.Args) == 0 {
				return opNone
			}
			fa, ok := call.Call.Args[0].(*ssa.FieldAddr)
			if !ok || fa.Field != fi || fa.X != fn.Params[0] {
				return opNone
			}
			switch {
			case sc.Name() == "Reset":
				return opReset
			case strings.HasPrefix(sc.Name(), "Write") || sc.Name() == "ReadFrom":
				return opWrite
			case sc.Name() == "Truncate":
				if k, ok := constInt(call.Call.Args[1]); ok && k == 0 {
					return opReset
				}
				return opWrite
			}
			return opRead
		}
		// any other use of the field's address (passed on, stored): not decidable
		users := map[*ssa.Function]bool{} // lexer methods that touch the buffer directly
		escapes := ""
		for _, fn := range allFuncs(c.SLib) {
			for _, b := range fn.Blocks {
				for _, in := range b.Instrs {
					fa, ok := in.(*ssa.FieldAddr)
					if !ok || fa.Field != fi {
						continue
					}
					if pt, ok := fa.X.Type().Underlying().(*types.Pointer); !ok || !types.Identical(pt.Elem(), bufOwner) {
						continue
					}
					if !isLexerMethod(fn) || fa.X != fn.Params[0] {
						escapes = c.pos(fa.Pos())
						continue
					}
					users[fn] = true
					for _, rf := range *fa.Referrers() {
						if call, ok := rf.(*ssa.Call); ok && len(call.Call.Args) > 0 && call.Call.Args[0] == fa && staticCallee(call) != nil && staticCallee(call).Signature.Recv() != nil {
							continue
						}
						escapes = c.pos(fa.Pos())
					}
				}
			}
		}
		if escapes != "" {
			r.Instances++
			r.undecided("buf|"+fieldN+"|escapes", escapes, "", "the scratch buffer's address is used other than as the receiver of one of its methods inside a lexer method: typestate not decidable")
			continue
		}
		// transitive users: methods that call a user on the same receiver
		uses := map[*ssa.Function]bool{}
		for f := range users {
			uses[f] = true
		}
		for changed := true; changed; {
			changed = false
			for _, fn := range allFuncs(c.SLib) {
				if !isLexerMethod(fn) || uses[fn] {
					continue
				}
				for _, b := range fn.Blocks {
					for _, in := range b.Instrs {
						if call, ok := in.(*ssa.Call); ok {
							if sc := staticCallee(call); isLexerMethod(sc) && uses[sc] && len(call.Call.Args) > 0 && call.Call.Args[0] == fn.Params[0] {
								uses[fn] = true
								changed = true
							}
						}
					}
				}
			}
		}
		var fns []*ssa.Function
		for f := range uses {
			fns = append(fns, f)
		}
		sort.Slice(fns, func(i, j int) bool { return fns[i].Pos() < fns[j].Pos() })
		for _, fn := range fns {
			r.Instances++
			key := "buf|" + fieldN + "|" + fname(fn)
			// forward may-dirty analysis
			dirtyIn := map[*ssa.BasicBlock]bool{}
			reached := map[*ssa.BasicBlock]bool{fn.Blocks[0]: true}
			work := []*ssa.BasicBlock{fn.Blocks[0]}
			problem := ""
			// tokenize may reset first (base case) — then its entry state does not matter
			for len(work) > 0 {
				b := work[len(work)-1]
				work = work[:len(work)-1]
				dirty := dirtyIn[b]
				for _, in := range b.Instrs {
					switch bufOp(fn, in) {
					case opWrite:
						dirty = true
					case opReset:
						dirty = false
					}
					if call, ok := in.(*ssa.Call); ok {
						if sc := staticCallee(call); isLexerMethod(sc) && uses[sc] && sc != fn && len(call.Call.Args) > 0 && call.Call.Args[0] == fn.Params[0] {
							if dirty && problem == "" {
								problem = "calls " + sc.Name() + " at " + c.pos(call.Pos()) + " while the buffer may hold text of the current token"
							}
						}
					}
					if ret, ok := in.(*ssa.Return); ok && dirty {
						errSlot := errIndex(fn.Signature)
						failing := errSlot >= 0 && neverNilError(c, retResults(ret)[errSlot])
						if !failing && problem == "" {
							problem = "the return at " + c.pos(ret.Pos()) + " can leave written text in the buffer: the next token that uses it starts with this token's text"
						}
					}
				}
				for _, s := range b.Succs {
					if !reached[s] || (dirty && !dirtyIn[s]) {
						reached[s] = true
						if dirty {
							dirtyIn[s] = true
						}
						work = append(work, s)
					}
				}
			}
			if problem == "" {
				r.ok(key, c.pos(fn.Pos()), fname(fn), "entered with an empty buffer, every non-failing return leaves it empty (writes are followed by Reset on all such paths)")
			} else {
				r.viol(key, c.pos(fn.Pos()), fname(fn), problem)
			}
		}
		// base case
		r.Instances++
		key := "buf|" + fieldN + "|base"
		fresh := true
		ncalls := 0
		for _, caller := range allFuncs(c.SLib) {
			for _, call := range callsTo(caller, c.A.Tokenize) {
				ncalls++
				if c.symStr(call.Call.Args[0], 0) != "NewLexer()" {
					fresh = false
				}
			}
		}
		resetFirst := false
		if uses[c.A.Tokenize] {
			// a Reset in tokenize's entry block before any other use of the buffer
			for _, in := range c.A.Tokenize.Blocks[0].Instrs {
				op := bufOp(c.A.Tokenize, in)
				if op == opReset {
					resetFirst = true
					break
				}
				if op != opNone {
					break
				}
				if call, ok := in.(*ssa.Call); ok {
					if sc := staticCallee(call); isLexerMethod(sc) && uses[sc] {
						break
					}
				}
			}
		}
		switch {
		case ncalls > 0 && fresh:
			r.ok(key, c.pos(c.A.Tokenize.Pos()), fname(c.A.Tokenize), "every tokenize runs on NewLexer() (a zero buffer)")
		case resetFirst:
			r.ok(key, c.pos(c.A.Tokenize.Pos()), fname(c.A.Tokenize), "tokenize resets the buffer before any scanner runs")
		default:
			r.viol(key, c.pos(c.A.Tokenize.Pos()), fname(c.A.Tokenize), "tokenize can start with text left in the buffer by an earlier, failed tokenize (the lexer is reused and the buffer is not reset first)")
		}
	}
	return r
}

// paramRef renders a parameter by position (receiver first), not by name: a
// renamed parameter is the same parameter.
func paramRef(p *ssa.Parameter) string {
	if fn := p.Parent(); fn != nil {
		for i, q := range fn.Params {
			if q == p {
				return fmt.Sprintf("param#%d", i)
			}
		}
	}
	return "param:" + p.Name()
}

// isTokenTextOfParam: v is (a conversion of) the text field of fn's token
// parameter — the token nud was called with, unchanged.
func (c *Ctx) isTokenTextOfParam(fn *ssa.Function, v ssa.Value) bool {
	for {
		switch x := v.(type) {
		case *ssa.Convert:
			v = x.X
			continue
		case *ssa.ChangeType:
			v = x.X
			continue
		}
		break
	}
	base, fld, ok := fieldRead(v)
	if !ok {
		return false
	}
	t := base.Type()
	if pt, isPtr := t.Underlying().(*types.Pointer); isPtr {
		t = pt.Elem()
	}
	if !types.Identical(t, c.A.TokenT) || fieldName(c.A.TokenT, fld) != "value" {
		return false
	}
	for _, p := range fn.Params {
		if !types.Identical(p.Type(), c.A.TokenT) {
			continue
		}
		if base == ssa.Value(p) {
			return true
		}
		if sp := paramSpill(p); sp != nil && base == ssa.Value(sp) {
			return true
		}
	}
	return false
}
