package main

import (
	"fmt"
	"go/token"
	"go/types"
	"os"
	"strings"

	"golang.org/x/tools/go/ssa"
)

// Transfer functions that fork (assertions, comparisons, calls) and the
// kind-level models of standard-library callees (DESIGN §3.9).

func (x *Exec) setVal(fr *frame, v ssa.Value, a AV) {
	if _, ok := v.(*ssa.Const); ok {
		return
	}
	fr.vals[v] = a
}

func (x *Exec) typeAssert(a *activation, b *ssa.BasicBlock, i int, in *ssa.TypeAssert, fr *frame, h *Heap, p pathInfo) bool {
	xv := x.val(fr, in.X)
	T := in.AssertedType
	if xv.k == 'E' {
		// assertions on error values (err.(SyntaxError)): not evaluation scope
		if in.CommaOk {
			fr.vals[in] = AV{k: 'T', tup: []AV{x.opaqueOf(T, "asserted"), {k: 'B', tri: 3}}}
		} else {
			fr.vals[in] = x.opaqueOf(T, "asserted")
		}
		return false
	}
	if xv.k != 'I' {
		// an AST payload (node.value): the parser/evaluator agreement on its
		// dynamic type is rule S-SHAPE's obligation
		x.ev("assert-payload", in, true, "")
		res := x.opaqueOf(T, "payload")
		if st, ok := T.Underlying().(*types.Slice); ok {
			res = AV{k: 'L', tri: 2, elemK: 'O', what: "payload-slice"}
			if _, isPtr := st.Elem().Underlying().(*types.Pointer); isPtr {
				// the slice node's (start, stop, step) triple: exactly three
				// possibly-nil pointers, which is rule S-SHAPE's obligation S6
				p := AV{k: 'P', tri: 3, what: "slice part"}
				res.agg = &aggVal{elems: []AV{p, p, p}}
			}
		}
		if in.CommaOk {
			fr.vals[in] = AV{k: 'T', tup: []AV{res, {k: 'B', tri: 3}}}
		} else {
			fr.vals[in] = res
		}
		return false
	}
	want := x.c.assertAtoms(T)
	sat := xv.atoms & want
	unsat := xv.atoms &^ want
	if !in.CommaOk {
		if unsat != 0 {
			x.ev("assert", in, false, fmt.Sprintf("unchecked assertion .(%s) on a value that can be %s", types.TypeString(T, func(*types.Package) string { return "" }), unsat))
		} else {
			x.ev("assert", in, true, "")
		}
		if sat == 0 {
			return true // panics on every state of this path
		}
		ref := xv
		ref.atoms = sat
		x.setVal(fr, in.X, ref)
		fr.vals[in] = x.fromAtoms(T, sat, ref)
		return false
	}
	x.ev("assert", in, true, "")
	if sat != 0 {
		f2, h2 := fr, h
		if unsat != 0 {
			f2, h2 = fr.clone(), h.clone()
		}
		ref := xv
		ref.atoms = sat
		x.setVal(f2, in.X, ref)
		f2.vals[in] = AV{k: 'T', tup: []AV{x.fromAtoms(T, sat, ref), {k: 'B', tri: 1}}}
		a.cont(b, i+1, f2, h2, p)
	}
	if unsat != 0 {
		ref := xv
		ref.atoms = unsat
		x.setVal(fr, in.X, ref)
		fr.vals[in] = AV{k: 'T', tup: []AV{x.zero(T), {k: 'B', tri: 2}}}
		a.cont(b, i+1, fr, h, p)
	}
	return true
}

// typeClass: atoms grouped by Go dynamic type, for interface comparison.
func uncomparableShared(a, b Atoms) Atoms {
	var out Atoms
	for _, cls := range []Atoms{AArrays | ANilSlice, AObjects | ANilMap, ATSlices, AOMapE | AOMapN} {
		if a&cls != 0 && b&cls != 0 {
			out |= (a | b) & cls
		}
	}
	return out
}

var singletonAtoms = ANull | ABoolT | ABoolF | AStrE

func boolAV(t, f bool) AV {
	v := AV{k: 'B'}
	if t {
		v.tri |= 1
	}
	if f {
		v.tri |= 2
	}
	return v
}

func (x *Exec) binop(a *activation, b *ssa.BasicBlock, i int, in *ssa.BinOp, fr *frame, h *Heap, p pathInfo) bool {
	l, r := x.val(fr, in.X), x.val(fr, in.Y)
	isCmp := false
	switch in.Op {
	case token.EQL, token.NEQ, token.LSS, token.LEQ, token.GTR, token.GEQ:
		isCmp = true
	}
	neg := in.Op == token.NEQ
	res := func(eq bool) AV {
		if neg {
			eq = !eq
		}
		return boolAV(eq, !eq)
	}
	switch {
	case l.k == 'I' && r.k == 'I' && (in.Op == token.EQL || in.Op == token.NEQ):
		if sh := uncomparableShared(l.atoms, r.atoms); sh != 0 {
			x.ev("iface-compare", in, false, fmt.Sprintf("== on two interface values that can both hold %s (runtime panic: comparing uncomparable type)", sh))
		} else {
			x.ev("iface-compare", in, true, "")
		}
		if l.atoms == AOther && r.atoms == AOther && l.nk && r.nk {
			// two boxed enumeration constants (switch node.value { case tEQ: ... })
			fr.vals[in] = res(l.n == r.n)
			return false
		}
		// refine against a singleton-valued side
		side := func(one AV, other AV, otherV ssa.Value) bool {
			if one.atoms.count() != 1 || one.atoms&singletonAtoms == 0 {
				return false
			}
			s := one.atoms
			eqA, neA := other.atoms&s, other.atoms&^s
			if eqA != 0 {
				f2, h2 := fr, h
				if neA != 0 {
					f2, h2 = fr.clone(), h.clone()
				}
				o := other
				o.atoms = eqA
				x.setVal(f2, otherV, o)
				f2.vals[in] = res(true)
				a.cont(b, i+1, f2, h2, p)
			}
			if neA != 0 {
				o := other
				o.atoms = neA
				x.setVal(fr, otherV, o)
				fr.vals[in] = res(false)
				a.cont(b, i+1, fr, h, p)
			}
			return true
		}
		if side(r, l, in.X) || side(l, r, in.Y) {
			return true
		}
		fr.vals[in] = AV{k: 'B', tri: 3}
		return false
	case l.k == 'E' || r.k == 'E':
		ev, evV := l, in.X
		if l.k != 'E' || isNilConst(in.X) {
			ev, evV = r, in.Y
		}
		if ev.k != 'E' {
			fr.vals[in] = AV{k: 'B', tri: 3}
			return false
		}
		if ev.tri&1 != 0 {
			f2, h2 := fr, h
			if ev.tri&2 != 0 {
				f2, h2 = fr.clone(), h.clone()
			}
			x.setVal(f2, evV, AV{k: 'E', tri: 1})
			f2.vals[in] = res(true)
			a.cont(b, i+1, f2, h2, p)
		}
		if ev.tri&2 != 0 {
			x.setVal(fr, evV, AV{k: 'E', tri: 2, tag: ev.tag})
			fr.vals[in] = res(false)
			a.cont(b, i+1, fr, h, p)
		}
		return true
	case l.k == 'K' && r.k == 'N' && r.nk && (in.Op == token.EQL || in.Op == token.NEQ):
		var ifT, ifF Atoms
		for _, at := range l.atoms.each() {
			if reflectKindNum[reflectKindOf(at)] == r.n {
				ifT |= at
			} else {
				ifF |= at
			}
		}
		if neg {
			ifT, ifF = ifF, ifT
		}
		v := boolAV(ifT != 0, ifF != 0)
		if l.src != "" {
			v.facts = []fact{{src: l.src, ifT: ifT, ifF: ifF, valid: true}}
		}
		fr.vals[in] = v
		return false
	case l.k == 'N' && r.k == 'N':
		if isCmp {
			fr.vals[in] = x.cmpInts(in.Op, l, r)
			return false
		}
		out := AV{k: 'N'}
		if l.nk && r.nk {
			out.nk = true
			switch in.Op {
			case token.ADD:
				out.n = l.n + r.n
			case token.SUB:
				out.n = l.n - r.n
			case token.MUL:
				out.n = l.n * r.n
			case token.QUO:
				if r.n == 0 {
					x.ev("int-div", in, false, "integer division by zero")
					return true
				}
				out.n = l.n / r.n
			case token.REM:
				if r.n == 0 {
					x.ev("int-div", in, false, "integer division by zero")
					return true
				}
				out.n = l.n % r.n
			default:
				out.nk = false
			}
			out.pos = out.nk && out.n >= 1
		} else if in.Op == token.QUO || in.Op == token.REM {
			if !(r.pos || (r.nk && r.n != 0)) {
				x.ev("int-div", in, false, "integer division by a value that may be zero")
			} else {
				x.ev("int-div", in, true, "")
			}
		} else if in.Op == token.ADD && ((l.pos && r.nk && r.n >= 0) || (r.pos && l.nk && l.n >= 0)) {
			out.pos = true
		} else if in.Op == token.SUB && l.pos && r.nk && r.n == 1 {
			out.nn = true // (a value >= 1) - 1
		}
		fr.vals[in] = out
		return false
	case l.k == 'F' && r.k == 'F':
		if isCmp {
			if x.ord != nil {
				if c, ok := x.ord(l.prov, r.prov); ok {
					t := cmpConst(in.Op, int64(c), 0)
					fr.vals[in] = boolAV(t, !t)
					return false
				}
			}
			fr.vals[in] = AV{k: 'B', tri: 3}
			return false
		}
		out := AV{k: 'F'}
		finL, finR := l.fbits&7 == 1, r.fbits&7 == 1
		switch in.Op {
		case token.QUO:
			if finL && finR && r.fbits&8 != 0 {
				out.fbits = 1
			} else {
				out.fbits = 7
			}
		default:
			if finL && finR {
				out.fbits = 1 // overflow of sums/products is excluded by the property's quantifier
			} else {
				out.fbits = 7
			}
		}
		fr.vals[in] = out
		return false
	case l.k == 'S' && r.k == 'S':
		if in.Op == token.ADD {
			o := AV{k: 'S'}
			if l.sk && r.sk {
				o.sk, o.s = true, l.s+r.s
			}
			if l.tag != "" || r.tag != "" {
				o.tag = strings.Trim(l.tag+"+"+r.tag, "+")
			}
			fr.vals[in] = o
			return false
		}
		if l.sk && r.sk && (in.Op == token.EQL || in.Op == token.NEQ) {
			fr.vals[in] = res(l.s == r.s)
			return false
		}
		if isCmp && x.ord != nil {
			if c, ok := x.ord(l.prov, r.prov); ok {
				t := cmpConst(in.Op, int64(c), 0)
				fr.vals[in] = boolAV(t, !t)
				return false
			}
		}
		if in.Op == token.EQL || in.Op == token.NEQ {
			// s == "" decided by the atoms of s
			cst, oth := l, r
			if !(cst.sk && cst.s == "") {
				cst, oth = r, l
			}
			if cst.sk && cst.s == "" && oth.tag != "" {
				v := AV{k: 'B', tri: 3, tag: "nonempty(" + oth.tag + ")"}
				if !neg {
					v.tag = "not " + v.tag
				}
				fr.vals[in] = v
				return false
			}
			if cst.sk && cst.s == "" && oth.atoms != 0 && oth.atoms&^AStrings == 0 {
				e, n := oth.atoms&AStrE != 0, oth.atoms&AStrN != 0
				if neg {
					e, n = n, e
				}
				fr.vals[in] = boolAV(e, n)
				return false
			}
		}
		fr.vals[in] = AV{k: 'B', tri: 3}
		return false
	case l.k == 'U' && r.k == 'U' && (in.Op == token.EQL || in.Op == token.NEQ):
		// function values can only be compared with nil
		nilness := func(v AV) int { // 1 nil, 2 non-nil, 0 unknown
			switch {
			case v.fn != nil || v.what == "closure":
				return 2
			case v.tri == 1 && v.what == "":
				return 1
			}
			return 0
		}
		a, b := nilness(l), nilness(r)
		switch {
		case a == 1 && b == 1:
			fr.vals[in] = res(true)
		case (a == 1 && b == 2) || (a == 2 && b == 1):
			fr.vals[in] = res(false)
		default:
			fr.vals[in] = AV{k: 'B', tri: 3}
		}
		return false
	case l.k == 'B' && r.k == 'B' && (in.Op == token.EQL || in.Op == token.NEQ):
		if l.tri != 3 && r.tri != 3 && l.tri != 0 && r.tri != 0 {
			fr.vals[in] = res(l.tri == r.tri)
		} else {
			fr.vals[in] = AV{k: 'B', tri: 3}
		}
		return false
	case l.k == 'A' && isNilConst(in.Y) && (in.Op == token.EQL || in.Op == token.NEQ):
		// the address of a field or element is never nil
		fr.vals[in] = res(false)
		return false
	case (l.k == 'P' || l.k == 'L' || l.k == 'M') && (in.Op == token.EQL || in.Op == token.NEQ):
		// comparison with nil
		t := l.tri
		if t == 0 {
			t = 3
		}
		eq, ne := t&1 != 0, t&2 != 0
		if neg {
			eq, ne = ne, eq
		}
		fr.vals[in] = boolAV(eq, ne)
		return false
	}
	if isCmp {
		fr.vals[in] = AV{k: 'B', tri: 3}
	} else {
		fr.vals[in] = x.opaqueOf(in.Type(), "binop")
	}
	return false
}

func cmpConst(op token.Token, a, b int64) bool {
	switch op {
	case token.EQL:
		return a == b
	case token.NEQ:
		return a != b
	case token.LSS:
		return a < b
	case token.LEQ:
		return a <= b
	case token.GTR:
		return a > b
	case token.GEQ:
		return a >= b
	}
	return false
}

func flipOp(op token.Token) token.Token {
	switch op {
	case token.LSS:
		return token.GTR
	case token.LEQ:
		return token.GEQ
	case token.GTR:
		return token.LSS
	case token.GEQ:
		return token.LEQ
	}
	return op
}

func (x *Exec) cmpInts(op token.Token, l, r AV) AV {
	if l.nk && r.nk {
		t := cmpConst(op, l.n, r.n)
		return boolAV(t, !t)
	}
	// len(v) against a constant
	if r.link == 'l' && l.nk {
		l, r = r, l
		op = flipOp(op)
	}
	if l.link == 'l' && r.nk && l.src != "" {
		zero, pos := lenZeroAtoms(l.atoms), lenPosAtoms(l.atoms)
		rest := l.atoms &^ (zero | pos)
		var ifT, ifF Atoms
		if cmpConst(op, 0, r.n) {
			ifT |= zero
		} else {
			ifF |= zero
		}
		// for a length >= 1: decided only when the predicate is constant on [1,∞)
		t1, tBig := cmpConst(op, 1, r.n), cmpConst(op, 1<<40, r.n)
		if t1 && tBig {
			ifT |= pos
		} else if !t1 && !tBig {
			ifF |= pos
		} else {
			ifT |= pos
			ifF |= pos
		}
		ifT |= rest
		ifF |= rest
		v := boolAV(ifT != 0, ifF != 0)
		v.facts = []fact{{src: l.src, ifT: ifT, ifF: ifF, valid: true}}
		return v
	}
	if l.pos && r.nk && r.n <= 0 {
		t := cmpConst(op, 1, r.n) // any value >= 1 behaves alike against a bound <= 0
		return boolAV(t, !t)
	}
	// a constant <= 0 against a value known to be >= 0
	if l.nk && l.n <= 0 && (r.nn || r.pos) {
		switch op {
		case token.LEQ:
			return boolAV(true, false)
		case token.GTR:
			return boolAV(false, true)
		}
	}
	if r.nk && r.n <= 0 && (l.nn || l.pos) {
		switch op {
		case token.GEQ:
			return boolAV(true, false)
		case token.LSS:
			return boolAV(false, true)
		}
	}
	return AV{k: 'B', tri: 3}
}

// ---------------------------------------------------------------- calls

func tupleOf(sig *types.Signature, rets []AV) AV {
	if sig.Results().Len() == 1 && len(rets) == 1 {
		return rets[0]
	}
	return AV{k: 'T', tup: append([]AV(nil), rets...)}
}

func (x *Exec) call(a *activation, b *ssa.BasicBlock, i int, in *ssa.Call, fr *frame, h *Heap, p pathInfo) bool {
	cc := in.Common()
	var args []AV
	for _, av := range cc.Args {
		args = append(args, x.val(fr, av))
	}
	if bi, ok := cc.Value.(*ssa.Builtin); ok {
		return x.builtin(bi.Name(), in, args, fr, h)
	}
	var invoked *ssa.Function
	if cc.IsInvoke() {
		// the receiver was boxed from a library type: the call goes to that type's method
		if recv := x.val(fr, cc.Value); recv.k == 'I' && recv.dyn != nil {
			if m := x.c.Prog.LookupMethod(recv.dyn, cc.Method.Pkg(), cc.Method.Name()); m != nil && m.Blocks != nil && (m.Pkg == x.c.SLib || m.Pkg == x.c.SCLI || (m.Pkg == nil && m.Synthetic != "" && strings.Contains(m.Synthetic, "wrapper"))) {
				invoked = m
				var rv AV
				if _, isPtr := recv.dyn.Underlying().(*types.Pointer); isPtr {
					rv = AV{k: 'P', tri: 2, obj: recv.obj, what: "ptr " + recv.dyn.String()}
				} else {
					rv = AV{k: 'G', agg: recv.agg, what: "struct"}
				}
				args = append([]AV{rv}, args...)
			}
		}
	}
	if cc.IsInvoke() && invoked == nil {
		// an interface of the library with a single implementing type: every
		// non-nil value of it has that type (class hierarchy)
		if D := x.c.soleImplementer(cc.Value.Type()); D != nil {
			if m := x.c.Prog.LookupMethod(D, cc.Method.Pkg(), cc.Method.Name()); m != nil && m.Blocks != nil && (m.Pkg == x.c.SLib || m.Pkg == x.c.SCLI) {
				recv := x.val(fr, cc.Value)
				invoked = m
				var rv AV
				if _, isPtr := D.Underlying().(*types.Pointer); isPtr {
					rv = AV{k: 'P', tri: 2, obj: recv.obj, what: "ptr " + D.String()}
					if recv.k == 'P' {
						rv = recv
					}
				} else {
					rv = AV{k: 'G', agg: recv.agg, what: "struct"}
				}
				args = append([]AV{rv}, args...)
			}
		}
	}
	if cc.IsInvoke() && invoked == nil {
		recv := x.val(fr, cc.Value)
		switch cc.Method.Name() {
		case "Error", "String":
			fr.vals[in] = AV{k: 'S'}
			return false
		case "Kind":
			if recv.k == 'K' && recv.what == "type" {
				if recv.atoms&ANull != 0 {
					x.ev("reflect-pre", in, false, "reflect.TypeOf(v).Kind() where v can be nil: TypeOf(nil) is a nil Type (nil-pointer panic)")
					recv.atoms &^= ANull
					if recv.atoms == 0 {
						return true
					}
				} else {
					x.ev("reflect-pre", in, true, "")
				}
				fr.vals[in] = AV{k: 'K', what: "kind", atoms: recv.atoms, src: recv.src}
				return false
			}
		}
		x.gap("interface method call "+cc.Method.FullName(), in.Pos())
		fr.vals[in] = x.opaqueOf(in.Type(), "invoke")
		return false
	}
	callee := cc.StaticCallee()
	if invoked != nil {
		callee = invoked
	}
	if callee == nil {
		fv := x.val(fr, cc.Value)
		if fv.k == 'U' && fv.fn != nil {
			callee = fv.fn
		} else {
			if os.Getenv("EXEC_GAPDBG") != "" {
				fmt.Fprintf(os.Stderr, "GAPDBG dynamic call %s: value %s = %+v\n", x.c.pos(in.Pos()), cc.Value.Name(), fv)
			}
			x.gap("dynamic call with unknown target in "+fname(fr.fn), in.Pos())
			fr.vals[in] = x.opaqueOf(in.Type(), "dynamic call")
			return false
		}
	}
	if len(callee.FreeVars) > 0 {
		x.pendingFV = nil
		if fv := x.val(fr, cc.Value); fv.k == 'U' && fv.obj != 0 {
			if o := h.objs[fv.obj]; o != nil && len(o.fields) == len(callee.FreeVars) {
				x.pendingFV = append([]AV(nil), o.fields...)
			}
		}
	}
	if x.hypFns[callee] && x.hyp != nil {
		outs := x.hyp(x, callee, in, args, p)
		for oi, o := range outs {
			f2, h2 := fr, h
			if oi < len(outs)-1 {
				f2, h2 = fr.clone(), h.clone()
			}
			f2.vals[in] = AV{k: 'T', tup: []AV{o.res, o.err}}
			node := ""
			var data AV
			for ai, av := range args {
				if x.c.isASTNode(callee.Params[ai].Type()) {
					node = av.what
				}
				if ai > 0 && av.k == 'I' {
					data = av
				}
			}
			np := p.with(hcall{callee: callee.Name(), node: node, data: data, pos: in.Pos(), ret: o.res})
			if o.err.k == 'E' && o.err.tri == 2 {
				np.failed = true
			}
			a.cont(b, i+1, f2, h2, np)
		}
		return true
	}
	if x.cli {
		if handled, cont := x.modelCLI(a, b, i, in, callee, args, fr, h, p); handled {
			return cont
		}
	}
	synthetic := callee.Pkg == nil && callee.Synthetic != "" && callee.Blocks != nil && (strings.Contains(callee.Synthetic, "bound method") || strings.Contains(callee.Synthetic, "wrapper") || strings.Contains(callee.Synthetic, "thunk"))
	if (((callee.Pkg == x.c.SLib && !x.cli) || (x.cli && callee.Pkg == x.c.SCLI)) && callee.Blocks != nil && !strings.HasSuffix(x.c.file(callee.Pos()), "_string.go")) || synthetic {
		// inline
		x.runUp(callee, args, h, p, &stackLink{fr: fr, up: a.up}, func(rets []AV, h2 *Heap, p2 pathInfo, fin *frame) {
			f2 := fr.clone()
			// propagate refinements of interface parameters back to the arguments,
			// and translate facts about parameters
			pname := map[string]ssa.Value{}
			for ai, prm := range callee.Params {
				if ai >= len(cc.Args) {
					break
				}
				pname[prm.Name()] = cc.Args[ai]
				fv, ok := fin.vals[prm]
				if !ok || fv.k != 'I' {
					continue
				}
				if cur, ok := f2.vals[cc.Args[ai]]; ok && cur.k == 'I' {
					cur.atoms &= fv.atoms
					if cur.atoms == 0 {
						return
					}
					f2.vals[cc.Args[ai]] = cur
				}
			}
			out := tupleOf(callee.Signature, rets)
			out = translateFacts(out, pname)
			if os.Getenv("EXEC_TRACEFN") != "" && callee.Name() == "exprFn" && out.k == 'G' && out.agg != nil && len(out.agg.fields) == 4 {
				fmt.Fprintf(os.Stderr, "RET exprFn -> .0=%s .3=%s (rets[0].3=%s)\n", out.agg.fields[0].String(), out.agg.fields[3].String(), rets[0].agg.fields[3].String())
			}
			f2.vals[in] = out
			a.cont(b, i+1, f2, h2, p2)
		})
		return true
	}
	return x.model(a, b, i, in, callee, args, fr, h, p)
}

func translateFacts(v AV, pname map[string]ssa.Value) AV {
	tr := func(fs []fact) []fact {
		var out []fact
		for _, f := range fs {
			if arg, ok := pname[f.src]; ok {
				if _, isConst := arg.(*ssa.Const); !isConst {
					f.src = arg.Name()
					out = append(out, f)
				}
			}
		}
		return out
	}
	v.facts = tr(v.facts)
	if v.src != "" {
		if arg, ok := pname[v.src]; ok {
			v.src = arg.Name()
		} else {
			v.src = ""
			v.link = 0
		}
	}
	if len(v.tup) > 0 {
		nt := make([]AV, len(v.tup))
		for i, e := range v.tup {
			nt[i] = translateFacts(e, pname)
		}
		v.tup = nt
	}
	return v
}

func (x *Exec) elemsOf(v AV, h *Heap) (AV, bool) {
	// join of the elements of a slice value; false if it certainly has none
	if v.k == 'L' && v.agg != nil {
		var j AV
		for _, e := range v.agg.elems {
			j = joinAV(j, e)
		}
		return j, len(v.agg.elems) > 0
	}
	if v.obj != 0 && h.objs[v.obj] != nil {
		o := h.objs[v.obj]
		switch o.kind {
		case 'l':
			var j AV
			for _, e := range o.elems {
				j = joinAV(j, e)
			}
			return j, len(o.elems) > 0
		case 'a':
			return o.join, o.join.k != 0
		}
	}
	if v.k == 'L' && v.atoms != 0 {
		ea := elemAtoms(v.atoms, x.elemUni)
		if ea == 0 {
			return AV{}, false
		}
		switch v.elemK {
		case 'F':
			return AV{k: 'F', fbits: 1}, true
		case 'S':
			return AV{k: 'S'}, true
		}
		return AV{k: 'I', atoms: ea, prov: prov("elem(" + string(v.prov) + ")")}, true
	}
	if v.k == 'L' && v.tri == 1 {
		return AV{}, false
	}
	return AV{k: 'O', what: "element"}, true
}

func isBadElem(v AV) bool {
	return v.k == 'I' && (v.atoms&(ABad|AExpref|AInterp) != 0 || v.bad)
}

func (x *Exec) builtin(name string, in *ssa.Call, args []AV, fr *frame, h *Heap) bool {
	switch name {
	case "len", "cap":
		v := args[0]
		out := AV{k: 'N', nn: true}
		switch v.k {
		case 'S':
			if v.sk {
				out.nk, out.n = true, int64(len(v.s))
			} else if v.atoms == AStrN {
				out.pos = true
			}
		case 'L', 'M':
			if v.k == 'M' && v.obj != 0 && h.objs[v.obj] != nil {
				o := h.objs[v.obj]
				if o.nonEmp == 1 {
					out.nk = true
				} else if o.nonEmp == 2 {
					out.pos = true
				}
				break
			}
			min, exact, known := x.listLen(v, h)
			if known && exact && name == "len" {
				out.nk, out.n = true, int64(min)
			}
			if known && min >= 1 {
				out.pos = true
			}
			if v.obj == 0 && v.atoms != 0 {
				out.atoms = v.atoms
				out.link = 'l'
				if sv, ok := in.Call.Args[0].(ssa.Value); ok {
					out.src = sv.Name()
				}
				if lenPosAtoms(v.atoms) == 0 {
					out.nk, out.n = true, 0
				}
			}
		}
		fr.vals[in] = out
	case "append":
		base := args[0]
		if x.cli && base.tag != "" && len(args) > 1 {
			// bytes appended to tagged data (the command's output buffer): the tag
			// becomes the concatenation, constant bytes as quoted text
			defer func() {
				e := args[1]
				suffix := "UNKNOWN(appended data)"
				if e.tag != "" {
					suffix = e.tag
				} else if e.obj != 0 && h.objs[e.obj] != nil && h.objs[e.obj].kind == 'l' {
					txt := ""
					okc := true
					for _, el := range h.objs[e.obj].elems {
						if el.k == 'N' && el.nk && el.n >= 0 && el.n < 128 {
							txt += string(rune(el.n))
						} else {
							okc = false
						}
					}
					if okc {
						suffix = fmt.Sprintf("%q", txt)
					}
				}
				if v, ok := fr.vals[in]; ok {
					v.tag = base.tag + "\x1f" + suffix
					fr.vals[in] = v
				}
			}()
		}
		var add AV
		var addN int
		addKnown := false
		hasAdd := false
		if len(args) > 1 {
			e := args[1]
			if e.k == 'L' {
				if e.obj != 0 && h.objs[e.obj] != nil && h.objs[e.obj].kind == 'l' {
					addN, addKnown = len(h.objs[e.obj].elems), true
				}
				add, hasAdd = x.elemsOf(e, h)
				if e.k == 'L' && e.obj == 0 && e.atoms != 0 && lenZeroAtoms(e.atoms) != 0 {
					// may add nothing
					addKnown = false
				}
			}
		}
		// concrete + concrete stays concrete
		if addKnown && (base.tri == 1 || (base.obj != 0 && h.objs[base.obj] != nil && h.objs[base.obj].kind == 'l')) {
			var elems []AV
			if base.obj != 0 {
				elems = append(elems, h.objs[base.obj].elems...)
			}
			elems = append(elems, h.objs[args[1].obj].elems...)
			if len(elems) <= x.appendCap() {
				id := h.alloc(&aobj{kind: 'l', elems: elems})
				fr.vals[in] = AV{k: 'L', tri: 2, obj: id, elemK: base.elemK}
				return false
			}
			// a list that keeps growing (built in a loop): abstract it
		}
		o := &aobj{kind: 'a'}
		bj, bHas := x.elemsOf(base, h)
		if bHas {
			o.join = bj
		}
		bmin, _, bknown := x.listLen(base, h)
		if bknown {
			o.minLen = bmin
		}
		if hasAdd {
			o.join = joinAV(o.join, add)
			if addKnown {
				o.minLen += addN
			} else if args[1].obj == 0 && args[1].atoms != 0 && lenZeroAtoms(args[1].atoms) == 0 {
				o.minLen++
			}
		}
		if o.minLen > 2 {
			o.minLen = 2 // saturate: keeps the abstract heap finite
		}
		if base.obj != 0 && h.objs[base.obj] != nil && h.objs[base.obj].bad {
			o.bad = true
		}
		if base.bad || (hasAdd && isBadElem(add)) {
			o.bad = true
		}
		id := h.alloc(o)
		fr.vals[in] = AV{k: 'L', tri: 2, obj: id, elemK: base.elemK}
		if base.tri == 1 && !hasAdd {
			// append(nil, nothing...) stays nil
			v := fr.vals[in]
			v.tri = 3
			fr.vals[in] = v
		}
	case "copy":
		dst, src := args[0], args[1]
		if dst.obj != 0 && h.objs[dst.obj] != nil {
			o := h.mut(dst.obj)
			if e, ok := x.elemsOf(src, h); ok {
				switch o.kind {
				case 'a':
					// the zero elements are overwritten when the source is at least as long;
					// be conservative: keep the join
					o.join = joinAV(o.join, e)
					if smin, _, sk := x.listLen(src, h); sk && o.exact && smin >= o.minLen {
						o.join = e
					} else if src.obj == 0 && src.atoms != 0 {
						// make(len(src)) + copy(dst, src): same length by construction
						o.join = e
					}
					if isBadElem(e) {
						o.bad = true
					}
				case 'l':
					for i := range o.elems {
						o.elems[i] = joinAV(o.elems[i], e)
					}
				}
			}
		}
		fr.vals[in] = AV{k: 'N'}
	case "delete", "print", "println":
	default:
		x.gap("builtin "+name, in.Pos())
		fr.vals[in] = x.opaqueOf(in.Type(), "builtin")
	}
	return false
}

// forkVals continues the path once per alternative result.
func (x *Exec) forkVals(a *activation, b *ssa.BasicBlock, i int, in *ssa.Call, alts []AV, fr *frame, h *Heap, p pathInfo) bool {
	for ai, v := range alts {
		f2, h2 := fr, h
		if ai < len(alts)-1 {
			f2, h2 = fr.clone(), h.clone()
		}
		f2.vals[in] = v
		a.cont(b, i+1, f2, h2, p)
	}
	return true
}

func deepEqualAtoms(a, b Atoms) (eq, ne bool) {
	for _, x := range a.each() {
		for _, y := range b.each() {
			switch {
			case x == y && x&(ANull|ABoolT|ABoolF|AStrE|AArrE|AObjE|ATSliceE|AOMapE) != 0:
				eq = true // both are the one value of that atom (typed empties: equal if same type)
				if x&(ATSliceE|AOMapE) != 0 {
					ne = true
				}
			case x == y:
				eq, ne = true, true
			case (x|y)&^(AArrNum|AArrStr|AArrMix) == 0, (x|y)&^(AStrN) == 0:
				ne = true
			default:
				ne = true
			}
		}
	}
	return
}

func (x *Exec) model(a *activation, b *ssa.BasicBlock, i int, in *ssa.Call, callee *ssa.Function, args []AV, fr *frame, h *Heap, p pathInfo) bool {
	name := qualName(callee)
	srcName := func(k int) string {
		if k < len(in.Call.Args) {
			if _, isConst := in.Call.Args[k].(*ssa.Const); !isConst {
				return in.Call.Args[k].Name()
			}
		}
		return ""
	}
	switch name {
	case "(*sync.Map).Load", "(*sync.Map).LoadOrStore", "(*sync.Map).LoadAndDelete":
		// a value someone stored earlier: unknown, and certainly not fresh
		fr.vals[in] = AV{k: 'T', tup: []AV{{k: 'I', atoms: x.uni | APtr | AStruct | AOther, what: "from sync.Map"}, {k: 'B', tri: 3}}}
	case "(*sync.Map).Store", "(*sync.Map).Delete", "(*sync.Mutex).Lock", "(*sync.Mutex).Unlock", "(*sync.RWMutex).Lock", "(*sync.RWMutex).Unlock", "(*sync.RWMutex).RLock", "(*sync.RWMutex).RUnlock":
		// no value; the shared state itself is rule BAN's / Own's business
	case "errors.New", "fmt.Errorf":
		fr.vals[in] = AV{k: 'E', tri: 2}
	case "fmt.Sprintf", "fmt.Sprint", "strings.Join", "strings.Repeat", "strings.Replace", "strings.ToUpper", "strings.ToLower", "strconv.Quote", "strconv.FormatInt", "strconv.FormatFloat", "strconv.QuoteRuneToASCII", "strings.TrimSpace", "strings.ReplaceAll":
		out := AV{k: 'S'}
		// a string built from tagged strings keeps their tags (API rules: "the message contains the expression")
		var tags []string
		for _, av := range args {
			if av.tag != "" {
				tags = append(tags, av.tag)
			}
			if av.k == 'L' && av.obj != 0 && h.objs[av.obj] != nil {
				for _, e := range h.objs[av.obj].elems {
					if e.tag != "" {
						tags = append(tags, e.tag)
					}
				}
			}
		}
		if len(tags) > 0 {
			out.tag = callee.Name() + "(" + strings.Join(tags, ",") + ")"
		}
		fr.vals[in] = out
	case "strings.HasPrefix", "strings.HasSuffix", "strings.Contains", "strings.EqualFold", "utf8.ValidString", "unicode/utf8.ValidString":
		fr.vals[in] = AV{k: 'B', tri: 3}
	case "math.Abs", "math.Ceil", "math.Floor", "math.Trunc", "math.Round":
		v := args[0]
		fr.vals[in] = AV{k: 'F', fbits: v.fbits &^ 8}
	case "math.IsInf", "math.IsNaN":
		v := args[0]
		bit := uint8(2)
		if name == "math.IsNaN" {
			bit = 4
		}
		yes, no := v.fbits&bit != 0, v.fbits&(7&^bit) != 0
		// IsInf(f, sign) with sign != 0 tests one infinity only: the other one
		// is still possible where it answers false
		oneSided := false
		if name == "math.IsInf" {
			if len(args) < 2 || !args[1].nk || args[1].n != 0 {
				oneSided = v.fbits&2 != 0
				if oneSided {
					no = true
				}
			}
		}
		if yes {
			f2, h2 := fr, h
			if no {
				f2, h2 = fr.clone(), h.clone()
			}
			nv := v
			nv.fbits = bit
			x.setVal(f2, in.Call.Args[0], nv)
			f2.vals[in] = AV{k: 'B', tri: 1}
			a.cont(b, i+1, f2, h2, p)
		}
		if no {
			nv := v
			if !oneSided {
				nv.fbits &^= bit
			}
			x.setVal(fr, in.Call.Args[0], nv)
			fr.vals[in] = AV{k: 'B', tri: 2}
			a.cont(b, i+1, fr, h, p)
		}
		return true
	case "strconv.ParseFloat":
		// a nil error does not imply a finite value: "inf", "infinity", "nan" parse
		return x.forkVals(a, b, i, in, []AV{
			{k: 'T', tup: []AV{{k: 'F', fbits: 7}, {k: 'E', tri: 1}}},
			{k: 'T', tup: []AV{{k: 'F', fbits: 3}, {k: 'E', tri: 2}}},
		}, fr, h, p)
	case "strconv.Atoi", "strconv.ParseInt":
		return x.forkVals(a, b, i, in, []AV{
			{k: 'T', tup: []AV{{k: 'N'}, {k: 'E', tri: 1}}},
			{k: 'T', tup: []AV{{k: 'N', nk: true}, {k: 'E', tri: 2}}},
		}, fr, h, p)
	case "unicode/utf8.RuneCountInString":
		v := AV{k: 'N'}
		if args[0].sk {
			v.nk, v.n = true, int64(len([]rune(args[0].s)))
		}
		fr.vals[in] = v
	case "unicode/utf8.DecodeRuneInString":
		fr.vals[in] = AV{k: 'T', tup: []AV{{k: 'N'}, {k: 'N'}}}
	case "unicode.ToUpper", "unicode.ToLower":
		fr.vals[in] = AV{k: 'N'}
	case "encoding/json.Marshal", "encoding/json.MarshalIndent":
		v := args[0]
		bytes := AV{k: 'L', tri: 2, elemK: 'O', what: "json"}
		mayFail := v.k != 'I' || v.atoms&^UJSON != 0 || v.bad
		alts := []AV{{k: 'T', tup: []AV{bytes, {k: 'E', tri: 1}}}}
		if mayFail {
			alts = append(alts, AV{k: 'T', tup: []AV{{k: 'L', tri: 1}, {k: 'E', tri: 2}}})
		}
		return x.forkVals(a, b, i, in, alts, fr, h, p)
	case "reflect.ValueOf":
		v := args[0]
		if v.k != 'I' {
			fr.vals[in] = AV{k: 'R', atoms: x.uni}
			break
		}
		fr.vals[in] = AV{k: 'R', atoms: v.atoms, src: srcName(0), prov: v.prov, obj: v.obj}
	case "reflect.TypeOf":
		v := args[0]
		fr.vals[in] = AV{k: 'K', what: "type", atoms: v.atoms, src: srcName(0)}
	case "reflect.DeepEqual":
		l, r := args[0], args[1]
		if l.k != 'I' || r.k != 'I' {
			fr.vals[in] = AV{k: 'B', tri: 3}
			break
		}
		eq, ne := deepEqualAtoms(l.atoms, r.atoms)
		fr.vals[in] = boolAV(eq, ne)
	case "(reflect.Value).Kind":
		// the fact produced by comparing the kind refines the reflect.Value itself
		src := srcName(0)
		if src == "" {
			src = args[0].src
		}
		fr.vals[in] = AV{k: 'K', what: "kind", atoms: args[0].atoms, src: src}
	case "(reflect.Value).Len":
		r := args[0]
		okA := AArrays | ATSlices | AStrings | AObjects | AOMapE | AOMapN | ANilSlice | ANilMap
		if bad := r.atoms &^ okA; bad != 0 {
			x.ev("reflect-pre", in, false, fmt.Sprintf("reflect.Value.Len on a value that can be %s", bad))
			r.atoms &= okA
			if r.atoms == 0 {
				return true
			}
		} else {
			x.ev("reflect-pre", in, true, "")
		}
		out := AV{k: 'N', atoms: r.atoms, link: 'l', src: r.src}
		if lenZeroAtoms(r.atoms) == 0 {
			out.pos = true
		}
		if lenPosAtoms(r.atoms) == 0 {
			out.nk = true
		}
		fr.vals[in] = out
	case "(reflect.Value).Index":
		r := args[0]
		okA := AArrays | ATSlices | AStrings | ANilSlice
		if bad := r.atoms &^ okA; bad != 0 {
			x.ev("reflect-pre", in, false, fmt.Sprintf("reflect.Value.Index on a value that can be %s", bad))
			r.atoms &= okA
			if r.atoms == 0 {
				return true
			}
		} else {
			x.ev("reflect-pre", in, true, "")
		}
		ea := elemAtoms(r.atoms, x.elemUni)
		if r.atoms&AStrings != 0 {
			ea |= AOther
		}
		if ea == 0 {
			return true // no element exists: the index is out of range on every state
		}
		fr.vals[in] = AV{k: 'R', atoms: ea, prov: prov("elem(" + string(r.prov) + ")")}
	case "(reflect.Value).Interface":
		r := args[0]
		if r.fld {
			x.ev("reflect-field-interface", in, false, "Interface() on a struct field found by name: panics if the field is unexported (no CanInterface/IsExported guard)")
		} else {
			x.ev("reflect-field-interface", in, true, "")
		}
		if r.atoms&ANull != 0 && r.k == 'R' {
			// Interface() of the zero Value panics
			x.ev("reflect-pre", in, false, "reflect.Value.Interface on an invalid (zero) Value")
			r.atoms &^= ANull
			if r.atoms == 0 {
				return true
			}
		}
		fr.vals[in] = AV{k: 'I', atoms: r.atoms, prov: r.prov, obj: r.obj}
	case "(reflect.Value).IsNil":
		r := args[0]
		okA := ANilPtr | APtr | AInterp | AObjects | AOMapE | AOMapN | AArrays | ATSlices | ANilSlice | ANilMap
		if bad := r.atoms &^ okA; bad != 0 {
			x.ev("reflect-pre", in, false, fmt.Sprintf("reflect.Value.IsNil on a value that can be %s", bad))
			r.atoms &= okA
			if r.atoms == 0 {
				return true
			}
		} else {
			x.ev("reflect-pre", in, true, "")
		}
		nilA := r.atoms & (ANilPtr | ANilSlice | ANilMap)
		v := boolAV(nilA != 0, r.atoms&^nilA != 0)
		if s := srcName(0); s != "" {
			v.facts = []fact{{src: s, ifT: nilA, ifF: r.atoms &^ nilA, valid: true}}
		} else if r.src != "" {
			v.facts = []fact{{src: r.src, ifT: nilA, ifF: r.atoms &^ nilA, valid: true}}
		}
		fr.vals[in] = v
	case "(reflect.Value).IsValid":
		r := args[0]
		fr.vals[in] = boolAV(r.atoms&^ANull != 0, r.atoms&ANull != 0)
		// eager split so that the validity is known afterwards
		var alts []AV
		if r.atoms&^ANull != 0 {
			alts = append(alts, AV{k: 'B', tri: 1})
		}
		if r.atoms&ANull != 0 {
			alts = append(alts, AV{k: 'B', tri: 2})
		}
		for ai, v := range alts {
			f2, h2 := fr, h
			if ai < len(alts)-1 {
				f2, h2 = fr.clone(), h.clone()
			}
			nr := r
			if v.tri == 1 {
				nr.atoms &^= ANull
			} else {
				nr.atoms = ANull
			}
			x.setVal(f2, in.Call.Args[0], nr)
			f2.vals[in] = v
			a.cont(b, i+1, f2, h2, p)
		}
		return true
	case "(reflect.Value).Elem":
		r := args[0]
		okA := ANilPtr | APtr | AInterp
		if bad := r.atoms &^ okA; bad != 0 {
			x.ev("reflect-pre", in, false, fmt.Sprintf("reflect.Value.Elem on a value that can be %s", bad))
			r.atoms &= okA
			if r.atoms == 0 {
				return true
			}
		} else {
			x.ev("reflect-pre", in, true, "")
		}
		var out Atoms
		if r.atoms&(APtr|AInterp) != 0 {
			out |= AStruct
		}
		if r.atoms&ANilPtr != 0 {
			out |= ANull // the zero Value
		}
		fr.vals[in] = AV{k: 'R', atoms: out, prov: r.prov}
	case "(reflect.Value).FieldByName":
		r := args[0]
		okA := AStruct | AExpref
		if bad := r.atoms &^ okA; bad != 0 {
			x.ev("reflect-pre", in, false, fmt.Sprintf("reflect.Value.FieldByName on a value that can be %s", bad))
			r.atoms &= okA
			if r.atoms == 0 {
				return true
			}
		} else {
			x.ev("reflect-pre", in, true, "")
		}
		fr.vals[in] = AV{k: 'R', atoms: x.uni | ANull, fld: true, prov: prov("member(" + string(r.prov) + ")")}
	case "(reflect.Value).CanInterface":
		// splits on exported-ness: afterwards the field flag is resolved
		r := args[0]
		f2, h2 := fr.clone(), h.clone()
		nr := r
		nr.fld = false
		x.setVal(f2, in.Call.Args[0], nr)
		f2.vals[in] = AV{k: 'B', tri: 1}
		a.cont(b, i+1, f2, h2, p)
		fr.vals[in] = AV{k: 'B', tri: 2}
		a.cont(b, i+1, fr, h, p)
		return true
	case "sort.Stable", "sort.Sort":
		return x.modelSort(a, b, i, in, args, fr, h, p)
	case "sort.Slice", "sort.SliceStable":
		return x.modelSortFunc(a, b, i, in, args, fr, h, p)
	case "sort.Float64s", "sort.Strings":
	default:
		if totalPure(name) {
			// a total, side-effect free function of the standard library (it returns
			// for every argument and writes nothing): its result is simply unknown
			fr.vals[in] = x.unknownOf(in.Type())
			return false
		}
		x.gap("no kind model for "+name, in.Pos())
		fr.vals[in] = x.opaqueOf(in.Type(), "unmodelled "+name)
	}
	return false
}

// totalPure: standard-library functions that cannot panic for any argument
// of their types, have no side effect and return fresh or immutable values.
// Deliberately excluded although pure: strings.Repeat (panics on a negative
// count), utf8.EncodeRune / AppendRune on a caller's buffer (index panic),
// strconv.FormatInt/AppendInt (panic on a base outside 2..36; FormatInt is
// modelled for constant bases), anything taking a slice to write into.
func totalPure(name string) bool {
	switch name {
	case "strconv.FormatBool", "strconv.Itoa", "strconv.QuoteToASCII", "strconv.QuoteRune", "strconv.Unquote", "strconv.ParseBool",
		"unicode/utf8.RuneLen", "unicode/utf8.RuneCountInString", "unicode/utf8.RuneCount", "unicode/utf8.ValidRune", "unicode/utf8.Valid", "unicode/utf8.RuneError",
		"unicode.IsUpper", "unicode.IsLower", "unicode.IsLetter", "unicode.IsDigit", "unicode.IsSpace", "unicode.IsPunct", "unicode.IsControl", "unicode.IsNumber", "unicode.IsPrint", "unicode.ToLower", "unicode.ToTitle", "unicode.In",
		"strings.Index", "strings.IndexByte", "strings.IndexRune", "strings.IndexAny", "strings.LastIndex", "strings.LastIndexByte", "strings.Count", "strings.Compare",
		"strings.Fields", "strings.Split", "strings.SplitN", "strings.Title", "strings.Trim", "strings.TrimLeft", "strings.TrimRight", "strings.TrimPrefix", "strings.TrimSuffix", "strings.TrimFunc", "strings.ContainsRune", "strings.ContainsAny", "strings.Map", "strings.ToTitle",
		"math.Max", "math.Min", "math.Mod", "math.Signbit", "math.Copysign", "math.Float64bits", "math.Float64frombits":
		return true
	}
	return false
}

// unknownOf: any value of type T (for results of total pure library functions).
func (x *Exec) unknownOf(T types.Type) AV {
	if T == nil {
		return AV{}
	}
	if tup, ok := T.(*types.Tuple); ok {
		out := AV{k: 'T'}
		for i := 0; i < tup.Len(); i++ {
			out.tup = append(out.tup, x.unknownOf(tup.At(i).Type()))
		}
		return out
	}
	switch u := T.Underlying().(type) {
	case *types.Basic:
		switch {
		case u.Info()&types.IsBoolean != 0:
			return AV{k: 'B', tri: 3}
		case u.Info()&types.IsInteger != 0:
			return AV{k: 'N'}
		case u.Info()&types.IsFloat != 0:
			return AV{k: 'F', fbits: 7}
		case u.Info()&types.IsString != 0:
			return AV{k: 'S'}
		}
	case *types.Interface:
		if isErrorType(T) {
			return AV{k: 'E', tri: 3}
		}
	}
	return x.opaqueOf(T, "result of a pure library function")
}

// modelSort: sort.Stable(adapter) calls adapter.Less zero or more times.
func (x *Exec) modelSort(a *activation, b *ssa.BasicBlock, i int, in *ssa.Call, args []AV, fr *frame, h *Heap, p pathInfo) bool {
	var T types.Type
	var recv AV
	if mi, ok := in.Call.Args[0].(*ssa.MakeInterface); ok {
		T = mi.X.Type()
		recv = x.val(fr, mi.X)
	} else if iv := args[0]; iv.k == 'I' && iv.dyn != nil {
		// the sort.Interface value was boxed elsewhere: its dynamic type travelled with it
		T = iv.dyn
		if _, isPtr := T.Underlying().(*types.Pointer); isPtr {
			recv = AV{k: 'P', tri: 2, obj: iv.obj, what: "ptr " + T.String()}
		} else {
			recv = AV{k: 'L', tri: 2, obj: iv.obj, atoms: iv.atoms}
		}
	} else {
		x.gap("sort on an interface value built elsewhere", in.Pos())
		return false
	}
	var less *ssa.Function
	ms := x.c.Prog.MethodSets.MethodSet(T)
	for k := 0; k < ms.Len(); k++ {
		if ms.At(k).Obj().Name() == "Less" {
			if o, ok := ms.At(k).Obj().(*types.Func); ok {
				less = x.c.Prog.FuncValue(o)
			}
		}
	}
	if less == nil || less.Blocks == nil || less.Pkg != x.c.SLib {
		return false // a standard sort adapter (Float64Slice, StringSlice): no effect on kinds
	}
	// zero calls
	{
		f2, h2 := fr.clone(), h.clone()
		a.cont(b, i+1, f2, h2, p)
	}
	// one (abstract) call, whose effects are idempotent under repetition
	x.runUp(less, []AV{recv, {k: 'N'}, {k: 'N'}}, h, p, &stackLink{fr: fr, up: a.up}, func(rets []AV, h2 *Heap, p2 pathInfo, fin *frame) {
		a.cont(b, i+1, fr.clone(), h2, p2)
	})
	return true
}

// modelSortFunc: sort.Slice / sort.SliceStable(s, less) calls less zero or
// more times and permutes s: every cell of a concrete list can afterwards hold
// any of its elements.
func (x *Exec) modelSortFunc(a *activation, b *ssa.BasicBlock, i int, in *ssa.Call, args []AV, fr *frame, h *Heap, p pathInfo) bool {
	if len(args) != 2 {
		return false
	}
	lf := args[1]
	if lf.k != 'U' || lf.fn == nil || lf.fn.Blocks == nil || len(lf.fn.Params) != 2 {
		x.gap("sort with a less function that is not a known function literal", in.Pos())
		return false
	}
	permute := func(hh *Heap) {
		sv := args[0]
		if sv.obj == 0 {
			return
		}
		o := hh.objs[sv.obj]
		if o == nil || o.kind != 'l' || len(o.elems) < 2 {
			return
		}
		j := o.elems[0]
		for _, e := range o.elems[1:] {
			j = joinAV(j, e)
		}
		no := *o
		no.elems = make([]AV, len(o.elems))
		for k := range no.elems {
			no.elems[k] = j
		}
		hh.objs[sv.obj] = &no
	}
	bind := func(hh *Heap) bool {
		x.pendingFV = nil
		if len(lf.fn.FreeVars) == 0 {
			return true
		}
		if lf.obj != 0 {
			if o := hh.objs[lf.obj]; o != nil && len(o.fields) == len(lf.fn.FreeVars) {
				x.pendingFV = append([]AV(nil), o.fields...)
				return true
			}
		}
		return false
	}
	// zero calls (fewer than two elements)
	{
		f2, h2 := fr.clone(), h.clone()
		a.cont(b, i+1, f2, h2, p)
	}
	// one (abstract) call, whose effects are idempotent under repetition
	if !bind(h) {
		x.gap("less function entered without its captured variables", in.Pos())
		return false
	}
	x.runUp(lf.fn, []AV{{k: 'N'}, {k: 'N'}}, h, p, &stackLink{fr: fr, up: a.up}, func(rets []AV, h2 *Heap, p2 pathInfo, fin *frame) {
		permute(h2)
		a.cont(b, i+1, fr.clone(), h2, p2)
	})
	return true
}

// appendCap: how long a list built by append keeps one cell per element. Long
// concrete lists built in loops multiply the states (every element can be of
// every kind); the rules that need element identity (K-ORDER, the table
// constructor) ask for more.
func (x *Exec) appendCap() int {
	if x.tableMode {
		return 64
	}
	if x.ord != nil {
		return maxConcreteList
	}
	if x.curFuzzy {
		return 0 // a list grown in a loop of unknown length: one cell per element says nothing
	}
	return 3
}

// soleImplementer: for an interface type declared in the library, the one
// library type (T or *T) whose method set implements it; nil when there are
// none or several, or the interface is not the library's.
func (c *Ctx) soleImplementer(t types.Type) types.Type {
	n, ok := t.(*types.Named)
	if !ok || n.Obj().Pkg() == nil || (n.Obj().Pkg() != c.SLib.Pkg && (c.SCLI == nil || n.Obj().Pkg() != c.SCLI.Pkg)) {
		return nil
	}
	it, ok := n.Underlying().(*types.Interface)
	if !ok || it.NumMethods() == 0 {
		return nil
	}
	if c.soleImpl == nil {
		c.soleImpl = map[*types.Named]types.Type{}
	}
	if d, ok := c.soleImpl[n]; ok {
		return d
	}
	var found []types.Type
	for _, pkg := range []*ssa.Package{c.SLib, c.SCLI} {
		if pkg == nil {
			continue
		}
		for _, m := range pkg.Members {
			tm, ok := m.(*ssa.Type)
			if !ok {
				continue
			}
			T := tm.Type()
			if _, isIface := T.Underlying().(*types.Interface); isIface {
				continue
			}
			if types.Implements(T, it) {
				found = append(found, T)
			} else if pt := types.NewPointer(T); types.Implements(pt, it) {
				found = append(found, pt)
			}
		}
	}
	var d types.Type
	if len(found) == 1 {
		d = found[0]
	}
	c.soleImpl[n] = d
	return d
}
