package main

import (
	"fmt"
	"go/types"
	"os"
	"sort"
	"strings"

	"golang.org/x/tools/go/ssa"
)

func init() {
	register("K-TRUTH", ruleTruth)
	register("K-CALL/json", func(c *Ctx) *RuleResult { return ruleCall(c, "json") })
	register("K-CALL/go", func(c *Ctx) *RuleResult { return ruleCall(c, "go") })
}

// ---------------------------------------------------------------- building inputs

func (x *Exec) exprefAV() AV {
	return AV{k: 'I', atoms: AExpref, agg: &aggVal{fields: []AV{{k: 'O', what: "node expref-body"}}}}
}

func (x *Exec) argAV(a Atoms, p prov) AV {
	if a == AExpref {
		v := x.exprefAV()
		v.prov = p
		return v
	}
	return AV{k: 'I', atoms: a, prov: p}
}

// buildCaller: the *functionCaller receiver with the function table of the
// analysed tree, as a constant aggregate in the abstract heap.
func (x *Exec) buildCaller(h *Heap) AV {
	if x.caller.k != 0 {
		return x.caller
	}
	table := map[string]AV{}
	for _, e := range x.c.table() {
		var specs []AV
		for _, s := range e.Args {
			var ts []AV
			for _, t := range s.Types {
				ts = append(ts, AV{k: 'S', s: t, sk: true})
			}
			vb := AV{k: 'B', tri: 2}
			if s.Variadic {
				vb.tri = 1
			}
			specs = append(specs, AV{k: 'G', what: "argSpec", agg: &aggVal{fields: []AV{{k: 'L', tri: 2, agg: &aggVal{elems: ts}, elemK: 'S'}, vb}}})
		}
		hb := AV{k: 'B', tri: 2}
		if e.HasExpRef {
			hb.tri = 1
		}
		argsAV := AV{k: 'L', tri: 2, agg: &aggVal{elems: specs}, elemK: 'O'}
		nf := 4
		if st, ok := x.c.A.FEntryT.Underlying().(*types.Struct); ok {
			nf = st.NumFields()
		}
		fields := make([]AV, nf)
		if st, ok := x.c.A.FEntryT.Underlying().(*types.Struct); ok {
			for i := range fields {
				fields[i] = x.zero(st.Field(i).Type())
			}
		}
		fields[fieldIndex(x.c.A.FEntryT, "name")] = AV{k: 'S', s: e.Name, sk: true}
		fields[fieldIndex(x.c.A.FEntryT, "arguments")] = argsAV
		fields[fieldIndex(x.c.A.FEntryT, "handler")] = AV{k: 'U', fn: e.Handler, what: e.Handler.Name()}
		if hi := fieldIndexOpt(x.c.A.FEntryT, "hasExpRef"); hi >= 0 {
			fields[hi] = hb
		}
		table[e.Key] = AV{k: 'G', what: "functionEntry", agg: &aggVal{fields: fields}}
	}
	tableAV := AV{k: 'G', what: "functionTable", agg: &aggVal{table: table}}
	x.caller = AV{k: 'P', tri: 2, what: "functionCaller", agg: &aggVal{fields: []AV{tableAV}}}
	return x.caller
}

// defaultHyp: a recursive evaluation returns any value of the universe or an error.
func defaultHyp(x *Exec, callee *ssa.Function, call *ssa.Call, args []AV, p pathInfo) []hypOutcome {
	k := len(p.calls) + 1
	return []hypOutcome{
		{res: AV{k: 'I', atoms: x.resUni, prov: prov(fmt.Sprintf("res#%d", k))}, err: AV{k: 'E', tri: 1}},
		{res: AV{k: 'I', atoms: ANull}, err: AV{k: 'E', tri: 2}},
	}
}

type runOutcome struct {
	success []AV // result values of success returns
	errors  int
	usedHyp bool // some outcome went through a hypothesised evaluation
	hypErr  bool
	paths   []pathInfo
}

// ---------------------------------------------------------------- K-TRUTH

func ruleTruth(c *Ctx) *RuleResult {
	r := &RuleResult{Doc: "isFalse, interpreted abstractly on every atom of the value universe, equals the specification's truth table: false-like are null, false, \"\", [], {} (and for Go data: empty typed slices/maps, nil pointers); everything else, including every number, is true-like", Floor: 12}
	fn := c.A.IsFalse
	x := c.newExec(UGo, "isFalse")
	for _, a := range (UGo).each() {
		r.Instances++
		var got uint8
		x.label = "isFalse(" + a.String() + ")"
		x.run(fn, []AV{{k: 'I', atoms: a}}, newHeap(), pathInfo{}, func(rets []AV, h *Heap, p pathInfo, fin *frame) {
			if len(rets) == 1 && rets[0].k == 'B' {
				got |= rets[0].tri
			} else {
				got |= 3
			}
		})
		want := uint8(2)
		if falseLike(a) {
			want = 1
		}
		key := "isFalse|" + a.String()
		pos := c.pos(fn.Pos())
		switch {
		case got == want:
			r.ok(key, pos, fname(fn), fmt.Sprintf("isFalse(%s) = %v on every path", a, want == 1))
		case got == 0:
			r.viol(key, pos, fname(fn), fmt.Sprintf("isFalse(%s) never returns (panics on every path)", a))
		default:
			r.viol(key, pos, fname(fn), fmt.Sprintf("isFalse(%s) can be %s, the specification says %v", a, [...]string{"", "true", "false", "true or false"}[got], want == 1))
		}
	}
	c.reportEvents(r, x, "K-TRUTH")
	// every user of truthiness calls this one function
	users := 0
	for _, f := range append([]*ssa.Function{c.A.Exec}, c.A.Helpers...) {
		users += len(callsTo(f, fn))
	}
	r.Notes = append(r.Notes, fmt.Sprintf("isFalse has %d call sites in the evaluator and its helpers", users))
	return r
}

// reportEvents turns the executor's recorded obligations into rule obligations.
func (c *Ctx) reportEvents(r *RuleResult, x *Exec, prefix string) {
	if c.evIndex == nil {
		c.evIndex = map[ssa.Instruction][2]int{}
	}
	for _, e := range x.events {
		cur := c.evIndex[e.in]
		cur[0] += e.ok
		cur[1] += e.bad
		c.evIndex[e.in] = cur
	}
	var keys []string
	for k := range x.events {
		keys = append(keys, k)
	}
	sort.Slice(keys, func(i, j int) bool {
		a, b := x.events[keys[i]], x.events[keys[j]]
		if a.in.Pos() != b.in.Pos() {
			return a.in.Pos() < b.in.Pos()
		}
		return a.kind < b.kind
	})
	ord := map[string]int{}
	for _, k := range keys {
		e := x.events[k]
		fn := e.in.Parent()
		base := fmt.Sprintf("%s|%s|%s", e.kind, fname(fn), eventConstruct(c, e.in))
		ord[base]++
		key := fmt.Sprintf("%s#%d", base, ord[base])
		r.Instances++
		if e.bad == 0 {
			r.ok(key, c.pos(e.in.Pos()), fname(fn), fmt.Sprintf("%s holds in all %d abstract contexts", e.kind, e.ok))
		} else if len(x.gaps) > 0 {
			// values that passed through an unmodelled construct are unknown: a finding
			// that may rest on them is not a verdict
			r.undecided(key, c.pos(e.in.Pos()), fname(fn), fmt.Sprintf("%s; e.g. %s (%d failing / %d passing contexts) — not decided: the interpretation met constructs it has no transfer function for", e.kind, strings.Join(e.detail, " | "), e.bad, e.ok))
		} else {
			r.viol(key, c.pos(e.in.Pos()), fname(fn), fmt.Sprintf("%s; e.g. %s (%d failing / %d passing contexts)", e.kind, strings.Join(e.detail, " | "), e.bad, e.ok))
		}
	}
	var gaps []string
	for g := range x.gaps {
		gaps = append(gaps, g)
	}
	sort.Strings(gaps)
	for _, g := range gaps {
		r.undecided(prefix+"|gap|"+g, c.pos(x.gaps[g]), "", "the abstract interpreter has no transfer function for this construct: "+g)
	}
	if x.trunc {
		r.undecided(prefix+"|truncated", "-", "", "exploration hit the step limit")
	}
}

// eventConstruct: a line-independent description of the instruction.
func eventConstruct(c *Ctx, in ssa.Instruction) string {
	switch in := in.(type) {
	case *ssa.TypeAssert:
		return c.symStr(in.X, 0) + ".(" + shortType(in.AssertedType.String()) + ")"
	case *ssa.BinOp:
		return c.symStr(in.X, 0) + in.Op.String() + c.symStr(in.Y, 0)
	case *ssa.IndexAddr:
		return c.symStr(in.X, 0) + "[" + c.symStr(in.Index, 0) + "]"
	case *ssa.Slice:
		return c.symStr(in.X, 0) + "[:]"
	case *ssa.Call:
		return shortCallee(calleeName(in))
	}
	return fmt.Sprintf("%T", in)
}

func shortType(s string) string {
	s = strings.ReplaceAll(s, libPath+".", "")
	return s
}

// ---------------------------------------------------------------- K-CALL

// retOracle: atoms a success result may have, by function specification.
func retOracle(name string, args []Atoms) Atoms {
	switch name {
	case "abs", "ceil", "floor", "sum", "length":
		return ANum
	case "avg", "to_number":
		return ANum | ANull
	case "contains", "starts_with", "ends_with":
		return ABools
	case "join", "to_string", "type":
		return AStrings
	case "keys", "values", "map", "sort", "sort_by", "to_array":
		return AArrays
	case "max", "min":
		return ANum | AStrings | ANull
	case "max_by", "min_by", "not_null":
		return UGo
	case "merge":
		return AObjects
	case "reverse":
		if len(args) == 1 && args[0]&AStrings != 0 {
			return AStrings
		}
		return AArrays
	}
	return 0
}

func ruleCall(c *Ctx, mode string) *RuleResult {
	doc := "CallFunction interpreted abstractly for every function name (26 + an unknown one) x every arity 0..N x every tuple of value atoms: unknown name / wrong arity / an ill-typed argument in any position (expression reference where a value is required and vice versa) => every outcome is an error and nothing can panic; well-typed tuples => no panic, result kinds within the function's specified return type, JSON-closed, and no error unless an expression-reference evaluation failed or produced an ill-typed key"
	r := &RuleResult{Doc: doc, Floor: 27}
	uni := UJSON
	atoms := (UJSON | AExpref).each()
	maxAr := 3
	if s := os.Getenv("KCALL_MAXAR"); s != "" {
		fmt.Sscanf(s, "%d", &maxAr)
	}
	if mode == "go" {
		uni = UGo
		atoms = (UGo | AExpref).each()
		maxAr = 2
	}
	if c.Tier == "thorough" && mode == "json" {
		maxAr = 4
	}
	names := []string{}
	specs := map[string]*TableEntry{}
	for _, e := range c.table() {
		names = append(names, e.Key)
		specs[e.Key] = e
	}
	names = append(names, "no_such_function")
	sort.Strings(names)
	fn := c.A.CallFunction
	totalRuns, skipped := 0, 0
	agg := c.newExec(uni, "")
	for _, name := range names {
		if only := os.Getenv("KCALL_ONLY"); only != "" && only != name {
			continue
		}
		e := specs[name]
		if os.Getenv("KCALL_DEBUG") != "" {
			fmt.Fprintln(os.Stderr, "K-CALL", mode, name)
		}
		x := c.newExec(uni, name)
		x.hyp = defaultHyp
		x.hypFns[c.A.Exec] = true
		x.traceReturns = os.Getenv("KCALL_TRACE") != ""
		x.events = agg.events
		x.gaps = agg.gaps
		type verdict struct {
			bad    []string
			nruns  int
			nwell  int
			nill   int
			narity int
		}
		var v verdict
		var tuple []Atoms
		var rec func(n int)
		runTuple := func() {
			// classification by the specification
			class := "well-typed"
			switch {
			case e == nil:
				class = "unknown-function"
			default:
				nspec := len(e.Args)
				variadic := nspec > 0 && e.Args[nspec-1].Variadic
				if (!variadic && len(tuple) != nspec) || (variadic && len(tuple) < nspec) {
					class = "wrong-arity"
					break
				}
				for i, a := range tuple {
					si := i
					if si >= nspec {
						si = nspec - 1
					}
					acc := specAcceptAll(e.Args[si].Types)
					hasElemTyped := false
					for _, t := range e.Args[si].Types {
						if t == "array[number]" || t == "array[string]" {
							hasElemTyped = true
						}
					}
					if hasElemTyped && a == AArrMix {
						class = "undecided"
						break
					}
					if a&acc == 0 {
						class = "ill-typed"
					}
				}
			}
			if class == "undecided" {
				skipped++
				return
			}
			totalRuns++
			v.nruns++
			var parts []string
			for _, a := range tuple {
				parts = append(parts, a.String())
			}
			x.label = name + "(" + strings.Join(parts, ", ") + ")"
			h := newHeap()
			var elems []AV
			for i, a := range tuple {
				elems = append(elems, x.argAV(a, prov(fmt.Sprintf("arg#%d", i))))
			}
			lid := h.alloc(&aobj{kind: 'l', elems: elems})
			argsAV := AV{k: 'L', tri: 2, obj: lid, elemK: 'I'}
			badBefore := 0
			for _, ev := range x.events {
				badBefore += ev.bad
			}
			x.steps = 0
			stepsBefore := x.steps
			var succ []AV
			var succHeap []*Heap
			nerr, nsuccViaHypErr := 0, 0
			hypUsed := false
			x.run(fn, []AV{x.buildCaller(h), {k: 'S', s: name, sk: true}, argsAV, {k: 'P', tri: 2, what: "interp"}}, h, pathInfo{}, func(rets []AV, h2 *Heap, p pathInfo, fin *frame) {
				if len(p.calls) > 0 {
					hypUsed = true
				}
				if len(rets) != 2 {
					return
				}
				if os.Getenv("KCALL_TRACE") == x.label {
					fmt.Fprintln(os.Stderr, "  outcome:", rets[0].String(), rets[1].String(), "calls:", len(p.calls), "notes:", p.notes)
				}
				ev := rets[1]
				if ev.k != 'E' || ev.tri&2 != 0 {
					nerr++
				}
				if ev.k == 'E' && ev.tri&1 != 0 {
					succ = append(succ, rets[0])
					succHeap = append(succHeap, h2)
				}
				_ = nsuccViaHypErr
			})
			badAfter := 0
			for _, ev := range x.events {
				badAfter += ev.bad
			}
			if os.Getenv("KCALL_DEBUG") != "" && x.steps-stepsBefore > 20000 {
				fmt.Fprintln(os.Stderr, "  heavy:", x.label, x.steps-stepsBefore, "steps")
			}
			panics := badAfter > badBefore
			switch class {
			case "unknown-function", "wrong-arity", "ill-typed":
				if class == "ill-typed" {
					v.nill++
				} else {
					v.narity++
				}
				if len(succ) > 0 {
					v.bad = append(v.bad, fmt.Sprintf("%s is %s but can return a value (%s) instead of an error", x.label, class, succ[0]))
				}
				if panics {
					v.bad = append(v.bad, fmt.Sprintf("%s is %s and can panic (see the assert/compare obligations)", x.label, class))
				}
				if len(succ) == 0 && nerr == 0 && !panics {
					v.bad = append(v.bad, fmt.Sprintf("%s: no outcome at all", x.label))
				}
			default:
				v.nwell++
				if panics {
					v.bad = append(v.bad, fmt.Sprintf("%s is well typed but can panic", x.label))
				}
				want := retOracle(name, tuple)
				for si, s := range succ {
					if s.k != 'I' {
						v.bad = append(v.bad, fmt.Sprintf("%s returns a non-interface abstract value %s", x.label, s))
						continue
					}
					isBad := s.bad
					if s.obj != 0 && succHeap[si].objs[s.obj] != nil && succHeap[si].objs[s.obj].bad {
						isBad = true
					}
					if s.atoms&(ABad|AExpref|AInterp) != 0 || isBad {
						v.bad = append(v.bad, fmt.Sprintf("%s can return a value that is not JSON data: %s", x.label, s.atoms&(ABad|AExpref|AInterp)))
					}
					if extra := s.atoms &^ (want | ABad | AExpref | AInterp); extra != 0 && mode == "json" {
						v.bad = append(v.bad, fmt.Sprintf("%s can return %s; the specification's return type allows %s", x.label, extra, want))
					}
				}
				goOnly := false
				for _, a := range tuple {
					if a&UGoOnly != 0 {
						goOnly = true
					}
				}
				if goOnly {
					// C18 only requires that functions applied to Go data do not panic
					return
				}
				// provenance oracles of the function specification
				for si, s := range succ {
					if s.k != 'I' {
						continue
					}
					elems := AV{}
					if s.obj != 0 && succHeap[si].objs[s.obj] != nil {
						ob := succHeap[si].objs[s.obj]
						if ob.kind == 'a' {
							elems = ob.join
						} else {
							for _, e := range ob.elems {
								elems = joinAV(elems, e)
							}
						}
					}
					pv := string(s.prov)
					switch name {
					case "not_null":
						want := ""
						for i, a := range tuple {
							if a != ANull {
								want = fmt.Sprintf("arg#%d", i)
								break
							}
						}
						if want == "" && s.atoms != ANull {
							v.bad = append(v.bad, fmt.Sprintf("%s must be null (all arguments are null), yields %s", x.label, s.atoms))
						}
						if want != "" && pv != want {
							v.bad = append(v.bad, fmt.Sprintf("%s must return its first non-null argument %s, returns %s", x.label, want, orNone(pv)))
						}
					case "max_by", "min_by":
						if s.atoms != ANull && pv != "elem(arg#0)" {
							v.bad = append(v.bad, fmt.Sprintf("%s must return an element of its array argument, returns %s", x.label, orNone(pv)))
						}
					case "sort_by", "reverse":
						// (reverse fills a pre-sized slice by index: that every slot is overwritten is index arithmetic, not decided)
						if tuple[0]&AStrings == 0 && elems.k == 'I' && string(elems.prov) != "elem(arg#0)" && !(string(elems.prov) == "elem(arg#0)+zero?" || string(elems.prov) == "zero?" || (name == "reverse" && (string(elems.prov) == "elem(arg#0)+zero" || string(elems.prov) == "zero"))) {
							v.bad = append(v.bad, fmt.Sprintf("%s must return the elements of its array argument, returns elements %s", x.label, orNone(string(elems.prov))))
						}
					case "values":
						if elems.k == 'I' && string(elems.prov) != "member(arg#0)" && string(elems.prov) != "member(arg#0)+zero?" {
							v.bad = append(v.bad, fmt.Sprintf("%s must return the members of its argument, returns %s", x.label, orNone(string(elems.prov))))
						}
					case "map":
						if elems.k == 'I' {
							for _, pp := range strings.Split(string(elems.prov), "+") {
								if pp == "zero?" {
									continue // a slot of a pre-sized slice: that every slot is overwritten is index arithmetic, not decided
								}
								if !strings.HasPrefix(pp, "res#") {
									v.bad = append(v.bad, fmt.Sprintf("%s must return the results of the expression, returns %s", x.label, orNone(pp)))
								}
							}
							if elems.atoms&ANull == 0 {
								v.bad = append(v.bad, fmt.Sprintf("%s drops null results (map keeps them)", x.label))
							}
						}
					case "to_array":
						if tuple[0]&AArrays != 0 && pv != "arg#0" {
							v.bad = append(v.bad, fmt.Sprintf("%s must return its array argument unchanged, returns %s", x.label, orNone(pv)))
						}
						if tuple[0]&AArrays == 0 && string(elems.prov) != "arg#0" {
							v.bad = append(v.bad, fmt.Sprintf("%s must wrap its argument in a one-element array, contains %s", x.label, orNone(string(elems.prov))))
						}
					}
				}
				if nerr > 0 && !hypUsed {
					v.bad = append(v.bad, fmt.Sprintf("%s is well typed but can return an error without any expression-reference evaluation", x.label))
				}
				if len(succ) == 0 && !hypUsed {
					v.bad = append(v.bad, fmt.Sprintf("%s is well typed but never returns a value", x.label))
				}
			}
		}
		rec = func(n int) {
			if len(tuple) == n {
				runTuple()
				return
			}
			for _, a := range atoms {
				tuple = append(tuple, a)
				rec(n)
				tuple = tuple[:len(tuple)-1]
			}
		}
		for n := 0; n <= maxAr; n++ {
			tuple = tuple[:0]
			rec(n)
		}
		r.Instances++
		key := "call|" + name
		pos := c.pos(fn.Pos())
		if e != nil {
			pos = e.Pos
		}
		if len(v.bad) == 0 {
			r.ok(key, pos, "CallFunction", fmt.Sprintf("%d abstract calls (%d well-typed, %d ill-typed, %d wrong arity/unknown): all outcomes as specified", v.nruns, v.nwell, v.nill, v.narity))
		} else {
			n := len(v.bad)
			if n > 5 {
				v.bad = append(v.bad[:5], fmt.Sprintf("… %d more", n-5))
			}
			if len(x.gaps) > 0 {
				r.undecided(key, pos, "CallFunction", fmt.Sprintf("%d of %d abstract calls deviate (%s) — not decided: the interpretation met constructs it has no transfer function for", n, v.nruns, strings.Join(v.bad, "; ")))
			} else {
				r.viol(key, pos, "CallFunction", fmt.Sprintf("%d of %d abstract calls deviate: %s", n, v.nruns, strings.Join(v.bad, "; ")))
			}
		}
		if x.trunc {
			agg.trunc = true
		}
	}
	c.reportEvents(r, agg, "K-CALL/"+mode)
	r.Notes = append(r.Notes, fmt.Sprintf("K-CALL/%s: %d abstract calls over %d atoms, arities 0..%d; %d tuples with array<mixed> in an array[number]/array[string] position not decided (the for-all over elements is value level)", mode, totalRuns, len(atoms), maxAr, skipped))
	return r
}

// ---------------------------------------------------------------- K-KEYS

func init() { register("K-KEYS", ruleKeys) }

// atomHyp: every recursive evaluation returns exactly the given atoms (or an error).
func atomHyp(seq []Atoms) func(x *Exec, callee *ssa.Function, call *ssa.Call, args []AV, p pathInfo) []hypOutcome {
	return func(x *Exec, callee *ssa.Function, call *ssa.Call, args []AV, p pathInfo) []hypOutcome {
		k := len(p.calls)
		a := seq[len(seq)-1]
		if k < len(seq) {
			a = seq[k]
		}
		return []hypOutcome{
			{res: AV{k: 'I', atoms: a, prov: prov(fmt.Sprintf("res#%d", k+1))}, err: AV{k: 'E', tri: 1}},
			{res: AV{k: 'I', atoms: ANull}, err: AV{k: 'E', tri: 2}},
		}
	}
}

func keyClass(a Atoms) string {
	switch {
	case a&ANum != 0 && a&^ANum == 0:
		return "number"
	case a&AStrings != 0 && a&^AStrings == 0:
		return "string"
	}
	return "other"
}

// K-KEYS: by-expression functions test their keys.
func ruleKeys(c *Ctx) *RuleResult {
	r := &RuleResult{Doc: "by-expression functions: with a non-empty array every success path has evaluated the expression reference at least once; sort_by/max_by/min_by return a value only when the (first) key is a number or a string; the sort adapters' Less records a failure whenever either key is not of the adapter's kind", Floor: 5}
	fn := c.A.CallFunction
	nonEmpty := []Atoms{AArrNum, AArrStr, AArrMix}
	for _, e := range c.table() {
		if !e.HasExpRef {
			continue
		}
		// argument order by declared types
		mk := func(arr Atoms, x *Exec) []AV {
			var out []AV
			for i, s := range e.Args {
				if len(s.Types) == 1 && s.Types[0] == "expref" {
					v := x.exprefAV()
					v.prov = prov(fmt.Sprintf("arg#%d", i))
					out = append(out, v)
				} else {
					out = append(out, AV{k: 'I', atoms: arr, prov: prov(fmt.Sprintf("arg#%d", i))})
				}
			}
			return out
		}
		for _, arr := range nonEmpty {
			for _, k := range UJSON.each() {
				r.Instances++
				x := c.newExec(UJSON, fmt.Sprintf("%s(%s) with keys %s", e.Key, arr, k))
				x.hyp = atomHyp([]Atoms{k})
				x.hypFns[c.A.Exec] = true
				h := newHeap()
				lid := h.alloc(&aobj{kind: 'l', elems: mk(arr, x)})
				nsucc, nsuccNoEval := 0, 0
				x.run(fn, []AV{x.buildCaller(h), {k: 'S', s: e.Key, sk: true}, {k: 'L', tri: 2, obj: lid, elemK: 'I'}, {k: 'P', tri: 2, what: "interp"}}, h, pathInfo{}, func(rets []AV, h2 *Heap, p pathInfo, fin *frame) {
					if len(rets) == 2 && rets[1].k == 'E' && rets[1].tri&1 != 0 {
						nsucc++
						if len(p.calls) == 0 {
							nsuccNoEval++
						}
					}
				})
				key := fmt.Sprintf("keys|%s|%s|key=%s", e.Key, arr, k)
				pos := e.Pos
				wantSuccess := e.Key == "map" || keyClass(k) != "other"
				switch {
				case nsuccNoEval > 0:
					r.viol(key, pos, e.Handler.Name(), fmt.Sprintf("%s on a non-empty array can return a value without evaluating the expression reference on any element (the key is never type checked)", e.Key))
				case !wantSuccess && nsucc > 0:
					r.viol(key, pos, e.Handler.Name(), fmt.Sprintf("%s returns a value although every key evaluates to %s (neither number nor string): must be an invalid-type error", e.Key, k))
				case wantSuccess && nsucc == 0:
					r.viol(key, pos, e.Handler.Name(), fmt.Sprintf("%s never returns a value although every key is a %s", e.Key, k))
				default:
					r.ok(key, pos, e.Handler.Name(), fmt.Sprintf("keys of kind %s: success possible=%v, always after an evaluation", k, nsucc > 0))
				}
			}
		}
	}
	// the sort adapters
	adapters := c.lessAdapters()
	if len(adapters) == 0 {
		r.undecided("less|none", c.pos(c.A.CallFunction.Pos()), "", "no sort adapter with an expression-reference body found")
	}
	for _, ad := range adapters {
		less := ad.less
		r.Instances++
		key := "less|" + fname(less)
		if ad.latch < 0 {
			r.viol(key, c.pos(less.Pos()), fname(less), "the sort adapter has no failure latch (bool or error field, or captured variable of a comparison literal): Less cannot report an ill-typed key or a failed evaluation")
			continue
		}
		if ad.opaque {
			r.undecided(key, c.pos(less.Pos()), fname(less), "the adapter compares through a function value that is not one of a fixed set of library functions")
			continue
		}
		var badPairs []string
		goodTotal := 0
		for _, choice := range ad.variants() {
			noLatch := map[string]bool{}
			for _, a := range UJSON.each() {
				for _, b := range UJSON.each() {
					x := c.newExec(UJSON, fmt.Sprintf("%s keys (%s, %s)", ad.label(choice), a, b))
					x.hyp = atomHyp([]Atoms{a, b})
					x.hypFns[c.A.Exec] = true
					h := newHeap()
					id := ad.object(c, h, AV{k: 'L', tri: 2, atoms: AArrMix, elemK: 'I', prov: "items"}, choice)
					x.run(less, ad.callArgs(x, h, id, AV{k: 'N'}, AV{k: 'N'}), h, pathInfo{}, func(rets []AV, h2 *Heap, p pathInfo, fin *frame) {
						// only paths where both evaluations succeeded matter here (errors: E-DISC)
						for _, hc := range p.calls {
							if hc.ret.atoms == ANull && hc.ret.prov == "" {
								return
							}
						}
						if len(p.calls) < 2 {
							// returned before the second evaluation: must have latched
							if !ad.latched(h2, id) {
								badPairs = append(badPairs, fmt.Sprintf("(%s, not evaluated)", a))
							}
							return
						}
						if !ad.latched(h2, id) {
							noLatch[keyClass(a)+"/"+keyClass(b)] = true
							if keyClass(a) == "other" || keyClass(b) == "other" || keyClass(a) != keyClass(b) {
								badPairs = append(badPairs, fmt.Sprintf("(%s, %s)", a, b))
							}
						}
					})
				}
			}
			good := 0
			for k := range noLatch {
				if k == "number/number" || k == "string/string" {
					good++
				}
			}
			if good != 1 {
				badPairs = append(badPairs, fmt.Sprintf("%s accepts %d key kinds without failure, expected exactly one of number/string", ad.label(choice), good))
			}
			goodTotal += good
		}
		switch {
		case len(badPairs) > 0:
			if len(badPairs) > 6 {
				badPairs = append(badPairs[:6], "…")
			}
			r.viol(key, c.pos(less.Pos()), fname(less), "Less returns without recording a failure for key kinds "+strings.Join(badPairs, ", ")+": sort_by would succeed on inconsistently typed keys")
		default:
			r.ok(key, c.pos(less.Pos()), fname(less), "fails (latches) unless both keys are of the adapter's one kind; 144 key pairs interpreted")
		}
	}
	return r
}
