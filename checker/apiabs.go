package main

import (
	"fmt"
	"sort"
	"strings"

	"golang.org/x/tools/go/ssa"
)

// API rules by abstract interpretation (A-COMPILE, A-MUST and the skeleton
// part of A-SKEL): the four entry points are interpreted with Parse and
// Execute replaced by hypotheses that tag their results —
//   Parse(p, e)        -> (ast(<tag of e>), nil) | (zero node, parse-error)
//   Execute(i, n, d)   -> (exec(<interp>,<tag of n>,<tag of d>), nil) | (nil, exec-error)
// — everything else in the library (constructors, helper functions shared
// between the entry points, named results, by-value intermediates) is looked
// through. The oracle reads the returned values: what they are made of, not
// how the function is written.

type apiPath struct {
	rets     []AV
	heap     *Heap
	p        pathInfo
	panicked bool
	panicArg AV
}

func (c *Ctx) apiRun(fn *ssa.Function, args func(h *Heap) []AV) ([]apiPath, *Exec) {
	x := c.newExec(UJSON, "api "+fn.Name())
	x.hypFns[c.A.Parse] = true
	x.hypFns[c.A.Exec] = true
	x.hyp = func(x *Exec, callee *ssa.Function, call *ssa.Call, as []AV, p pathInfo) []hypOutcome {
		tagOf := func(v AV) string {
			if v.tag != "" {
				return v.tag
			}
			return "?"
		}
		switch callee {
		case c.A.Parse:
			e := "?"
			if len(as) > 1 {
				e = tagOf(as[1])
			}
			// the parser the expression is parsed with must be a fresh one
			fresh := len(as) > 0 && as[0].k == 'P' && as[0].obj != 0
			t := "ast(" + e + ")"
			if !fresh {
				t = "ast-with-shared-parser(" + e + ")"
			}
			return []hypOutcome{
				{res: AV{k: 'O', what: "node parsed", tag: t}, err: AV{k: 'E', tri: 1}},
				{res: AV{k: 'O', what: "node zero"}, err: AV{k: 'E', tri: 2, tag: "parse-error"}},
			}
		default: // Execute
			it := "?"
			if len(as) > 0 {
				switch {
				case as[0].tag != "":
					it = as[0].tag
				case as[0].k == 'P' && as[0].obj != 0:
					it = "fresh-interp"
				}
			}
			n, d := "?", "?"
			if len(as) > 1 {
				n = tagOf(as[1])
			}
			if len(as) > 2 {
				d = tagOf(as[2])
			}
			return []hypOutcome{
				{res: AV{k: 'I', atoms: UJSON, tag: "exec(" + it + "," + n + "," + d + ")"}, err: AV{k: 'E', tri: 1}},
				{res: AV{k: 'I', atoms: ANull}, err: AV{k: 'E', tri: 2, tag: "exec-error"}},
			}
		}
	}
	var out []apiPath
	x.onPanic = func(arg AV, h *Heap, p pathInfo) {
		out = append(out, apiPath{heap: h, p: p, panicked: true, panicArg: arg})
	}
	h := newHeap()
	x.run(fn, args(h), h, pathInfo{}, func(rets []AV, h2 *Heap, p pathInfo, fin *frame) {
		out = append(out, apiPath{rets: rets, heap: h2, p: p})
	})
	return out, x
}

// hypCalls: "Parse ok", "Parse fail", "Execute ok", ... along the path.
func hypCalls(p pathInfo) []string {
	var out []string
	for _, hc := range p.calls {
		s := hc.callee
		if hc.ret.tag != "" || (hc.ret.k == 'O' && hc.ret.what == "node parsed") {
			s += " ok"
		} else {
			s += " fail"
		}
		out = append(out, s)
	}
	return out
}

func apiGaps(r *RuleResult, c *Ctx, x *Exec, key string) bool {
	if len(x.gaps) == 0 && !x.trunc {
		return false
	}
	var gs []string
	for g := range x.gaps {
		gs = append(gs, g)
	}
	sort.Strings(gs)
	for _, g := range gs {
		r.undecided(key+"|gap|"+g, c.pos(x.gaps[g]), "", "the abstract interpreter has no transfer function for this construct: "+g)
	}
	if x.trunc {
		r.undecided(key+"|truncated", "-", "", "exploration hit the step limit")
	}
	return true
}

// compiledOK: v is a non-nil *JMESPath whose ast is the parse of the
// expression (by a fresh parser) and whose interpreter is a fresh object.
func (c *Ctx) compiledOK(v AV, h *Heap) (bool, string) {
	if v.k != 'P' || v.tri != 2 || v.obj == 0 || h.objs[v.obj] == nil {
		return false, "not a freshly allocated expression object (" + v.String() + ")"
	}
	o := h.objs[v.obj]
	ai, ii := fieldIndex(c.A.JMESPathT, "ast"), fieldIndex(c.A.JMESPathT, "intr")
	if o.kind != 's' || ai >= len(o.fields) || ii >= len(o.fields) {
		return false, "not a JMESPath object"
	}
	ast, intr := o.fields[ai], o.fields[ii]
	if ast.tag != "ast(expr)" {
		return false, "its ast is " + orNone(ast.tag) + ", must be the parse of the expression parameter by a fresh parser"
	}
	if intr.k != 'P' || intr.tri != 2 || intr.obj == 0 {
		return false, "its interpreter is not a fresh object"
	}
	return true, ""
}

func exprArg(h *Heap) []AV { return []AV{{k: 'S', tag: "expr"}} }

// A-COMPILE
func ruleCompile(c *Ctx) *RuleResult {
	r := &RuleResult{Doc: "Compile, interpreted with Parse as a tagged hypothesis: every return is (a fresh non-nil *JMESPath holding the parse of the parameter by a fresh parser and a fresh interpreter, nil) on the paths where Parse succeeded, or (nil, a non-nil error) where it failed; nothing else", Floor: 2}
	fn := c.A.Compile
	paths, x := c.apiRun(fn, exprArg)
	pos := c.pos(fn.Pos())
	gapped := apiGaps(r, c, x, "compile")
	nOK, nFail := 0, 0
	var bad []string
	for _, ap := range paths {
		calls := strings.Join(hypCalls(ap.p), ", ")
		if ap.panicked {
			bad = append(bad, "a path panics (after "+calls+")")
			continue
		}
		if len(ap.rets) != 2 {
			continue
		}
		v, e := ap.rets[0], ap.rets[1]
		switch {
		case e.k == 'E' && e.tri == 1:
			if ok, why := c.compiledOK(v, ap.heap); ok {
				nOK++
			} else {
				bad = append(bad, "a nil-error return (after "+calls+") whose expression is "+why)
			}
		case e.k == 'E' && e.tri == 2:
			if v.k == 'P' && v.tri == 1 {
				nFail++
			} else {
				bad = append(bad, "a failing return (after "+calls+") that also carries an expression")
			}
		default:
			bad = append(bad, "a return whose error may or may not be nil (after "+calls+")")
		}
	}
	r.Instances++
	switch {
	case len(bad) > 0 && gapped:
		r.undecided("returns", pos, fname(fn), strings.Join(uniqStrings(bad), "; "))
	case len(bad) > 0:
		r.viol("returns", pos, fname(fn), "Compile has "+strings.Join(uniqStrings(bad), "; "))
	default:
		r.ok("returns", pos, fname(fn), fmt.Sprintf("%d success paths return a fresh JMESPath{ast: Parse(fresh parser, expression), intr: fresh interpreter} with a nil error; %d failure paths return (nil, non-nil error)", nOK, nFail))
	}
	r.Instances++
	if nOK > 0 && nFail > 0 {
		r.ok("both-outcomes", pos, fname(fn), "a success and a failure path exist")
	} else {
		r.undecided("both-outcomes", pos, fname(fn), fmt.Sprintf("%d success / %d failure paths: Parse is not called exactly as hypothesised", nOK, nFail))
	}
	return r
}

// A-MUST
func ruleMustCompile(c *Ctx) *RuleResult {
	r := &RuleResult{Doc: "MustCompile, interpreted with Parse as a tagged hypothesis: it returns what Compile returns on success, on every path where Parse succeeded and on no other; where Parse failed it panics, with a message that contains the expression", Floor: 3}
	fn := c.A.MustCompile
	paths, x := c.apiRun(fn, exprArg)
	pos := c.pos(fn.Pos())
	gapped := apiGaps(r, c, x, "must")
	var bad []string
	nRet, nPanic := 0, 0
	for _, ap := range paths {
		calls := hypCalls(ap.p)
		failed := false
		for _, s := range calls {
			if strings.HasSuffix(s, " fail") {
				failed = true
			}
		}
		cs := strings.Join(calls, ", ")
		if ap.panicked {
			nPanic++
			if !failed {
				bad = append(bad, "it panics although compilation succeeded (after "+cs+")")
			}
			if !strings.Contains(ap.panicArg.tag, "expr") {
				bad = append(bad, "the panic message does not contain the expression (message built from "+orNone(ap.panicArg.tag)+")")
			}
			continue
		}
		nRet++
		if failed {
			bad = append(bad, "it returns normally although compilation failed (after "+cs+")")
			continue
		}
		if len(ap.rets) != 1 {
			continue
		}
		if ok, why := c.compiledOK(ap.rets[0], ap.heap); !ok {
			bad = append(bad, "the returned expression is "+why)
		}
	}
	mk := func(key, okText string, cond bool, badText string) {
		r.Instances++
		switch {
		case cond:
			r.ok(key, pos, fname(fn), okText)
		case gapped:
			r.undecided(key, pos, fname(fn), badText)
		default:
			r.viol(key, pos, fname(fn), badText)
		}
	}
	mk("paths", fmt.Sprintf("%d returning paths (all after a successful Parse, all returning a fresh JMESPath of the parameter) and %d panicking paths (all after a failed Parse, message contains the expression)", nRet, nPanic), len(bad) == 0, "MustCompile: "+strings.Join(uniqStrings(bad), "; "))
	mk("returns-on-success", "a returning path exists", nRet > 0, "MustCompile never returns")
	mk("panics-on-failure", "a panicking path exists", nPanic > 0, "MustCompile never panics: a compilation failure is swallowed")
	return r
}

func uniqStrings(in []string) []string {
	seen := map[string]bool{}
	var out []string
	for _, s := range in {
		if !seen[s] {
			seen[s] = true
			out = append(out, s)
		}
	}
	if len(out) > 5 {
		out = append(out[:5], fmt.Sprintf("… %d more", len(out)-5))
	}
	return out
}

// skeleton part of A-SKEL: the two Search entry points.
func (c *Ctx) skeletonAbs(r *RuleResult) {
	type ep struct {
		fn   *ssa.Function
		key  string
		want string
		args func(h *Heap) []AV
	}
	eps := []ep{
		{c.A.Search, "one-shot", "exec(fresh-interp,ast(expr),data)", func(h *Heap) []AV {
			return []AV{{k: 'S', tag: "expr"}, {k: 'I', atoms: UJSON, tag: "data"}}
		}},
		{c.A.JPSearch, "compiled", "exec(jp.intr,jp.ast,data)", func(h *Heap) []AV {
			o := &aobj{kind: 's'}
			st := c.A.JMESPathT.Underlying()
			_ = st
			ai, ii := fieldIndex(c.A.JMESPathT, "ast"), fieldIndex(c.A.JMESPathT, "intr")
			n := ai
			if ii > n {
				n = ii
			}
			o.fields = make([]AV, n+1)
			o.fields[ai] = AV{k: 'O', what: "node stored", tag: "jp.ast"}
			o.fields[ii] = AV{k: 'P', tri: 2, what: "interp", tag: "jp.intr"}
			id := h.alloc(o)
			return []AV{{k: 'P', tri: 2, obj: id, tag: "jp"}, {k: 'I', atoms: UJSON, tag: "data"}}
		}},
	}
	for _, e := range eps {
		paths, x := c.apiRun(e.fn, e.args)
		pos := c.pos(e.fn.Pos())
		gapped := apiGaps(r, c, x, e.key)
		var bad []string
		nOK, nFail := 0, 0
		for _, ap := range paths {
			cs := strings.Join(hypCalls(ap.p), ", ")
			if ap.panicked {
				bad = append(bad, "a path panics (after "+cs+")")
				continue
			}
			if len(ap.rets) != 2 {
				continue
			}
			v, er := ap.rets[0], ap.rets[1]
			switch {
			case er.k == 'E' && er.tri == 1:
				if v.tag == e.want {
					nOK++
				} else {
					bad = append(bad, "a nil-error return yields "+orNone(v.tag)+" (after "+cs+"), must be the unchanged result of "+e.want)
				}
			case er.k == 'E' && er.tri == 2:
				nFail++
				if er.tag == "" {
					bad = append(bad, "a failing return carries an error that is neither Parse's nor Execute's (after "+cs+")")
				}
			default:
				bad = append(bad, "a return whose error may or may not be nil (after "+cs+")")
			}
			// no evaluation after a failed parse; at most one evaluation
			nExec, parseFailed := 0, false
			for _, s := range hypCalls(ap.p) {
				if s == "Parse fail" {
					parseFailed = true
				}
				if strings.HasPrefix(s, "Execute") {
					nExec++
					if parseFailed {
						bad = append(bad, "the evaluator runs although Parse failed")
					}
				}
			}
			if nExec > 1 {
				bad = append(bad, fmt.Sprintf("%d evaluations on one path", nExec))
			}
		}
		r.Instances++
		switch {
		case len(bad) > 0 && gapped:
			r.undecided(e.key, pos, fname(e.fn), strings.Join(uniqStrings(bad), "; "))
		case len(bad) > 0:
			r.viol(e.key, pos, fname(e.fn), fname(e.fn)+": "+strings.Join(uniqStrings(bad), "; "))
		case nOK == 0:
			r.undecided(e.key, pos, fname(e.fn), "no success path found")
		default:
			r.ok(e.key, pos, fname(e.fn), fmt.Sprintf("%d success paths return %s unchanged; %d failure paths return Parse's or Execute's error", nOK, e.want, nFail))
		}
	}
}
