package main

import (
	"fmt"
	"go/types"
	"sort"
	"strings"
	"unicode"
	"unicode/utf8"

	"golang.org/x/tools/go/ssa"
)

// LexFold: what tokenize does with an input that starts with the runes
// (r, r2), decided by folding the lexer's code with the input tape as the
// only unknown. It generalises the single-rune fold of §3.10:
//
//   * next(), back(), peek() of the Lexer are tape primitives: next returns
//     tape[pos] and moves on, back moves back, peek looks; beyond the two given
//     runes the tape is unknown;
//   * every other library function is looked into (its parameters bound to the
//     folded arguments), whatever it is called and however the scanners are cut
//     into helpers; functions outside the library return unknown values;
//   * pure instructions are folded; loads are unknown, stores are skipped; a
//     branch on an unknown condition is followed both ways (bounded);
//   * a path ends at the first *token emission* (a store of a folded token type
//     into a token value), at a return of tokenize (error / finish), or when the
//     dispatch loop reads the next rune without having emitted (skip).
//
// The outcome set per (r, r2) is compared with the lexical grammar. Nothing of
// the repository runs: this is constant folding over a finite domain of rune
// pairs, with forking where the fold does not decide.

type lexOutcome struct {
	kind     string // emit, error, finish, skip, cut, gap
	tok      string
	consumed int // tape position at the end (runes read and not pushed back)
	what     string
}

func (o lexOutcome) String() string {
	switch o.kind {
	case "emit":
		n := fmt.Sprint(o.consumed)
		if o.consumed >= 2 {
			n = "2+"
		}
		return "emit:" + o.tok + "/" + n
	case "gap":
		return "gap:" + o.what
	case "panic":
		return "panic:" + o.what
	}
	return o.kind
}

type lexFrame struct {
	fn     *ssa.Function
	env    map[ssa.Value]fval
	retTo  *ssa.Call // call instruction in the parent frame
	parent *lexFrame
	blk    *ssa.BasicBlock
	idx    int
	prev   *ssa.BasicBlock
	visits map[*ssa.BasicBlock]int
	hp     *lexHeap // shared by all frames of one path
}

// lexHeap: local aggregates (struct and array variables, variadic argument
// lists) of the path, by object id.
type lexHeap struct {
	objs map[int]fval
	next int
}

func (h *lexHeap) clone() *lexHeap {
	n := &lexHeap{objs: make(map[int]fval, len(h.objs)), next: h.next}
	for k, v := range h.objs {
		n.objs[k] = copyFval(v)
	}
	return n
}

func copyFval(v fval) fval {
	if len(v.tup) > 0 {
		t := make([]fval, len(v.tup))
		for i, x := range v.tup {
			t[i] = copyFval(x)
		}
		v.tup = t
	}
	if len(v.arr) > 0 && v.kind == 'A' {
		t := make([]fval, len(v.arr))
		for i, x := range v.arr {
			t[i] = copyFval(x)
		}
		v.arr = t
	}
	return v
}

// zeroFval: the zero value of T as far as the fold cares ('S' struct, 'A' array).
func zeroFval(T types.Type, depth int) fval {
	if depth > 4 {
		return fval{}
	}
	switch u := T.Underlying().(type) {
	case *types.Basic:
		switch {
		case u.Info()&types.IsInteger != 0:
			bits, uns, _ := intInfo(T)
			return fval{kind: 'i', bits: bits, u: uns}
		case u.Info()&types.IsBoolean != 0:
			return fval{kind: 'b'}
		case u.Info()&types.IsString != 0:
			return fval{kind: 's'}
		}
	case *types.Struct:
		v := fval{kind: 'S'}
		for i := 0; i < u.NumFields(); i++ {
			v.tup = append(v.tup, zeroFval(u.Field(i).Type(), depth+1))
		}
		return v
	case *types.Array:
		if u.Len() > 64 {
			return fval{}
		}
		v := fval{kind: 'A'}
		for i := int64(0); i < u.Len(); i++ {
			v.arr = append(v.arr, zeroFval(u.Elem(), depth+1))
		}
		return v
	case *types.Interface:
		if isErrorType(T) {
			return fval{kind: 'e', b: false}
		}
	}
	return fval{}
}

// at: the value at selector sel inside v (ok=false when the path is not modelled).
func fvalAt(v fval, sel []int) (fval, bool) {
	for _, k := range sel {
		switch v.kind {
		case 'S':
			if k < 0 || k >= len(v.tup) {
				return fval{}, false
			}
			v = v.tup[k]
		case 'A':
			if k < 0 || k >= len(v.arr) {
				return fval{}, false
			}
			v = v.arr[k]
		default:
			return fval{}, false
		}
	}
	return v, true
}

func fvalSet(v fval, sel []int, nv fval) (fval, bool) {
	if len(sel) == 0 {
		return nv, true
	}
	k := sel[0]
	switch v.kind {
	case 'S':
		if k < 0 || k >= len(v.tup) {
			return v, false
		}
		sub, ok := fvalSet(v.tup[k], sel[1:], nv)
		v.tup[k] = sub
		return v, ok
	case 'A':
		if k < 0 || k >= len(v.arr) {
			return v, false
		}
		sub, ok := fvalSet(v.arr[k], sel[1:], nv)
		v.arr[k] = sub
		return v, ok
	}
	return v, false
}

func (fr *lexFrame) clone() *lexFrame {
	if fr == nil {
		return nil
	}
	n := fr.cloneChain()
	h := fr.hp.clone()
	for f := n; f != nil; f = f.parent {
		f.hp = h
	}
	return n
}

func (fr *lexFrame) cloneChain() *lexFrame {
	if fr == nil {
		return nil
	}
	n := *fr
	n.env = make(map[ssa.Value]fval, len(fr.env))
	for k, v := range fr.env {
		n.env[k] = v
	}
	n.visits = make(map[*ssa.BasicBlock]int, len(fr.visits))
	for k, v := range fr.visits {
		n.visits[k] = v
	}
	n.parent = fr.parent.cloneChain()
	return &n
}

func (fr *lexFrame) depth() int {
	d := 0
	for f := fr; f.parent != nil; f = f.parent {
		d++
	}
	return d
}

type lexFolder struct {
	c      *Ctx
	tables map[*ssa.Global]fval
	next   *ssa.Function
	back   *ssa.Function
	peek   *ssa.Function
	tape   []int64
	out    map[string]lexOutcome
	steps  int
	memo   map[string]bool
}

func (c *Ctx) newLexFolder() *lexFolder {
	lf := &lexFolder{c: c, tables: map[*ssa.Global]fval{}}
	lf.next, lf.back, lf.peek = c.lexerPrims()
	return lf
}

// fold returns the outcomes of tokenize on an input starting with tape.
func (lf *lexFolder) fold(tape []int64) []lexOutcome {
	lf.tape = tape
	lf.out = map[string]lexOutcome{}
	lf.steps = 0
	fn := lf.c.A.Tokenize
	fr := &lexFrame{fn: fn, env: map[ssa.Value]fval{}, blk: fn.Blocks[0], visits: map[*ssa.BasicBlock]int{}, hp: &lexHeap{objs: map[int]fval{}, next: 1}}
	lf.memo = map[string]bool{}
	lf.run(fr, 0, 0, "", 0)
	var res []lexOutcome
	var keys []string
	for k := range lf.out {
		keys = append(keys, k)
	}
	sort.Strings(keys)
	for _, k := range keys {
		res = append(res, lf.out[k])
	}
	return res
}

func (lf *lexFolder) record(o lexOutcome) { lf.out[o.String()] = o }

// run interprets from fr.blk/fr.idx; pos is the tape position, reads the number
// of dispatch-level reads so far.
func (lf *lexFolder) run(fr *lexFrame, pos int, reads int, emitted string, lastW int) {
	c := lf.c
	for {
		blk := fr.blk
		if fr.idx == 0 {
			fr.visits[blk]++
			if fr.visits[blk] > 16 {
				lf.record(lexOutcome{kind: "cut"})
				return
			}
			if len(blk.Preds) > 1 {
				key := lf.stateKey(fr, pos, reads, emitted) + fmt.Sprint("|w", lastW)
				if lf.memo[key] {
					return
				}
				lf.memo[key] = true
			}
		}
		f := &folder{c: c, env: fr.env, tables: lf.tables}
		for i := fr.idx; i < len(blk.Instrs); i++ {
			lf.steps++
			if lf.steps > 60000 {
				lf.record(lexOutcome{kind: "gap", what: "step limit"})
				return
			}
			in := blk.Instrs[i]
			if v, ok := in.(ssa.Value); ok {
				if _, isPhi := in.(*ssa.Phi); !isPhi {
					delete(fr.env, v)
				}
			}
			switch in := in.(type) {
			case *ssa.Phi:
				// all the phis of a block take their values at once, from the
				// values their operands had on the way in (a phi may name itself
				// or a sibling phi): evaluate first, assign afterwards
				if i > 0 {
					if _, prevPhi := blk.Instrs[i-1].(*ssa.Phi); prevPhi {
						break // done with the first phi of the block
					}
				}
				type upd struct {
					ph *ssa.Phi
					v  fval
					ok bool
				}
				var ups []upd
				for j := i; j < len(blk.Instrs); j++ {
					ph, isPhi := blk.Instrs[j].(*ssa.Phi)
					if !isPhi {
						break
					}
					u := upd{ph: ph}
					if fr.prev != nil {
						for pi, p := range blk.Preds {
							if p == fr.prev {
								u.v, u.ok = lf.evalE(f, ph.Edges[pi])
							}
						}
					}
					ups = append(ups, u)
				}
				for _, u := range ups {
					delete(fr.env, u.ph)
					if u.ok {
						fr.env[u.ph] = u.v
					}
				}
			case *ssa.If:
				cv, ok := f.eval(in.Cond)
				if ok && cv.kind == 'b' {
					k := 1
					if cv.b {
						k = 0
					}
					fr.prev, fr.blk, fr.idx = blk, blk.Succs[k], 0
					goto next
				}
				// a branch on what a function outside the library says about a
				// rune (a classification the folder has no definition of): what
				// the lexer does here is not decided
				{
					cond := in.Cond
					if u, isU := cond.(*ssa.UnOp); isU {
						cond = u.X
					}
					if call, isCall := cond.(*ssa.Call); isCall {
						if sc := call.Call.StaticCallee(); sc != nil && sc.Pkg != c.SLib && sc.Blocks == nil || (sc != nil && sc.Pkg != c.SLib) {
							lf.record(lexOutcome{kind: "gap", what: "branch on the result of " + sc.String() + ", which is not folded, at " + c.pos(in.Pos())})
							return
						}
					}
				}
				// unknown: both ways
				{
					alt := fr.clone()
					alt.prev, alt.blk, alt.idx = blk, blk.Succs[1], 0
					lf.run(alt, pos, reads, emitted, lastW)
					fr.prev, fr.blk, fr.idx = blk, blk.Succs[0], 0
					goto next
				}
			case *ssa.Jump:
				fr.prev, fr.blk, fr.idx = blk, blk.Succs[0], 0
				goto next
			case *ssa.Panic:
				lf.record(lexOutcome{kind: "gap", what: "explicit panic"})
				return
			case *ssa.Return:
				if fr.parent == nil {
					// tokenize returns
					if emitted != "" {
						lf.record(lexOutcome{kind: "emit", tok: emitted, consumed: pos})
						return
					}
					errSlot := errIndex(fr.fn.Signature)
					res := retResults(in)
					switch {
					case errSlot < 0:
						lf.record(lexOutcome{kind: "finish", consumed: pos})
					default:
						// an error value handed up from a scanner: decided where it was produced
						if v, ok := lf.evalE(f, res[errSlot]); ok && v.kind == 'e' {
							if v.b {
								lf.record(lexOutcome{kind: "error", consumed: pos})
							} else {
								lf.record(lexOutcome{kind: "finish", consumed: pos})
							}
						} else {
							lf.record(lexOutcome{kind: "error", consumed: pos})
							lf.record(lexOutcome{kind: "finish", consumed: pos})
						}
					}
					return
				}
				// return into the caller
				par := fr.parent
				var vals []fval
				known := true
				for _, rv := range retResults(in) {
					if isErrorType(rv.Type()) {
						// errors: nil / non-nil is what matters
						if v, ok := lf.evalE(f, rv); ok && v.kind == 'e' {
							vals = append(vals, v)
						} else {
							vals = append(vals, fval{})
							known = false
						}
						continue
					}
					v, ok := f.eval(rv)
					if !ok {
						known = false
					}
					vals = append(vals, v)
				}
				_ = known
				if fr.retTo != nil {
					switch len(vals) {
					case 0:
					case 1:
						if vals[0].kind != 0 {
							par.env[fr.retTo] = vals[0]
						}
					default:
						par.env[fr.retTo] = fval{kind: 't', tup: vals}
					}
				}
				fr = par
				goto resume
			case *ssa.Alloc:
				z := zeroFval(in.Type().(*types.Pointer).Elem(), 0)
				if z.kind == 'S' || z.kind == 'A' {
					id := fr.hp.next
					fr.hp.next++
					fr.hp.objs[id] = z
					fr.env[in] = fval{kind: 'p', obj: id}
				}
			case *ssa.FieldAddr:
				if b, ok := f.eval(in.X); ok && b.kind == 'p' {
					fr.env[in] = fval{kind: 'p', obj: b.obj, sel: append(append([]int(nil), b.sel...), in.Field)}
				}
			case *ssa.IndexAddr:
				b, okb := f.eval(in.X)
				ix, oki := f.eval(in.Index)
				switch {
				case okb && b.kind == 'p' && oki && ix.kind == 'i':
					fr.env[in] = fval{kind: 'p', obj: b.obj, sel: append(append([]int(nil), b.sel...), int(ix.i))}
				case okb && b.kind == 'l' && oki && ix.kind == 'i':
					if ix.i < 0 || ix.i >= b.hi-b.lo {
						lf.record(lexOutcome{kind: "panic", what: fmt.Sprintf("index %d out of range [0,%d) at %s", ix.i, b.hi-b.lo, c.pos(in.Pos())), consumed: pos})
						return
					}
					fr.env[in] = fval{kind: 'p', obj: b.obj, sel: append(append([]int(nil), b.sel...), int(b.lo+ix.i))}
				default:
					if st := f.step(in); st != nil && st.kind == "panic" {
						lf.record(lexOutcome{kind: "panic", what: st.what, consumed: pos})
						return
					}
				}
			case *ssa.Slice:
				if b, ok := f.eval(in.X); ok && b.kind == 'p' {
					if arr, ok := fvalAt(fr.hp.objs[b.obj], b.sel); ok && arr.kind == 'A' {
						lo, hi := int64(0), int64(len(arr.arr))
						okB := true
						if in.Low != nil {
							if v, ok := f.eval(in.Low); ok && v.kind == 'i' {
								lo = v.i
							} else {
								okB = false
							}
						}
						if in.High != nil {
							if v, ok := f.eval(in.High); ok && v.kind == 'i' {
								hi = v.i
							} else {
								okB = false
							}
						}
						if okB {
							fr.env[in] = fval{kind: 'l', obj: b.obj, sel: b.sel, lo: lo, hi: hi}
						}
						continue
					}
				}
				f.step(in)
			case *ssa.Field:
				if b, ok := f.eval(in.X); ok && b.kind == 'S' && in.Field < len(b.tup) && b.tup[in.Field].kind != 0 {
					fr.env[in] = b.tup[in.Field]
				}
			case *ssa.MakeInterface:
				if b, ok := f.eval(in.X); ok {
					fr.env[in] = b
				}
			case *ssa.Store:
				// a scanner that stores the cursor itself (outside the tape
				// primitives and tokenize's reset): this folder's tape does not follow it
				if fa, ok := in.Addr.(*ssa.FieldAddr); ok && fr.parent != nil {
					if pt, ok := fa.X.Type().Underlying().(*types.Pointer); ok && inFam(c.A.LexerFam, pt.Elem()) && fieldName(pt.Elem(), fa.Field) == "currentPos" {
						lf.record(lexOutcome{kind: "gap", what: "the cursor is stored directly at " + c.pos(in.Pos())})
						return
					}
				}
				// token emission?
				if fa, ok := in.Addr.(*ssa.FieldAddr); ok && fa.Field == 0 {
					if pt, ok := fa.X.Type().Underlying().(*types.Pointer); ok && types.Identical(pt.Elem(), c.A.TokenT) {
						if v, ok := f.eval(in.Val); ok && v.kind == 'i' {
							name, ok := c.A.TokName[v.i]
							if !ok {
								name = fmt.Sprintf("tokType(%d)", v.i)
							}
							if emitted != "" {
								// a second token: the first one is complete
								lf.record(lexOutcome{kind: "emit", tok: emitted, consumed: pos})
								return
							}
							emitted = name
						} else {
							lf.record(lexOutcome{kind: "gap", what: "token type not folded at " + c.pos(in.Pos())})
							return
						}
					}
				}
				if a, ok := f.eval(in.Addr); ok && a.kind == 'p' {
					nv, _ := f.eval(in.Val)
					if o, ok := fr.hp.objs[a.obj]; ok {
						if upd, ok := fvalSet(copyFval(o), a.sel, copyFval(nv)); ok {
							fr.hp.objs[a.obj] = upd
						}
					}
				}
			case *ssa.Call:
				callee := in.Call.StaticCallee()
				if callee == nil {
					// a function value: a named function or literal of the library held in a folded value
					if v, ok := f.eval(in.Call.Value); ok && v.kind == 'f' && v.fn != nil {
						callee = v.fn
					}
				}
				switch {
				case callee != nil && callee == lf.next:
					if fr.parent == nil {
						// a dispatch-level read: the previous rune has been dealt with
						if reads >= 1 {
							if emitted != "" {
								lf.record(lexOutcome{kind: "emit", tok: emitted, consumed: pos})
							} else {
								lf.record(lexOutcome{kind: "skip", consumed: pos})
							}
							return
						}
						reads++
					}
					lastW = 0
					if v, ok := lf.tapeAt(pos); ok {
						fr.env[in] = fval{kind: 'i', i: v, bits: 32}
						// next() leaves lastWidth == 0 exactly when it returned eof
						lastW = 2
						if v == -1 {
							lastW = 1
						}
					}
					if lastW != 1 {
						pos++ // reading eof consumes nothing
					}
				case callee != nil && callee == lf.back:
					// back() after an eof read does not move (width 0)
					if lastW != 1 {
						pos--
					}
				case callee != nil && callee == lf.peek:
					if v, ok := lf.tapeAt(pos); ok {
						fr.env[in] = fval{kind: 'i', i: v, bits: 32}
					}
				case callee != nil && callee.Pkg == c.SLib && callee.Blocks != nil && !strings.HasSuffix(c.file(callee.Pos()), "_string.go"):
					if fr.depth() >= 6 {
						lf.record(lexOutcome{kind: "gap", what: "call depth"})
						return
					}
					sub := &lexFrame{fn: callee, env: map[ssa.Value]fval{}, retTo: in, parent: fr, blk: callee.Blocks[0], visits: map[*ssa.BasicBlock]int{}, hp: fr.hp}
					for pi, prm := range callee.Params {
						if pi < len(in.Call.Args) {
							if v, ok := f.eval(in.Call.Args[pi]); ok {
								sub.env[prm] = v
							} else if fnv := funcConst(in.Call.Args[pi]); fnv != nil {
								sub.env[prm] = fval{kind: 'f', fn: fnv}
							}
						}
					}
					if mc, ok := in.Call.Value.(*ssa.MakeClosure); ok {
						_ = mc
					}
					fr.idx = i + 1
					fr = sub
					goto next
				case isBuiltinNamed(in, "len"):
					if v, ok := f.eval(in.Call.Args[0]); ok {
						switch v.kind {
						case 'l':
							fr.env[in] = fval{kind: 'i', i: v.hi - v.lo, bits: 64}
						case 's':
							if v.s != "" {
								fr.env[in] = fval{kind: 'i', i: int64(len(v.s)), bits: 64}
							}
						}
					}
				default:
					// pure classification functions of the standard library on known
					// runes and constant strings are folded by their definition
					if callee != nil && callee.Pkg != nil {
						if v, ok := foldStdPure(callee.Pkg.Pkg.Path()+"."+callee.Name(), in, f); ok {
							fr.env[in] = v
							break
						}
					}
					// outside the library (strings, utf8, json, append, len ...): result unknown;
					// an error result may be nil or not: both
					if in.Type() != nil {
						if tup, ok := in.Type().(*types.Tuple); ok && tup.Len() > 0 && isErrorType(tup.At(tup.Len()-1).Type()) {
							alt := fr.clone()
							vals := make([]fval, tup.Len())
							vals[tup.Len()-1] = fval{kind: 'e', b: true}
							alt.env[in] = fval{kind: 't', tup: vals}
							alt.idx = i + 1
							lf.run(alt, pos, reads, emitted, lastW)
							vals2 := make([]fval, tup.Len())
							vals2[tup.Len()-1] = fval{kind: 'e', b: false}
							fr.env[in] = fval{kind: 't', tup: vals2}
						} else if isErrorType(in.Type()) {
							alt := fr.clone()
							alt.env[in] = fval{kind: 'e', b: true}
							alt.idx = i + 1
							lf.run(alt, pos, reads, emitted, lastW)
							fr.env[in] = fval{kind: 'e', b: false}
						}
					}
				}
			case *ssa.BinOp:
				// error == nil / != nil on a folded error value
				if isNilConst(in.Y) || isNilConst(in.X) {
					x := in.X
					if isNilConst(x) {
						x = in.Y
					}
					if v, ok := f.eval(x); ok && v.kind == 'e' {
						eq := !v.b
						if in.Op.String() == "!=" {
							eq = !eq
						}
						fr.env[in] = fval{kind: 'b', b: eq}
						continue
					}
				}
				f.step(in)
			case *ssa.UnOp:
				if in.Op.String() == "*" {
					if a, ok := f.eval(in.X); ok && a.kind == 'p' {
						if v, ok := fvalAt(fr.hp.objs[a.obj], a.sel); ok && v.kind != 0 {
							fr.env[in] = copyFval(v)
						}
						continue
					}
				}
				if fa, ok := in.X.(*ssa.FieldAddr); ok && in.Op.String() == "*" && lastW != 0 && lf.isLastWidth(fa) {
					if lastW == 1 {
						fr.env[in] = fval{kind: 'i', i: 0, bits: 64}
					} else {
						fr.env[in] = fval{kind: 'i', i: 1, bits: 64} // some positive width
					}
					continue
				}
				if st := f.step(in); st != nil && st.kind == "panic" {
					lf.record(lexOutcome{kind: "panic", what: st.what, consumed: pos})
					return
				}
			case *ssa.MakeClosure:
				if fnv, ok := in.Fn.(*ssa.Function); ok {
					fr.env[in] = fval{kind: 'f', fn: boundTarget(fnv)}
				}
			case *ssa.Extract:
				if t, ok := f.eval(in.Tuple); ok && t.kind == 't' && in.Index < len(t.tup) && t.tup[in.Index].kind != 0 {
					fr.env[in] = t.tup[in.Index]
				}
			case *ssa.Lookup:
				// a lookup in a table that does not fold (not constant, or of a shape
				// the folder does not read): what follows depends on it — not decided
				if base, okb := f.eval(in.X); !okb || base.kind != 'm' {
					if rootGlobal(in.X) != nil {
						lf.record(lexOutcome{kind: "gap", what: "lookup in a table that is not folded at " + c.pos(in.Pos())})
						return
					}
				}
				f.step(in)
			default:
				// pure instructions are folded; anything else leaves its value unknown
				if st := f.step(in); st != nil && st.kind == "panic" {
					lf.record(lexOutcome{kind: "panic", what: st.what, consumed: pos})
					return
				}
			}
		}
		lf.record(lexOutcome{kind: "gap", what: "fell off a block"})
		return
	resume:
		// continue the caller after the call
		continue
	next:
	}
}

func funcConst(v ssa.Value) *ssa.Function {
	switch v := v.(type) {
	case *ssa.Function:
		return v
	case *ssa.MakeClosure:
		if f, ok := v.Fn.(*ssa.Function); ok {
			return boundTarget(f)
		}
	}
	return nil
}

// ---------------------------------------------------------------- oracle

func isIdentStart(r int64) bool {
	return (r >= 'A' && r <= 'Z') || (r >= 'a' && r <= 'z') || r == '_'
}
func isIdentTrail(r int64) bool { return isIdentStart(r) || (r >= '0' && r <= '9') }
func isDigit(r int64) bool      { return r >= '0' && r <= '9' }

// lexSpec: the outcomes the lexical grammar allows / requires for an input
// that starts with (r, r2). "2+" stands for two or more runes consumed.
func lexSpec(r, r2 int64) (allowed, required []string) {
	one := func(s string) ([]string, []string) { return []string{s}, []string{s} }
	switch {
	case r == -1:
		return one("emit:tEOF/0")
	case r == ' ' || r == '\t' || r == '\n' || r == '\r':
		return one("skip")
	case isIdentStart(r):
		if isIdentTrail(r2) {
			return one("emit:tUnquotedIdentifier/2+")
		}
		return one("emit:tUnquotedIdentifier/1")
	case r == '-' || isDigit(r):
		if isDigit(r2) {
			return one("emit:tNumber/2+")
		}
		return one("emit:tNumber/1")
	}
	single := map[int64]string{'.': "tDot", '*': "tStar", ',': "tComma", ':': "tColon", '{': "tLbrace", '}': "tRbrace", ']': "tRbracket", '(': "tLparen", ')': "tRparen", '@': "tCurrent"}
	if t, ok := single[r]; ok {
		return one("emit:" + t + "/1")
	}
	two := func(second int64, both, alone string) ([]string, []string) {
		if r2 == second {
			return one("emit:" + both + "/2+")
		}
		if alone == "" {
			return one("error")
		}
		return one("emit:" + alone + "/1")
	}
	switch r {
	case '[':
		switch r2 {
		case ']':
			return one("emit:tFlatten/2+")
		case '?':
			return one("emit:tFilter/2+")
		}
		return one("emit:tLbracket/1")
	case '|':
		return two('|', "tOr", "tPipe")
	case '&':
		return two('&', "tAnd", "tExpref")
	case '<':
		return two('=', "tLTE", "tLT")
	case '>':
		return two('=', "tGTE", "tGT")
	case '!':
		return two('=', "tNE", "tNot")
	case '=':
		if r2 == '=' {
			return one("emit:tEQ/2+")
		}
		// a lone '=' is not a token of the grammar: an error now, or an unknown token the parser rejects
		return []string{"error", "emit:tUnknown/1"}, nil
	case '"', '\'', '`':
		tok := map[int64]string{'"': "tQuotedIdentifier", '\'': "tStringLiteral", '`': "tJSONLiteral"}[r]
		if r2 == -1 {
			return one("error")
		}
		// the closing delimiter lies in the unknown rest of the input (or is r2):
		// a token of two or more runes, or an error (unclosed / undecodable)
		return []string{"emit:" + tok + "/2+", "error"}, []string{"emit:" + tok + "/2+"}
	}
	return one("error")
}

// secondRunes: the second runes worth distinguishing.
func secondRunes() []int64 {
	out := []int64{-1}
	for r := int64(0); r < 0x82; r++ {
		out = append(out, r)
	}
	return append(out, 0xFF, 0x100, 0x3000, 0xFFFD, 0x10FFFF)
}

func outcomesStr(os []lexOutcome) []string {
	var s []string
	for _, o := range os {
		s = append(s, o.String())
	}
	return s
}

func init() { register("T-LEXDUMP", ruleLexDump) }

// T-LEXDUMP: debugging aid (not part of any property).
func ruleLexDump(c *Ctx) *RuleResult {
	r := &RuleResult{Doc: "debug", Floor: 0}
	lf := c.newLexFolder()
	for _, pr := range [][]int64{{'a', 'b'}, {'a', ' '}, {' ', 'a'}, {'<', '='}, {'<', 'a'}, {'=', 'a'}, {'[', ']'}, {'[', '?'}, {'[', '1'}, {'"', '"'}, {'"', 'a'}, {'"', -1}, {'\'', 'a'}, {'`', '1'}, {'1', '2'}, {'-', 'a'}, {-1, -1}, {'#', 'a'}, {0x80, 'a'}, {'.', 'a'}} {
		os := lf.fold(pr)
		al, _ := lexSpec(pr[0], pr[1])
		fmt.Printf("LEX %s %s -> %v   want %v (steps %d)\n", runeLit(pr[0]), runeLit(pr[1]), outcomesStr(os), al, lf.steps)
	}
	return r
}

// tapeAt: the rune at tape position p; after an eof every position is eof.
func (lf *lexFolder) tapeAt(p int) (int64, bool) {
	if p < 0 {
		return 0, false
	}
	for i, v := range lf.tape {
		if v == -1 && p >= i {
			return -1, true
		}
	}
	if p < len(lf.tape) {
		return lf.tape[p], true
	}
	return 0, false
}

func fvalKey(v fval) string {
	switch v.kind {
	case 'i':
		return fmt.Sprintf("i%d", v.i)
	case 'b':
		return fmt.Sprintf("b%v", v.b)
	case 'e':
		return fmt.Sprintf("e%v", v.b)
	case 's':
		return "s" + v.s
	case 'f':
		return fmt.Sprintf("f%p", v.fn)
	case 'p':
		return fmt.Sprintf("p%d%v", v.obj, v.sel)
	case 'l':
		return fmt.Sprintf("l%d%v[%d:%d]", v.obj, v.sel, v.lo, v.hi)
	case 'A':
		var p []string
		for _, x := range v.arr {
			p = append(p, fvalKey(x))
		}
		return "[" + strings.Join(p, ",") + "]"
	case 't', 'S':
		var p []string
		for _, x := range v.tup {
			p = append(p, fvalKey(x))
		}
		return "(" + strings.Join(p, ",") + ")"
	}
	return "?"
}

func (lf *lexFolder) stateKey(fr *lexFrame, pos, reads int, emitted string) string {
	var b strings.Builder
	fmt.Fprintf(&b, "%d|%d|%s", pos, reads, emitted)
	if fr.hp != nil && len(fr.hp.objs) > 0 {
		ids := make([]int, 0, len(fr.hp.objs))
		for id := range fr.hp.objs {
			ids = append(ids, id)
		}
		sort.Ints(ids)
		for _, id := range ids {
			fmt.Fprintf(&b, "#%d%s", id, fvalKey(fr.hp.objs[id]))
		}
	}
	for f := fr; f != nil; f = f.parent {
		fmt.Fprintf(&b, "|%s.%d.%d:", f.fn.Name(), f.blk.Index, f.idx)
		var ks []string
		for v, x := range f.env {
			if x.kind == 'a' || x.kind == 'm' {
				continue // constant tables
			}
			ks = append(ks, v.Name()+"="+fvalKey(x))
		}
		sort.Strings(ks)
		b.WriteString(strings.Join(ks, ","))
	}
	return b.String()
}

// isLastWidth: the Lexer field that next() sets to the width of the rune it
// read (0 at eof) and back() subtracts: the int field both of them touch
// besides the cursor that next() adds to.
func (lf *lexFolder) isLastWidth(fa *ssa.FieldAddr) bool {
	pt, ok := fa.X.Type().Underlying().(*types.Pointer)
	if !ok || !inFam(lf.c.A.LexerFam, pt.Elem()) {
		return false
	}
	return fieldName(pt.Elem(), fa.Field) == "lastWidth"
}

// lexCheck compares the folded outcomes for one input prefix with the grammar.
// Returns "" (as specified), a violation text, or a gap text (second result).
func lexCheck(os []lexOutcome, allowed, required []string) (viol string, gap string) {
	al := map[string]bool{}
	for _, a := range allowed {
		al[a] = true
	}
	have := map[string]bool{}
	var extra []string
	for _, o := range os {
		switch o.kind {
		case "cut":
			continue
		case "gap":
			gap = o.what
			continue
		}
		have[o.String()] = true
		if !al[o.String()] {
			extra = append(extra, o.String())
		}
	}
	var missing []string
	for _, q := range required {
		if !have[q] {
			missing = append(missing, q)
		}
	}
	if gap != "" {
		// some way through the lexer for this input was not followed to its end:
		// what it does is not decided, whatever the other ways do
		return "", gap
	}
	if len(extra) > 0 || len(missing) > 0 {
		viol = fmt.Sprintf("does %v", keysOf(have))
	}
	return
}

func keysOf(m map[string]bool) []string {
	var out []string
	for k := range m {
		out = append(out, k)
	}
	sort.Strings(out)
	return out
}

// T-DISPATCH (LexFold): for every first rune of the domain and every second
// rune worth distinguishing, the first thing tokenize does is what the lexical
// grammar says.
func ruleDispatch(c *Ctx) *RuleResult {
	r := &RuleResult{Doc: "tokenize, folded for every first rune of the domain and (for ASCII first runes) every distinguishing second rune, does what the lexical grammar says: identifier start [A-Za-z_], ten single-character tokens, numbers, bracket/flatten/filter, the two-character operators decided by the second rune, quoted forms ending in their token or an error (an unclosed one only in an error), whitespace {space,tab,LF,CR} skipped without effect, EOF finishes with tEOF, every other rune is an unknown-character error; nothing panics", Floor: 128}
	lf := c.newLexFolder()
	dom := runeDomain(c.lexTier())
	seconds := secondRunes()
	type cls struct {
		n    int
		bad  []string
		gaps []string
	}
	classes := map[string]*cls{}
	pairs := 0
	for _, x := range dom {
		name := expectedDispatch(x)
		cl := classes[name]
		if cl == nil {
			cl = &cls{}
			classes[name] = cl
		}
		cl.n++
		var r2s []int64
		if x < 0x80 {
			r2s = seconds
		} else {
			r2s = []int64{'a'} // a non-ASCII first rune is an error whatever follows
		}
		for _, y := range r2s {
			pairs++
			os := lf.fold([]int64{x, y})
			al, rq := lexSpec(x, y)
			v, g := lexCheck(os, al, rq)
			if g != "" && len(cl.gaps) < 3 {
				cl.gaps = append(cl.gaps, fmt.Sprintf("%s %s: %s", runeLit(x), runeLit(y), g))
			}
			if v != "" && len(cl.bad) < 6 {
				cl.bad = append(cl.bad, fmt.Sprintf("%s followed by %s %s, wanted %v", runeLit(x), runeLit(y), v, al))
			} else if v != "" {
				cl.bad = append(cl.bad[:6], "…")
			}
		}
	}
	r.Instances = len(dom)
	pos := c.pos(c.A.Tokenize.Pos())
	var names []string
	for n := range classes {
		names = append(names, n)
	}
	sort.Strings(names)
	for _, n := range names {
		cl := classes[n]
		key := "class|" + n
		switch {
		case len(cl.bad) > 0:
			r.viol(key, pos, fname(c.A.Tokenize), fmt.Sprintf("runes that must %q: %s", n, strings.Join(cl.bad, "; ")))
		case len(cl.gaps) > 0:
			r.undecided(key, pos, fname(c.A.Tokenize), "not decided: "+strings.Join(cl.gaps, "; "))
		default:
			r.ok(key, pos, fname(c.A.Tokenize), fmt.Sprintf("%d first runes of this class, each with every distinguishing second rune: as specified", cl.n))
		}
	}
	r.Notes = append(r.Notes, fmt.Sprintf("T-DISPATCH folded %d rune pairs (%d first runes, tier %s)", pairs, len(dom), c.Tier))
	return r
}

// T-SCAN (LexFold): the identifier and number scanners continue exactly on
// their character class, for every second rune of the whole domain.
func ruleScanLoops(c *Ctx) *RuleResult {
	r := &RuleResult{Doc: "after an identifier start the scanner continues exactly on [A-Za-z0-9_], after a digit or '-' exactly on [0-9], for every following rune of the domain; the continue test never panics (mask index in range) and depends on nothing but the rune", Floor: 2}
	lf := c.newLexFolder()
	dom := runeDomain(c.lexTier())
	quickDom := runeDomain("quick")
	pos := c.pos(c.A.Tokenize.Pos())
	for _, sc := range []struct {
		name   string
		firsts []int64
	}{{"identifier", []int64{'a', 'Z', '_'}}, {"number", []int64{'0', '9', '-'}}} {
		r.Instances++
		var bad, gaps []string
		n := 0
		for fi, x := range sc.firsts {
			d := dom
			if fi > 0 {
				d = quickDom // the whole domain once per scanner; further first runes on the quick domain
			}
			for _, y := range d {
				n++
				os := lf.fold([]int64{x, y})
				al, rq := lexSpec(x, y)
				v, g := lexCheck(os, al, rq)
				if g != "" && len(gaps) < 3 {
					gaps = append(gaps, fmt.Sprintf("%s %s: %s", runeLit(x), runeLit(y), g))
				}
				if v != "" {
					if len(bad) < 6 {
						bad = append(bad, fmt.Sprintf("%s followed by %s %s, wanted %v", runeLit(x), runeLit(y), v, al))
					} else if len(bad) == 6 {
						bad = append(bad, "…")
					}
				}
			}
		}
		key := "scan|" + sc.name
		switch {
		case len(bad) > 0:
			r.viol(key, pos, fname(c.A.Tokenize), strings.Join(bad, "; "))
		case len(gaps) > 0:
			r.undecided(key, pos, fname(c.A.Tokenize), "not decided: "+strings.Join(gaps, "; "))
		default:
			r.ok(key, pos, fname(c.A.Tokenize), fmt.Sprintf("folded for %d rune pairs: continues exactly on the specified character class, never panics", n))
		}
	}
	return r
}

func isBuiltinNamed(call *ssa.Call, name string) bool {
	b, ok := call.Call.Value.(*ssa.Builtin)
	return ok && b.Name() == name
}

// evalE: eval, with error-typed values reduced to nil / non-nil.
func (lf *lexFolder) evalE(f *folder, v ssa.Value) (fval, bool) {
	if isErrorType(v.Type()) {
		switch {
		case isNilConst(v):
			return fval{kind: 'e', b: false}, true
		case neverNilError(lf.c, v):
			return fval{kind: 'e', b: true}, true
		}
		if x, ok := f.eval(v); ok && x.kind == 'e' {
			return x, true
		}
		return fval{}, false
	}
	return f.eval(v)
}

// lexTier: the rune domain of the thorough tier is folded once, on the default
// build configuration; the other configurations (which do not change the
// lexer's files) fold the quick domain.
func (c *Ctx) lexTier() string {
	if c.Tier == "thorough" && (c.Tags != "" || c.Arch != "") {
		return "quick"
	}
	return c.Tier
}

// foldStdPure: constant folding of a few pure standard-library predicates
// whose arguments are known (by their documented definition).
func foldStdPure(name string, in *ssa.Call, f *folder) (fval, bool) {
	arg := func(k int) (fval, bool) {
		if k >= len(in.Call.Args) {
			return fval{}, false
		}
		return f.eval(in.Call.Args[k])
	}
	str := func(k int) (string, bool) {
		if k >= len(in.Call.Args) {
			return "", false
		}
		if s, ok := constStr(in.Call.Args[k]); ok {
			return s, true
		}
		if v, ok := arg(k); ok && v.kind == 's' {
			return v.s, true
		}
		return "", false
	}
	runeArg := func(k int) (rune, bool) {
		v, ok := arg(k)
		if !ok || v.kind != 'i' {
			return 0, false
		}
		return rune(v.i), true
	}
	b := func(x bool) (fval, bool) { return fval{kind: 'b', b: x}, true }
	i := func(x int) (fval, bool) { return fval{kind: 'i', i: int64(x), bits: 64}, true }
	switch name {
	case "strings.ContainsRune":
		if s, ok := str(0); ok {
			if r, ok := runeArg(1); ok {
				return b(strings.ContainsRune(s, r))
			}
		}
	case "strings.IndexRune":
		if s, ok := str(0); ok {
			if r, ok := runeArg(1); ok {
				return i(strings.IndexRune(s, r))
			}
		}
	case "strings.IndexByte":
		if s, ok := str(0); ok {
			if r, ok := runeArg(1); ok && r >= 0 && r < 256 {
				return i(strings.IndexByte(s, byte(r)))
			}
		}
	case "unicode.IsDigit":
		if r, ok := runeArg(0); ok {
			return b(unicode.IsDigit(r))
		}
	case "unicode.IsLetter":
		if r, ok := runeArg(0); ok {
			return b(unicode.IsLetter(r))
		}
	case "unicode.IsSpace":
		if r, ok := runeArg(0); ok {
			return b(unicode.IsSpace(r))
		}
	case "unicode/utf8.RuneLen":
		if r, ok := runeArg(0); ok {
			return i(utf8.RuneLen(r))
		}
	}
	return fval{}, false
}
