package main

import (
	"fmt"
	"go/types"
	"strconv"

	"golang.org/x/tools/go/ssa"
	"sort"
	"strings"
)

// KindAI abstract domain (DESIGN §3.3).
//
// A dynamic value (something held in an interface{}) is abstracted by a set
// of *atoms*: its JSON kind, refined just enough that every test the library
// performs on a value (type assertions, == nil, len == 0, element types of
// arrays, reflect kinds, truthiness) is decided by the atom. The domain is a
// finite powerset, so the disjunctive abstract interpreter of absexec.go
// terminates.

type Atoms uint32

const (
	ANull Atoms = 1 << iota
	ABoolT
	ABoolF
	ANum
	AStrE   // ""
	AStrN   // non-empty string
	AArrE   // [] (non-nil, empty)
	AArrNum // non-empty, all numbers
	AArrStr // non-empty, all strings
	AArrMix // non-empty, anything else
	AObjE   // {}
	AObjN   // non-empty object
	AExpref // an expression reference (internal)
	AInterp // *treeInterpreter (internal, first argument of by-expression handlers)
	// Go universe (C18)
	ATSliceE // non-nil typed slice, empty ([]string{}, []T{})
	ATSliceN // non-nil typed slice, non-empty
	ANilPtr  // typed nil pointer
	APtr     // non-nil pointer to a struct
	AStruct  // struct value
	AOMapE   // other map type, empty
	AOMapN   // other map type, non-empty
	AOther   // any other Go value (ints, float32, ...)
	// values that are not JSON data (C16)
	ANumBad   // NaN or ±Inf boxed as a number
	ANilSlice // nil []interface{} boxed
	ANilMap   // nil map[string]interface{} boxed
	atomEnd
)

var atomNames = map[Atoms]string{
	ANull: "null", ABoolT: "true", ABoolF: "false", ANum: "number", AStrE: `""`, AStrN: "string",
	AArrE: "[]", AArrNum: "array<number>", AArrStr: "array<string>", AArrMix: "array<mixed>",
	AObjE: "{}", AObjN: "object", AExpref: "expref", AInterp: "interpreter",
	ATSliceE: "typed-slice(empty)", ATSliceN: "typed-slice", ANilPtr: "nil-pointer", APtr: "pointer", AStruct: "struct",
	AOMapE: "other-map(empty)", AOMapN: "other-map", AOther: "other-go-value",
	ANumBad: "non-finite-number", ANilSlice: "nil-slice", ANilMap: "nil-map",
}

const (
	AArrays  = AArrE | AArrNum | AArrStr | AArrMix
	AObjects = AObjE | AObjN
	AStrings = AStrE | AStrN
	ABools   = ABoolT | ABoolF
	UJSON    = ANull | ABools | ANum | AStrings | AArrays | AObjects
	UGoOnly  = ATSliceE | ATSliceN | ANilPtr | APtr | AStruct | AOMapE | AOMapN | AOther
	UGo      = UJSON | UGoOnly
	ABad     = ANumBad | ANilSlice | ANilMap
	ATSlices = ATSliceE | ATSliceN
)

func (a Atoms) String() string {
	if a == 0 {
		return "∅"
	}
	switch a {
	case UJSON:
		return "any-JSON"
	case UGo:
		return "any-Go"
	case UJSON | AExpref:
		return "any-JSON|expref"
	}
	var out []string
	for b := Atoms(1); b < atomEnd; b <<= 1 {
		if a&b != 0 {
			out = append(out, atomNames[b])
		}
	}
	return strings.Join(out, "|")
}

func (a Atoms) each() []Atoms {
	var out []Atoms
	for b := Atoms(1); b < atomEnd; b <<= 1 {
		if a&b != 0 {
			out = append(out, b)
		}
	}
	return out
}

func (a Atoms) count() int { return len(a.each()) }

// elemAtoms: what the elements of arrays described by a can be, in universe u.
func elemAtoms(a Atoms, u Atoms) Atoms {
	var out Atoms
	if a&AArrNum != 0 {
		out |= ANum
	}
	if a&AArrStr != 0 {
		out |= AStrings
	}
	if a&AArrMix != 0 {
		out |= u
	}
	if a&ATSliceN != 0 {
		// elements of a typed slice: strings, float64, structs, pointers (C18's universe)
		out |= AStrings | ANum | AStruct | APtr | ANilPtr | AOther | ATSlices | ABools
	}
	return out
}

// canBeEmpty / canBeNonEmpty for len() reasoning.
func lenZeroAtoms(a Atoms) Atoms {
	return a & (AStrE | AArrE | AObjE | ATSliceE | AOMapE | ANilSlice | ANilMap)
}
func lenPosAtoms(a Atoms) Atoms {
	return a & (AStrN | AArrNum | AArrStr | AArrMix | AObjN | ATSliceN | AOMapN)
}

// falseLike: the specification's truth definition per atom.
func falseLike(a Atoms) bool {
	switch a {
	case ANull, ABoolF, AStrE, AArrE, AObjE:
		return true
	// the Go data model (isFalse's documented extension)
	case ATSliceE, AOMapE, ANilPtr:
		return true
	}
	return false
}

// assertAtoms: which atoms satisfy a type assertion to T.
func (c *Ctx) assertAtoms(T types.Type) Atoms {
	switch t := T.Underlying().(type) {
	case *types.Basic:
		switch t.Kind() {
		case types.Float64:
			return ANum | ANumBad
		case types.String:
			return AStrings
		case types.Bool:
			return ABools
		}
		return AOther
	case *types.Slice:
		if it, ok := t.Elem().Underlying().(*types.Interface); ok && it.Empty() {
			if _, named := T.(*types.Named); !named {
				return AArrays | ANilSlice
			}
		}
		return ATSlices
	case *types.Map:
		if k, ok := t.Key().Underlying().(*types.Basic); ok && k.Kind() == types.String {
			if it, ok := t.Elem().Underlying().(*types.Interface); ok && it.Empty() {
				if _, named := T.(*types.Named); !named {
					return AObjects | ANilMap
				}
			}
		}
		return AOMapE | AOMapN
	case *types.Struct:
		if types.Identical(T, c.A.ExpRefT) {
			return AExpref
		}
		return AStruct
	case *types.Pointer:
		if types.Identical(t.Elem(), c.A.InterpT) {
			return AInterp
		}
		return APtr | ANilPtr
	case *types.Interface:
		if t.Empty() {
			return ^Atoms(0) &^ ANull // any non-nil value
		}
		return AStruct | APtr | AOther // some method set: only named Go values can have it
	}
	return AOther
}

// reflect.Kind per atom, as the name of the reflect constant.
func reflectKindOf(a Atoms) string {
	switch a {
	case ANull:
		return "Invalid"
	case ABoolT, ABoolF:
		return "Bool"
	case ANum, ANumBad:
		return "Float64"
	case AStrE, AStrN:
		return "String"
	case AArrE, AArrNum, AArrStr, AArrMix, ATSliceE, ATSliceN, ANilSlice:
		return "Slice"
	case AObjE, AObjN, AOMapE, AOMapN, ANilMap:
		return "Map"
	case AExpref, AStruct:
		return "Struct"
	case AInterp, ANilPtr, APtr:
		return "Ptr"
	}
	return "Int"
}

var reflectKindNum = map[string]int64{
	"Invalid": 0, "Bool": 1, "Int": 2, "Float64": 14, "Map": 21, "Ptr": 22, "Slice": 23, "String": 24, "Struct": 25, "Interface": 20, "Array": 17, "Func": 19, "Chan": 18,
}

// specAccept: which atoms a declared jpType admits, by the function
// specification. In the Go universe "array" also admits typed slices
// (length() of typed slices is part of C18).
func specAccept(t string) Atoms {
	switch t {
	case "number":
		return ANum
	case "string":
		return AStrings
	case "array":
		return AArrays | ATSlices
	case "object":
		return AObjects
	case "array[number]":
		return AArrE | AArrNum
	case "array[string]":
		return AArrE | AArrStr
	case "expref":
		return AExpref
	case "any":
		return UGo // any JSON (or Go) value; an expression reference is not a value
	}
	return 0
}

func specAcceptAll(ts []string) Atoms {
	var a Atoms
	for _, t := range ts {
		a |= specAccept(t)
	}
	return a
}

// ---------------------------------------------------------------- abstract values

type prov string // where a value comes from, for the threading oracle

// AV is an abstract value. Which fields matter depends on k.
type AV struct {
	k     byte   // I iface, E error, B bool, F float, N int, S string, L slice, M map, P pointer, A address, R reflect.Value, K reflect kind/type, O opaque, G aggregate, T tuple, U func
	atoms Atoms  // I, R, K: the dynamic atoms; L/M described by atoms (no object)
	tri   uint8  // B: 1 true 2 false; E: 1 nil 2 non-nil; P/L/M: 1 nil 2 non-nil
	fbits uint8  // F: 1 finite 2 inf 4 nan; also nonzero flag 8
	n     int64  // N const
	nk    bool   // N: n is known
	pos   bool   // N: known >= 1
	nn    bool   // N: known >= 0
	s     string // S const
	sk    bool
	obj   int    // L/M/P/A: heap object id (0 = none)
	idx   int    // A: element/field index, -1 unknown, -2 whole
	src   string // refinement link: name of the SSA value this was derived from
	link  byte   // how: 'l' len-of, 'a' assert-ok-of, 'r' reflect-wrap, 'k' kind-of, 'n' is-nil-of, 'p' predicate
	facts []fact // B: implications
	tup   []AV   // T
	prov  prov
	elemK byte   // L: element representation: I, F, S, O
	bad   bool   // L/M: may contain non-JSON elements
	what  string // O/U/G: description; K: "kind" or "type"
	agg   *aggVal
	fld   bool          // R: obtained through FieldByName (exported-ness unknown)
	fn    *ssa.Function // U: the function value, when known
	dyn   types.Type    // I: the dynamic type, when the value was boxed from a library type with methods
	tag   string        // symbolic origin used by the command-line rule (J-ABS): expr, json(file(flag:input)), ...
}

type fact struct {
	src   string
	ifT   Atoms // atoms of src when the bool is true
	ifF   Atoms
	valid bool
}

type aggVal struct {
	fields []AV          // struct fields by index
	elems  []AV          // slice elements
	table  map[string]AV // map[string]T constant map
}

func ivAtoms(a Atoms) AV { return AV{k: 'I', atoms: a} }

func (v AV) String() string {
	switch v.k {
	case 'I':
		s := v.atoms.String()
		if v.prov != "" {
			s += "@" + string(v.prov)
		}
		return s
	case 'E':
		return [...]string{"err:∅", "err:nil", "err:non-nil", "err:?"}[v.tri&3]
	case 'B':
		return [...]string{"bool:∅", "true", "false", "bool"}[v.tri&3]
	case 'F':
		return fmt.Sprintf("float(%b)", v.fbits)
	case 'N':
		if v.nk {
			return fmt.Sprint(v.n)
		}
		return "int"
	case 'S':
		if v.sk {
			return fmt.Sprintf("%q", v.s)
		}
		return "string"
	case 'L':
		if v.obj != 0 {
			return fmt.Sprintf("list#%d", v.obj)
		}
		return "slice<" + v.atoms.String() + ">"
	case 'M':
		return "map<" + v.atoms.String() + ">"
	case 'T':
		var p []string
		for _, x := range v.tup {
			p = append(p, x.String())
		}
		return "(" + strings.Join(p, ", ") + ")"
	case 'R':
		return "reflect.Value<" + v.atoms.String() + ">"
	case 'K':
		return "reflect." + v.what + "<" + v.atoms.String() + ">"
	case 'P':
		return fmt.Sprintf("ptr#%d", v.obj)
	case 'A':
		return fmt.Sprintf("addr#%d[%d]", v.obj, v.idx)
	case 'G':
		return "const-aggregate"
	}
	if v.what != "" {
		return v.what
	}
	return "opaque"
}

// key: a canonical rendering for state hashing.
func (v AV) key() string {
	var b strings.Builder
	v.writeKey(&b)
	return b.String()
}

func (v AV) writeKey(b *strings.Builder) { v.writeKeyM(b, nil) }

// writeKeyM renders v with heap object ids passed through m (canonical numbering).
func (v AV) writeKeyM(b *strings.Builder, m func(int) int) {
	var buf [24]byte
	wi := func(n int64) { b.Write(strconv.AppendInt(buf[:0], n, 36)) }
	b.WriteByte(v.k)
	wi(int64(v.atoms))
	b.WriteByte('.')
	wi(int64(v.tri)<<4 | int64(v.fbits))
	if v.nk {
		b.WriteByte('n')
		wi(v.n)
	}
	if v.pos {
		b.WriteByte('+')
	}
	if v.nn {
		b.WriteByte('0')
	}
	if v.sk {
		b.WriteByte('s')
		b.WriteString(strconv.Quote(v.s))
	}
	if v.obj != 0 || v.k == 'A' {
		id := v.obj
		if m != nil && id != 0 {
			id = m(id)
		}
		b.WriteByte('o')
		wi(int64(id))
		b.WriteByte('.')
		wi(int64(v.idx))
	}
	if v.src != "" {
		b.WriteByte('<')
		b.WriteString(v.src)
		b.WriteByte(v.link)
	}
	if v.bad {
		b.WriteByte('!')
	}
	if v.prov != "" {
		b.WriteByte('@')
		b.WriteString(string(v.prov))
	}
	for _, f := range v.facts {
		b.WriteByte('{')
		b.WriteString(f.src)
		b.WriteByte(':')
		wi(int64(f.ifT))
		b.WriteByte(':')
		wi(int64(f.ifF))
		b.WriteByte('}')
	}
	if len(v.tup) > 0 {
		b.WriteByte('(')
		for _, x := range v.tup {
			x.writeKeyM(b, m)
			b.WriteByte(',')
		}
		b.WriteByte(')')
	}
	if v.agg != nil {
		if v.agg.table != nil || len(v.agg.fields)+len(v.agg.elems) > 8 {
			fmt.Fprintf(b, "g%p", v.agg)
		} else {
			b.WriteString("g{")
			for _, f := range v.agg.fields {
				f.writeKeyM(b, m)
				b.WriteByte(',')
			}
			b.WriteByte('|')
			for _, f := range v.agg.elems {
				f.writeKeyM(b, m)
				b.WriteByte(',')
			}
			b.WriteByte('}')
		}
	}
	if v.k == 'U' && v.fn != nil {
		fmt.Fprintf(b, "f%p", v.fn)
	}
	if v.dyn != nil {
		b.WriteString("d" + v.dyn.String())
	}
	if v.what != "" && (v.k == 'K' || v.k == 'O' || v.k == 'A' || v.k == 'L') {
		b.WriteString(v.what)
	}
	if v.fn != nil {
		b.WriteString(v.fn.Name())
	}
	if v.fld {
		b.WriteByte('f')
	}
	if v.tag != "" {
		b.WriteByte('#')
		b.WriteString(v.tag)
	}
}

// joinAV: least upper bound, used only where the executor merges element
// values (abstract lists, maps); control-flow merges are not joined (the
// interpreter is disjunctive).
func joinAV(a, b AV) AV {
	if a.k == 0 {
		return b
	}
	if b.k == 0 {
		return a
	}
	if a.k != b.k {
		return AV{k: 'O', what: "mixed"}
	}
	out := a
	out.atoms |= b.atoms
	out.tri |= b.tri
	out.fbits |= b.fbits
	if !(a.nk && b.nk && a.n == b.n) {
		out.nk = false
	}
	out.pos = a.pos && b.pos
	out.nn = (a.nn || a.pos || (a.nk && a.n >= 0)) && (b.nn || b.pos || (b.nk && b.n >= 0))
	if !(a.sk && b.sk && a.s == b.s) {
		out.sk = false
	}
	if a.obj != b.obj {
		out.obj = 0
	}
	if a.src != b.src {
		out.src = ""
	}
	if a.prov != b.prov {
		out.prov = prov(joinProv(string(a.prov), string(b.prov)))
	}
	out.bad = a.bad || b.bad
	out.facts = nil
	if a.tag != b.tag {
		out.tag = joinProv(a.tag, b.tag)
	}
	return out
}

func joinProv(a, b string) string {
	if a == "" {
		return b
	}
	if b == "" {
		return a
	}
	set := map[string]bool{}
	for _, x := range strings.Split(a, "+") {
		set[x] = true
	}
	for _, x := range strings.Split(b, "+") {
		set[x] = true
	}
	var out []string
	for x := range set {
		out = append(out, x)
	}
	sort.Strings(out)
	return strings.Join(out, "+")
}
