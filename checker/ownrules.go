package main

import (
	"fmt"
	"sort"
	"strings"

	"golang.org/x/tools/go/callgraph/cha"
	"golang.org/x/tools/go/callgraph/vta"
	"golang.org/x/tools/go/ssa"
	"golang.org/x/tools/go/ssa/ssautil"
)

func init() {
	register("O-MODEL", ruleOwnModel)
	register("O-DOC", ruleOwnDoc)
	register("O-SHARED", ruleOwnShared)
}

// O-MODEL: every callee on the analysed paths has a body or a model.
func ruleOwnModel(c *Ctx) *RuleResult {
	r := &RuleResult{Doc: "mod analysis is complete: every call reachable from the API resolves to a function body, the function table, or a tabulated standard-library model", Floor: 1}
	e := c.Own()
	r.Instances = len(e.funcs)
	var keys []string
	for k := range e.unknown {
		keys = append(keys, k)
	}
	sort.Strings(keys)
	for _, k := range keys {
		if strings.HasPrefix(c.pos(e.unknown[k]), "cmd/") {
			continue // the command-line tool is not reachable from the library's API (its own rule: J-ABS)
		}
		r.undecided("unknown-effect|"+k, c.pos(e.unknown[k]), "", "no effect model for this call: the mod analysis cannot decide what it writes")
	}
	if c.Tier == "thorough" {
		// cross-check the call-graph resolution against VTA (over CHA)
		cg := vta.CallGraph(ssautil.AllFunctions(c.Prog), cha.CallGraph(c.Prog))
		missing := 0
		checked := 0
		for fn, node := range cg.Nodes {
			if fn == nil || fn.Pkg != c.SLib {
				continue
			}
			for _, ed := range node.Out {
				callee := ed.Callee.Func
				if callee == nil || callee.Pkg != c.SLib || callee.Blocks == nil {
					continue
				}
				checked++
				if callee.Synthetic != "" {
					continue
				}
				if !e.calls[fn][callee] {
					missing++
					r.undecided("vta-edge|"+fname(fn)+"->"+fname(callee), c.pos(ed.Pos()), fname(fn), "VTA knows a call edge that the mod analysis did not resolve")
				}
			}
		}
		r.Notes = append(r.Notes, fmt.Sprintf("VTA cross-check: %d intra-library call edges, %d unknown to the mod analysis", checked, missing))
	}
	r.ok("fixpoint", "-", "", fmt.Sprintf("points-to fixpoint after %d passes: %d functions, %d abstract objects, %d write events, %d call edges", e.iters, len(e.funcs), len(e.objs), len(e.writes), func() int {
		n := 0
		for _, m := range e.calls {
			n += len(m)
		}
		return n
	}()))
	return r
}

func writeKey(c *Ctx, ord map[string]int, w writeEvent) string {
	base := fname(w.fn) + "|" + w.what
	if w.fn == c.A.Exec {
		if cl := c.A.ExecSw.clauseAt(instrPos(w.in)); cl != nil {
			base = fname(w.fn) + "|" + cl.Name() + "|" + w.what
		}
	}
	return base
}

// O-DOC: nothing reachable from Search writes the document.
func ruleOwnDoc(c *Ctx) *RuleResult {
	r := &RuleResult{Doc: "no write instruction (store, map update, append into spare capacity, copy, delete, in-place sort, modelled library write) in any function reachable from Search / (*JMESPath).Search may target memory reachable from the document", Floor: 20}
	e := c.Own()
	roots := []*ssa.Function{c.A.Search, c.A.JPSearch}
	reach := e.reachFuncs(roots...)
	// group write events by instruction
	type agg struct {
		w    writeEvent
		objs []*OObj
	}
	byInstr := map[ssa.Instruction]*agg{}
	var order []ssa.Instruction
	for _, w := range e.sortedWrites() {
		if !reach[w.fn] {
			continue
		}
		a := byInstr[w.in]
		if a == nil {
			a = &agg{w: w}
			byInstr[w.in] = a
			order = append(order, w.in)
		}
		a.objs = append(a.objs, w.loc.o)
	}
	ord := map[string]int{}
	for _, in := range order {
		a := byInstr[in]
		r.Instances++
		base := writeKey(c, ord, a.w)
		ord[base]++
		key := fmt.Sprintf("%s#%d", base, ord[base])
		hitsDoc := false
		for _, o := range a.objs {
			if o == e.DOC {
				hitsDoc = true
			}
		}
		pos := c.pos(in.Pos())
		if hitsDoc {
			r.viol(key, pos, fname(a.w.fn), fmt.Sprintf("%s may write memory of the caller's document; call path: %s", a.w.what, e.callPath(a.w.fn, roots...)))
		} else {
			r.ok(key, pos, fname(a.w.fn), fmt.Sprintf("%s targets only %s", a.w.what, objLabels(a.objs)))
		}
	}
	return r
}

func objLabels(objs []*OObj) string {
	seen := map[string]bool{}
	var out []string
	for _, o := range objs {
		if !seen[o.label] {
			seen[o.label] = true
			out = append(out, o.label)
		}
	}
	sort.Strings(out)
	if len(out) > 3 {
		out = append(out[:3], fmt.Sprintf("… %d more", len(out)-3))
	}
	s := ""
	for i, x := range out {
		if i > 0 {
			s += "; "
		}
		s += x
	}
	return s
}

// O-SHARED: Search writes nothing that outlives or is shared beyond its own
// activation: not the compiled expression, not package-level state, not the document.
func ruleOwnShared(c *Ctx) *RuleResult {
	r := &RuleResult{Doc: "functions reachable from (*JMESPath).Search write only objects allocated during that activation: never an object reachable from the receiver (AST, literal payloads, interpreter, function table), a package-level variable or anything reachable from one, or the document; Search and Compile write no package-level state", Floor: 20}
	e := c.Own()
	globals := LocSet{}
	for _, o := range e.objs {
		if o.kind == "global" {
			globals.add(OLoc{o, ""})
		}
	}
	gclos := e.closure(globals)
	type entry struct {
		name      string
		roots     []*ssa.Function
		forbidden map[*OObj]string
	}
	jpForbidden := map[*OObj]string{}
	for o := range e.closure(e.P(c.A.JPSearch.Params[0])) {
		jpForbidden[o] = "reachable from the compiled expression"
	}
	for o := range gclos {
		jpForbidden[o] = "package-level state"
	}
	jpForbidden[e.DOC] = "the document"
	oneShot := map[*OObj]string{e.DOC: "the document"}
	for o := range gclos {
		oneShot[o] = "package-level state"
	}
	entries := []entry{
		{"(*JMESPath).Search", []*ssa.Function{c.A.JPSearch}, jpForbidden},
		{"Search", []*ssa.Function{c.A.Search}, oneShot},
		{"Compile", []*ssa.Function{c.A.Compile, c.A.MustCompile}, oneShot},
	}
	for _, en := range entries {
		reach := e.reachFuncs(en.roots...)
		ord := map[string]int{}
		done := map[ssa.Instruction]bool{}
		var evs []writeEvent
		for _, w := range e.sortedWrites() {
			if reach[w.fn] {
				evs = append(evs, w)
			}
		}
		// per instruction
		for i, w := range evs {
			if done[w.in] {
				continue
			}
			done[w.in] = true
			r.Instances++
			base := en.name + "|" + writeKey(c, ord, w)
			ord[base]++
			key := fmt.Sprintf("%s#%d", base, ord[base])
			var bad []string
			var objs []*OObj
			for _, w2 := range evs[i:] {
				if w2.in != w.in {
					continue
				}
				objs = append(objs, w2.loc.o)
				if why, ok := en.forbidden[w2.loc.o]; ok {
					bad = append(bad, w2.loc.o.label+" ("+why+")")
				}
			}
			pos := c.pos(w.in.Pos())
			if len(bad) > 0 {
				sort.Strings(bad)
				if len(bad) > 3 {
					bad = append(bad[:3], fmt.Sprintf("… %d more", len(bad)-3))
				}
				r.viol(key, pos, fname(w.fn), fmt.Sprintf("%s may write shared memory: %v; call path: %s", w.what, bad, e.callPath(w.fn, en.roots...)))
			} else {
				r.ok(key, pos, fname(w.fn), fmt.Sprintf("%s targets only objects of this activation: %s", w.what, objLabels(objs)))
			}
		}
	}
	return r
}
