package main

import (
	"fmt"
	"go/ast"
	"go/token"
	"go/types"
	"sort"
	"strings"

	"golang.org/x/tools/go/ssa"
)

// NodeShape describes what a parser site builds.
type NodeShape struct {
	NodeType  string       // constant name; "ASTEmpty" when the field is not set
	ValueType string       // "" = nil payload; "⊤" = unknown dynamic type; else Go type string
	ValueSet  []string     // for tokType payloads: the token constants it can be
	Arity     int          // -1 = variable
	Elems     []*NodeShape // per child (exact arity) or the set of element shapes (variable)
	ElemAny   bool         // some child is "any parsed expression"
	Zero      bool         // the zero ASTNode{}
	Pos       token.Pos
	Fn        *ssa.Function
	Clause    string
	SliceLen  int // for []T payloads built from a fixed-size literal
	// a constructor helper: the node type / token payload is a parameter of Fn,
	// resolved per call site (producers, builtNodes)
	NodeTypeParam *ssa.Parameter
	ValueParam    *ssa.Parameter
	// the node type is chosen among constants (a phi): the value, and every
	// constant it can be
	NodeTypeVal  ssa.Value
	NodeTypeAlts []string
}

func (s *NodeShape) String() string {
	if s == nil {
		return "<any parsed node>"
	}
	if s.Zero {
		return "ASTNode{}"
	}
	ar := fmt.Sprint(s.Arity)
	if s.Arity < 0 {
		ar = "n"
	}
	v := s.ValueType
	if v == "" {
		v = "nil"
	}
	if len(s.ValueSet) > 0 {
		v += "{" + strings.Join(s.ValueSet, ",") + "}"
	}
	return fmt.Sprintf("%s(value:%s, children:%s)", s.NodeType, v, ar)
}

const fNodeType, fValue, fChildren = 0, 1, 2

func (c *Ctx) isASTNodePtr(t types.Type) bool {
	p, ok := t.(*types.Pointer)
	return ok && types.Identical(p.Elem(), c.A.ASTNode)
}

func (c *Ctx) isASTNode(t types.Type) bool { return types.Identical(t, c.A.ASTNode) }

// nodeShapeOf: shape of an ASTNode-typed SSA value if it is built right here.
func (c *Ctx) nodeShapeOf(v ssa.Value) *NodeShape {
	switch v := v.(type) {
	case *ssa.Const:
		if c.isASTNode(v.Type()) {
			return &NodeShape{NodeType: "ASTEmpty", Zero: true, Arity: 0}
		}
	case *ssa.UnOp:
		if v.Op == token.MUL && c.isASTNodePtr(v.X.Type()) {
			return c.shapeAtLoc(v.X)
		}
	}
	return nil
}

// fieldStores collects stores into fields of an ASTNode location.
func (c *Ctx) fieldStores(loc ssa.Value) (fields map[int][]ssa.Value, whole []ssa.Value) {
	fields = map[int][]ssa.Value{}
	refs := loc.Referrers()
	if refs == nil {
		return
	}
	for _, r := range *refs {
		switch r := r.(type) {
		case *ssa.FieldAddr:
			if r.X != loc || r.Referrers() == nil {
				continue
			}
			for _, rr := range *r.Referrers() {
				if st, ok := rr.(*ssa.Store); ok && st.Addr == r {
					fields[r.Field] = append(fields[r.Field], st.Val)
				}
			}
		case *ssa.Store:
			if r.Addr == loc {
				whole = append(whole, r.Val)
			}
		}
	}
	return
}

// prodEvent: one construction of a node at a location — the field stores of
// one composite literal (go/ssa stores a literal assigned to a variable in
// place), or, for stores outside any literal, all manual field assignments.
type prodEvent struct {
	loc    ssa.Value
	lit    *ast.CompositeLit
	fields map[int][]ssa.Value
	pos    token.Pos
}

func (c *Ctx) nodeLits() []*ast.CompositeLit {
	if c.lits != nil {
		return c.lits
	}
	for _, f := range c.Lib.Syntax {
		ast.Inspect(f, func(n ast.Node) bool {
			if cl, ok := n.(*ast.CompositeLit); ok {
				if tv, ok := c.Lib.TypesInfo.Types[cl]; ok && c.isASTNode(tv.Type) {
					c.lits = append(c.lits, cl)
				}
			}
			return true
		})
	}
	return c.lits
}

func (c *Ctx) innermostNodeLit(p token.Pos) *ast.CompositeLit {
	var best *ast.CompositeLit
	for _, cl := range c.nodeLits() {
		if cl.Pos() <= p && p < cl.End() {
			if best == nil || (cl.Pos() >= best.Pos() && cl.End() <= best.End()) {
				best = cl
			}
		}
	}
	return best
}

func (c *Ctx) prodEvents(loc ssa.Value) (evs []*prodEvent, nonZeroWhole int) {
	refs := loc.Referrers()
	if refs == nil {
		return
	}
	byLit := map[*ast.CompositeLit]*prodEvent{}
	for _, r := range *refs {
		switch r := r.(type) {
		case *ssa.FieldAddr:
			if r.X != loc || r.Referrers() == nil {
				continue
			}
			for _, rr := range *r.Referrers() {
				st, ok := rr.(*ssa.Store)
				if !ok || st.Addr != r {
					continue
				}
				lit := c.innermostNodeLit(st.Pos())
				ev := byLit[lit]
				if ev == nil {
					ev = &prodEvent{loc: loc, lit: lit, fields: map[int][]ssa.Value{}, pos: st.Pos()}
					if lit != nil {
						ev.pos = lit.Pos()
					}
					byLit[lit] = ev
					evs = append(evs, ev)
				}
				ev.fields[r.Field] = append(ev.fields[r.Field], st.Val)
			}
		case *ssa.Store:
			if r.Addr == loc {
				if k, ok := r.Val.(*ssa.Const); !ok || !c.isASTNode(k.Type()) {
					nonZeroWhole++
				}
			}
		}
	}
	sort.Slice(evs, func(i, j int) bool { return evs[i].pos < evs[j].pos })
	// one literal that sets some fields, completed by plain assignments to the
	// other fields of the same variable (v := T{a: x}; v.b = y): one production,
	// provided no field is set twice
	if len(evs) == 2 && (evs[0].lit != nil) != (evs[1].lit != nil) {
		lit, rest := evs[0], evs[1]
		if lit.lit == nil {
			lit, rest = rest, lit
		}
		disjoint := true
		for f, vs := range rest.fields {
			if len(vs) != 1 || len(lit.fields[f]) > 0 {
				disjoint = false
			}
		}
		if disjoint {
			for f, vs := range rest.fields {
				lit.fields[f] = vs
			}
			evs = []*prodEvent{lit}
		}
	}
	return
}

func (c *Ctx) shapeAtLoc(loc ssa.Value) *NodeShape {
	switch loc.(type) {
	case *ssa.Alloc, *ssa.IndexAddr:
	default:
		return nil
	}
	evs, nz := c.prodEvents(loc)
	if len(evs) == 0 {
		// a plain variable: its value is whatever was stored
		_, whole := c.fieldStores(loc)
		if len(whole) == 1 {
			return c.nodeShapeOf(whole[0])
		}
		return nil
	}
	if len(evs) > 1 || nz > 0 {
		return nil // a variable assigned on several paths: any of them
	}
	return c.shapeOfEvent(evs[0])
}

func (c *Ctx) shapeOfEvent(ev *prodEvent) *NodeShape {
	fields := ev.fields
	s := &NodeShape{NodeType: "ASTEmpty", Arity: 0, Pos: ev.pos}
	if in, ok := ev.loc.(ssa.Instruction); ok {
		s.Fn = in.Parent()
	}
	if vs := fields[fNodeType]; len(vs) == 1 {
		if k, ok := constInt(vs[0]); ok {
			s.NodeType = c.A.NTName[k]
		} else {
			s.NodeType = "⊤"
			if par, ok := vs[0].(*ssa.Parameter); ok {
				s.NodeTypeParam = par
			}
			if ks, ok := c.constsFor(vs[0], nil); ok {
				s.NodeTypeVal = vs[0]
				for _, k := range ks {
					s.NodeTypeAlts = append(s.NodeTypeAlts, c.A.NTName[k])
				}
				if len(ks) == 1 {
					s.NodeType = c.A.NTName[ks[0]]
				}
			}
		}
	} else if len(vs) > 1 {
		s.NodeType = "⊤"
	}
	if vs := fields[fValue]; len(vs) == 1 {
		s.ValueType, s.ValueSet, s.SliceLen = c.payloadType(vs[0])
		if mi, ok := vs[0].(*ssa.MakeInterface); ok {
			if par, ok := mi.X.(*ssa.Parameter); ok && types.Identical(par.Type(), c.A.TokT) {
				s.ValueParam = par
			}
		}
	} else if len(vs) > 1 {
		s.ValueType = "⊤"
	}
	if vs := fields[fChildren]; len(vs) == 1 {
		s.Arity, s.Elems, s.ElemAny = c.childrenShape(vs[0])
	} else if len(vs) > 1 {
		s.Arity = -1
		s.ElemAny = true
	}
	return s
}

// payloadType: dynamic type of what is stored in ASTNode.value.
func (c *Ctx) payloadType(v ssa.Value) (string, []string, int) {
	switch v := v.(type) {
	case *ssa.MakeInterface:
		t := types.TypeString(v.X.Type(), func(p *types.Package) string { return "" })
		var set []string
		n := 0
		if types.Identical(v.X.Type(), c.A.TokT) {
			if k, ok := constInt(v.X); ok {
				set = []string{c.A.TokName[k]}
			} else if _, ok := v.X.(*ssa.Parameter); ok {
				set = []string{"<param>"}
			}
		}
		if sl, ok := v.X.(*ssa.Slice); ok {
			if al, ok := sl.X.(*ssa.Alloc); ok && sl.Low == nil {
				if at, ok := al.Type().(*types.Pointer).Elem().Underlying().(*types.Array); ok {
					if sl.High == nil {
						n = int(at.Len())
					} else if h, ok := constInt(sl.High); ok && h <= at.Len() {
						n = int(h) // make([]T, h) with a constant length
					}
				}
			}
		}
		return t, set, n
	case *ssa.Const:
		if v.Value == nil {
			return "", nil, 0
		}
	}
	return "⊤", nil, 0
}

// childrenShape: arity and element shapes of a []ASTNode value.
func (c *Ctx) childrenShape(v ssa.Value) (int, []*NodeShape, bool) {
	if sl, ok := v.(*ssa.Slice); ok && sl.Low == nil && sl.High == nil {
		if al, ok := sl.X.(*ssa.Alloc); ok {
			if at, ok := al.Type().(*types.Pointer).Elem().Underlying().(*types.Array); ok {
				n := int(at.Len())
				elems := make([]*NodeShape, n)
				anyEl := false
				for _, r := range *al.Referrers() {
					ia, ok := r.(*ssa.IndexAddr)
					if !ok {
						continue
					}
					k, ok := constInt(ia.Index)
					if !ok || int(k) >= n {
						continue
					}
					elems[k] = c.shapeAtLoc(ia)
				}
				for _, e := range elems {
					if e == nil {
						anyEl = true
					}
				}
				return n, elems, anyEl
			}
		}
	}
	// variable: a local built by append, possibly inside a helper that returns the slice
	seen := map[ssa.Value]bool{}
	var elems []*NodeShape
	anyEl := false
	type fctx map[ssa.Value]*ssa.Function // function-valued parameters of the helper being looked into
	var walk func(v ssa.Value, fb fctx, depth int)
	// element: the shapes of one appended element value
	element := func(ev ssa.Value, fb fctx, depth int) {
		if sh := c.nodeShapeOf(ev); sh != nil {
			elems = append(elems, sh)
			return
		}
		// the result of a call: the shapes that function returns
		var call *ssa.Call
		switch x := ev.(type) {
		case *ssa.Call:
			call = x
		case *ssa.Extract:
			if x.Index == 0 {
				call, _ = x.Tuple.(*ssa.Call)
			}
		}
		if call == nil || depth > 3 {
			anyEl = true
			return
		}
		target := call.Call.StaticCallee()
		if target == nil {
			target = fb[call.Call.Value]
		}
		if target == nil || target.Blocks == nil || target == c.A.ParseExpr || target == c.A.Nud || target == c.A.Led {
			anyEl = true
			return
		}
		shs, ok := c.returnShapes(target, depth+1)
		if !ok {
			anyEl = true
			return
		}
		elems = append(elems, shs...)
	}
	walk = func(v ssa.Value, fb fctx, depth int) {
		if seen[v] {
			return
		}
		seen[v] = true
		switch v := v.(type) {
		case *ssa.Phi:
			for _, e := range v.Edges {
				walk(e, fb, depth)
			}
		case *ssa.Const:
		case *ssa.Extract:
			// a slice returned by a helper of the library: look at what the helper returns
			call, ok := v.Tuple.(*ssa.Call)
			callee := (*ssa.Function)(nil)
			if ok {
				callee = call.Call.StaticCallee()
			}
			if callee == nil || callee.Pkg != c.SLib || callee.Blocks == nil || depth > 3 {
				anyEl = true
				return
			}
			sub := fctx{}
			for i, prm := range callee.Params {
				if i >= len(call.Call.Args) {
					break
				}
				if _, isSig := prm.Type().Underlying().(*types.Signature); !isSig {
					continue
				}
				switch a := call.Call.Args[i].(type) {
				case *ssa.Function:
					sub[prm] = a
				case *ssa.MakeClosure:
					if f, ok := a.Fn.(*ssa.Function); ok {
						sub[prm] = boundTarget(f)
					}
				case *ssa.Parameter:
					if f := fb[a]; f != nil {
						sub[prm] = f
					}
				}
			}
			for _, b := range callee.Blocks {
				ret := blockReturn(b)
				if ret == nil {
					continue
				}
				res := retResults(ret)
				if v.Index < len(res) {
					walk(res[v.Index], sub, depth+1)
				}
			}
		case *ssa.Call:
			if b, ok := v.Call.Value.(*ssa.Builtin); ok && b.Name() == "append" {
				walk(v.Call.Args[0], fb, depth)
				if sl, ok := v.Call.Args[1].(*ssa.Slice); ok {
					if al, ok := sl.X.(*ssa.Alloc); ok {
						for _, r := range *al.Referrers() {
							if ia, ok := r.(*ssa.IndexAddr); ok {
								if s := c.shapeAtLoc(ia); s != nil {
									elems = append(elems, s)
								} else if _, whole := c.fieldStores(ia); len(whole) == 1 {
									element(whole[0], fb, depth)
								} else {
									anyEl = true
								}
							}
						}
						return
					}
				}
				anyEl = true
				return
			}
			anyEl = true
		default:
			anyEl = true
		}
	}
	walk(v, nil, 0)
	return -1, elems, anyEl
}

// boundTarget: the method behind a bound-method wrapper (or f itself).
func boundTarget(f *ssa.Function) *ssa.Function {
	if f != nil && f.Synthetic != "" && f.Pkg == nil {
		for _, b := range f.Blocks {
			for _, in := range b.Instrs {
				if call, ok := in.(*ssa.Call); ok {
					if sc := call.Call.StaticCallee(); sc != nil {
						return sc
					}
				}
			}
		}
	}
	return f
}

// returnShapes: the shapes of the nodes fn returns as its first result (error
// returns of the zero node excluded); false when some return is not a node
// built in fn.
func (c *Ctx) returnShapes(fn *ssa.Function, depth int) ([]*NodeShape, bool) {
	var out []*NodeShape
	for _, b := range fn.Blocks {
		ret := blockReturn(b)
		if ret == nil {
			continue
		}
		res := retResults(ret)
		if len(res) == 0 || !c.isASTNode(res[0].Type()) {
			return nil, false
		}
		sh := c.nodeShapeOf(res[0])
		if sh == nil {
			return nil, false
		}
		if sh.Zero {
			continue
		}
		out = append(out, sh)
	}
	return out, len(out) > 0
}

// producers enumerates every place that builds an ASTNode.
func (c *Ctx) producers() []*NodeShape {
	var out []*NodeShape
	for _, fn := range allFuncs(c.SLib) {
		var sw *EnumSwitch
		if fn == c.A.Led || fn == c.A.Nud {
			sw, _ = c.switchLabels(fn, c.A.TokT)
		}
		for _, b := range fn.Blocks {
			for _, in := range b.Instrs {
				var loc ssa.Value
				switch in := in.(type) {
				case *ssa.Alloc:
					if c.isASTNodePtr(in.Type()) {
						loc = in
					}
				case *ssa.IndexAddr:
					if c.isASTNodePtr(in.Type()) {
						if _, ok := in.X.(*ssa.Alloc); ok {
							loc = in
						}
					}
				}
				if loc == nil {
					continue
				}
				evs, _ := c.prodEvents(loc)
				for _, ev := range evs {
					s := c.shapeOfEvent(ev)
					s.Fn = fn
					if fn != c.A.Led && fn != c.A.Nud && (s.NodeTypeParam != nil || s.ValueParam != nil) {
						if exp, ok := c.expandConstructor(s, fn); ok {
							out = append(out, exp...)
							continue
						}
					}
					if len(s.NodeTypeAlts) > 1 {
						// a node whose type is one of several constants: one producer per type
						cl := clauseAtPos(sw, ev.pos)
						for _, nt := range s.NodeTypeAlts {
							cp := *s
							cp.NodeType = nt
							if cl != nil {
								cp.Clause = cl.Name()
							}
							out = append(out, &cp)
						}
						continue
					}
					if cl := clauseAtPos(sw, ev.pos); cl != nil {
						s.Clause = cl.Name()
						// a tokType payload that is the led parameter ranges over the clause labels
						if len(s.ValueSet) == 1 && s.ValueSet[0] == "<param>" {
							s.ValueSet = nil
							for _, l := range cl.Labels {
								s.ValueSet = append(s.ValueSet, l.Name)
							}
						}
					}
					out = append(out, s)
				}
			}
		}
	}
	sort.SliceStable(out, func(i, j int) bool { return out[i].Pos < out[j].Pos })
	return out
}

// expandConstructor: the shapes a parameterised constructor helper builds,
// one per call site, with the node type / token payload taken from the
// constant arguments (a token argument that is led's own parameter ranges
// over the labels of the calling clause).
func (c *Ctx) expandConstructor(s *NodeShape, fn *ssa.Function) ([]*NodeShape, bool) {
	idx := func(p *ssa.Parameter) int {
		for i, q := range fn.Params {
			if q == p {
				return i
			}
		}
		return -1
	}
	var out []*NodeShape
	for _, caller := range allFuncs(c.SLib) {
		var sw *EnumSwitch
		if caller == c.A.Led || caller == c.A.Nud {
			sw, _ = c.switchLabels(caller, c.A.TokT)
		}
		for _, call := range callsTo(caller, fn) {
			cp := *s
			cp.Pos = call.Pos()
			cp.Fn = caller
			if cl := clauseAtPos(sw, call.Pos()); cl != nil {
				cp.Clause = cl.Name()
			}
			if s.NodeTypeParam != nil {
				i := idx(s.NodeTypeParam)
				if i < 0 || i >= len(call.Call.Args) {
					return nil, false
				}
				k, ok := constInt(call.Call.Args[i])
				if !ok {
					// handed through: the caller's own parameter — expand the caller's call sites
					if q, isPar := call.Call.Args[i].(*ssa.Parameter); isPar && caller != c.A.Led && caller != c.A.Nud && caller != fn {
						if c.expandDepth > 3 {
							return nil, false
						}
						up := cp
						up.NodeTypeParam = q
						if s.ValueParam != nil {
							// a token payload is resolved at this level or not at all
							j := idx(s.ValueParam)
							if j < 0 || j >= len(call.Call.Args) {
								return nil, false
							}
							if kv, ok := constInt(call.Call.Args[j]); ok {
								up.ValueSet = []string{c.A.TokName[kv]}
								up.ValueParam = nil
							} else if qv, ok := call.Call.Args[j].(*ssa.Parameter); ok {
								up.ValueParam = qv
							} else {
								return nil, false
							}
						}
						c.expandDepth++
						exp, ok := c.expandConstructor(&up, caller)
						c.expandDepth--
						if !ok {
							return nil, false
						}
						out = append(out, exp...)
						continue
					}
					return nil, false
				}
				cp.NodeType = c.A.NTName[k]
				cp.NodeTypeParam = nil
			}
			if s.ValueParam != nil {
				i := idx(s.ValueParam)
				if i < 0 || i >= len(call.Call.Args) {
					return nil, false
				}
				arg := call.Call.Args[i]
				if k, ok := constInt(arg); ok {
					cp.ValueSet = []string{c.A.TokName[k]}
				} else if _, isPar := arg.(*ssa.Parameter); isPar && caller == c.A.Led {
					cl := clauseAtPos(sw, call.Pos())
					if cl == nil {
						return nil, false
					}
					cp.ValueSet = nil
					for _, l := range cl.Labels {
						cp.ValueSet = append(cp.ValueSet, l.Name)
					}
				} else {
					return nil, false
				}
				cp.ValueParam = nil
			}
			out = append(out, &cp)
		}
	}
	return out, len(out) > 0
}

func (c *Ctx) producersByType() map[string][]*NodeShape {
	m := map[string][]*NodeShape{}
	for _, p := range c.producers() {
		m[p.NodeType] = append(m[p.NodeType], p)
	}
	return m
}

// ---------------------------------------------------------------- consumers

// nodeRef classifies an ASTNode-typed value inside the evaluator or a helper.
type nodeRef struct {
	kind  string // "self", "child", "eachchild", "expref", "unknown"
	index int    // for child
}

func (r nodeRef) String() string {
	switch r.kind {
	case "child":
		return fmt.Sprintf("child(%d)", r.index)
	}
	return r.kind
}

// paramSpill: the Alloc a by-value parameter is spilled into (or nil).
func paramSpill(p *ssa.Parameter) *ssa.Alloc {
	if p.Referrers() == nil {
		return nil
	}
	for _, r := range *p.Referrers() {
		if st, ok := r.(*ssa.Store); ok && st.Val == p {
			if a, ok := st.Addr.(*ssa.Alloc); ok {
				return a
			}
		}
	}
	return nil
}

// fieldRead normalises "x.f" on struct values and locations: returns the base
// (an ASTNode value or location) and the field index.
func fieldRead(v ssa.Value) (base ssa.Value, field int, ok bool) {
	switch v := v.(type) {
	case *ssa.Field:
		return v.X, v.Field, true
	case *ssa.UnOp:
		if v.Op == token.MUL {
			if fa, ok := v.X.(*ssa.FieldAddr); ok {
				return fa.X, fa.Field, true
			}
		}
	}
	return nil, 0, false
}

// classifyNode: what node (relative to the function's node parameter) is v?
func (c *Ctx) classifyNode(fn *ssa.Function, v ssa.Value) nodeRef {
	var nodeParam *ssa.Parameter
	for _, p := range fn.Params {
		if c.isASTNode(p.Type()) {
			nodeParam = p
		}
	}
	var spill *ssa.Alloc
	if nodeParam != nil {
		spill = paramSpill(nodeParam)
	}
	isSelfLoc := func(x ssa.Value) bool { return spill != nil && x == spill }
	seen := map[ssa.Value]bool{}
	var f func(v ssa.Value) nodeRef
	f = func(v ssa.Value) nodeRef {
		if seen[v] {
			return nodeRef{kind: "unknown"}
		}
		seen[v] = true
		if v == nodeParam && nodeParam != nil {
			return nodeRef{kind: "self"}
		}
		switch v := v.(type) {
		case *ssa.Alloc:
			if isSelfLoc(v) {
				return nodeRef{kind: "self"}
			}
			// a local variable holding one node
			_, whole := c.fieldStores(v)
			if len(whole) == 1 {
				return f(whole[0])
			}
		case *ssa.UnOp:
			if v.Op != token.MUL {
				break
			}
			if isSelfLoc(v.X) {
				return nodeRef{kind: "self"}
			}
			if ia, ok := v.X.(*ssa.IndexAddr); ok {
				return f(ia)
			}
			if al, ok := v.X.(*ssa.Alloc); ok {
				return f(al)
			}
			// expRef.ref
			if fa, ok := v.X.(*ssa.FieldAddr); ok {
				if pt, ok := fa.X.Type().(*types.Pointer); ok && types.Identical(pt.Elem(), c.A.ExpRefT) {
					return nodeRef{kind: "expref"}
				}
			}
		case *ssa.Field:
			if types.Identical(v.X.Type(), c.A.ExpRefT) {
				return nodeRef{kind: "expref"}
			}
		case *ssa.IndexAddr:
			// &children[k] where children is a field read of self
			base, fld, ok := fieldRead(v.X)
			if ok && fld == fChildren {
				b := f2(c, base, f)
				if b.kind == "self" {
					if k, ok := constInt(v.Index); ok {
						return nodeRef{kind: "child", index: int(k)}
					}
					return nodeRef{kind: "eachchild"}
				}
			}
		}
		return nodeRef{kind: "unknown"}
	}
	return f(v)
}

func f2(c *Ctx, base ssa.Value, f func(ssa.Value) nodeRef) nodeRef { return f(base) }

// consumerCtx: for evaluator helpers, the clause(s) of the call sites that
// pass their own node.
type helperBinding struct {
	clauses []*Clause
	calls   []*ssa.Call // the call site of each clause (same order)
	ok      bool
}

func (c *Ctx) helperClauses(h *ssa.Function) helperBinding {
	var out []*Clause
	var sites []*ssa.Call
	okAll := true
	n := 0
	for _, fn := range append([]*ssa.Function{c.A.Exec}, c.A.Helpers...) {
		for _, b := range fn.Blocks {
			for _, in := range b.Instrs {
				call, ok := in.(*ssa.Call)
				if !ok || staticCallee(call) != h {
					continue
				}
				n++
				if fn != c.A.Exec {
					okAll = false
					continue
				}
				cl := c.A.ExecSw.clauseAt(instrPos(call))
				if cl == nil {
					okAll = false
					continue
				}
				// the node argument must be the evaluator's own node
				for i, a := range call.Call.Args {
					if c.isASTNode(a.Type()) {
						if c.classifyNode(fn, a).kind != "self" {
							okAll = false
						}
						_ = i
					}
				}
				out = append(out, cl)
				sites = append(sites, call)
			}
		}
	}
	return helperBinding{clauses: out, calls: sites, ok: okAll && n > 0}
}

// reachableUnderArgs: the blocks of h that can run when it is called at this
// site, pruning the branches decided by arguments that are constants there: a
// bool parameter passed true/false, a pointer parameter passed nil or the
// address of something.
func reachableUnderArgs(h *ssa.Function, call *ssa.Call) map[*ssa.BasicBlock]bool {
	boolOf := map[*ssa.Parameter]bool{}
	nilOf := map[*ssa.Parameter]bool{}
	for i, p := range h.Params {
		if i >= len(call.Call.Args) {
			break
		}
		a := call.Call.Args[i]
		if bv, ok := constBool(a); ok {
			boolOf[p] = bv
			continue
		}
		if _, isPtr := p.Type().Underlying().(*types.Pointer); isPtr {
			switch a.(type) {
			case *ssa.Alloc, *ssa.FieldAddr, *ssa.IndexAddr, *ssa.Global:
				nilOf[p] = false
			default:
				if isNilConst(a) {
					nilOf[p] = true
				}
			}
		}
	}
	decide := func(b *ssa.BasicBlock) int { // successor taken, or -1
		ifi := blockIf(b)
		if ifi == nil {
			return -1
		}
		cond := ifi.Cond
		neg := false
		if u, ok := cond.(*ssa.UnOp); ok && u.Op == token.NOT {
			cond, neg = u.X, true
		}
		val, known := false, false
		switch cv := cond.(type) {
		case *ssa.Parameter:
			val, known = boolOf[cv], false
			if _, ok := boolOf[cv]; ok {
				known = true
			}
		case *ssa.BinOp:
			if (cv.Op == token.EQL || cv.Op == token.NEQ) && isNilConst(cv.Y) {
				if p, ok := cv.X.(*ssa.Parameter); ok {
					if isNil, ok := nilOf[p]; ok {
						known = true
						val = isNil == (cv.Op == token.EQL)
					}
				}
			}
		}
		if !known {
			return -1
		}
		if neg {
			val = !val
		}
		if val {
			return 0
		}
		return 1
	}
	seen := map[*ssa.BasicBlock]bool{}
	var walk func(b *ssa.BasicBlock)
	walk = func(b *ssa.BasicBlock) {
		if seen[b] {
			return
		}
		seen[b] = true
		if k := decide(b); k >= 0 {
			walk(b.Succs[k])
			return
		}
		for _, sb := range b.Succs {
			walk(sb)
		}
	}
	if len(h.Blocks) > 0 {
		walk(h.Blocks[0])
	}
	return seen
}

func init() {
	register("S-SHAPE", ruleShape)
	register("S-EMPTY", ruleEmptyNode)
	register("S-IMMUT", ruleNodeImmutable)
}

// S-SHAPE: S1 value types, S2 arity, S3 child payloads, S4 exhaustiveness, S6 slice triple.
func ruleShape(c *Ctx) *RuleResult {
	r := &RuleResult{Doc: "parser/evaluator agreement on ASTNode payload type (S1), arity (S2), child payload (S3), node-type and comparator exhaustiveness (S4), slice triple (S6)", Floor: 30}
	prods := c.producersByType()
	sw := c.A.ExecSw

	// S4: every produced node type has a case in the evaluator
	caseSet := map[string]bool{}
	for _, cl := range sw.Clauses {
		for _, l := range cl.Labels {
			caseSet[l.Name] = true
		}
	}
	var nts []string
	for nt := range prods {
		nts = append(nts, nt)
	}
	sort.Strings(nts)
	for _, nt := range nts {
		for i, p := range prods[nt] {
			r.Instances++
			key := fmt.Sprintf("S4|%s|%s|%s#%d", nt, fname(p.Fn), p.Clause, i)
			if caseSet[nt] {
				r.ok(key, c.pos(p.Pos), fname(p.Fn), "produced node "+p.String()+" has an evaluator case")
			} else {
				r.viol(key, c.pos(p.Pos), fname(p.Fn), "the parser builds "+p.String()+" but the evaluator has no case for "+nt+": a compiled expression would fail with 'Unknown AST node' only when searched")
			}
		}
	}
	if len(nts) < 20 {
		r.Notes = append(r.Notes, fmt.Sprintf("only %d node types produced", len(nts)))
	}

	// consumers
	type fnCtx struct {
		fn      *ssa.Function
		clauses func(in ssa.Instruction) []*Clause
	}
	var ctxs []fnCtx
	ctxs = append(ctxs, fnCtx{c.A.Exec, func(in ssa.Instruction) []*Clause {
		if cl := sw.clauseAt(instrPos(in)); cl != nil {
			return []*Clause{cl}
		}
		return nil
	}})
	for _, h := range c.A.Helpers {
		hasNode := false
		for _, p := range h.Params {
			if c.isASTNode(p.Type()) {
				hasNode = true
			}
		}
		if !hasNode {
			continue
		}
		hb := c.helperClauses(h)
		hh := h
		// a helper that only hands its nodes on (to the evaluator) reads no
		// payload and no child by position: nothing to bind
		readsNode := false
		for _, b := range h.Blocks {
			for _, in := range b.Instrs {
				if v, isV := in.(ssa.Value); isV {
					if base, fld, ok := fieldRead(v); ok && (fld == fValue || fld == fChildren) && (c.isASTNode(base.Type()) || c.isASTNodePtr(base.Type())) {
						readsNode = true
					}
				}
				if fa, isFA := in.(*ssa.FieldAddr); isFA && (fa.Field == fValue || fa.Field == fChildren) && c.isASTNodePtr(fa.X.Type()) {
					readsNode = true
				}
			}
		}
		if !readsNode {
			continue
		}
		if !hb.ok {
			r.undecided("helper-binding|"+fname(hh), c.pos(hh.Pos()), fname(hh), "helper takes a node but is not called only from evaluator clauses with the clause's own node")
			continue
		}
		reach := make([]map[*ssa.BasicBlock]bool, len(hb.calls))
		for i, call := range hb.calls {
			reach[i] = reachableUnderArgs(hh, call)
		}
		ctxs = append(ctxs, fnCtx{hh, func(in ssa.Instruction) []*Clause {
			// the clauses from whose call site this instruction can run
			var out []*Clause
			seen := map[*Clause]bool{}
			for i, cl := range hb.clauses {
				if in.Block() != nil && !reach[i][in.Block()] {
					continue
				}
				if !seen[cl] {
					seen[cl] = true
					out = append(out, cl)
				}
			}
			return out
		}})
	}
	// sort adapters (Less) evaluate a.node: an expref body — any parsed node; no payload access.

	clauseTypes := func(cls []*Clause) []string {
		var out []string
		for _, cl := range cls {
			for _, l := range cl.Labels {
				out = append(out, l.Name)
			}
		}
		return out
	}

	ord := map[string]int{}
	for _, fc := range ctxs {
		fn := fc.fn
		for _, b := range fn.Blocks {
			for _, in := range b.Instrs {
				switch in := in.(type) {
				case *ssa.TypeAssert:
					base, fld, ok := fieldRead(in.X)
					if !ok || fld != fValue || !(c.isASTNode(base.Type()) || c.isASTNodePtr(base.Type())) {
						continue
					}
					ref := c.classifyNode(fn, base)
					cls := fc.clauses(in)
					want := types.TypeString(in.AssertedType, func(*types.Package) string { return "" })
					base2 := fmt.Sprintf("S1|%s|%s|%s.value.(%s)", fname(fn), strings.Join(clauseTypes(cls), ","), ref, want)
					ord[base2]++
					key := fmt.Sprintf("%s#%d", base2, ord[base2])
					pos := c.pos(in.Pos())
					r.Instances++
					if in.CommaOk {
						r.ok(key, pos, fname(fn), "checked assertion")
						continue
					}
					if len(cls) == 0 {
						r.undecided(key, pos, fname(fn), "assertion on a node payload outside any evaluator clause")
						continue
					}
					var bad []string
					n := 0
					check := func(p *NodeShape, where string) {
						n++
						if p == nil {
							bad = append(bad, where+": any parsed node (payload type unknown)")
						} else if p.ValueType != want {
							vt := p.ValueType
							if vt == "" {
								vt = "nil"
							}
							bad = append(bad, fmt.Sprintf("%s builds %s with payload %s at %s", where, p.NodeType, vt, c.pos(p.Pos)))
						}
					}
					for _, nt := range clauseTypes(cls) {
						for _, p := range prods[nt] {
							switch ref.kind {
							case "self":
								check(p, fname(p.Fn))
							case "child":
								if p.Arity >= 0 && ref.index < len(p.Elems) {
									check(p.Elems[ref.index], fname(p.Fn)+" child")
								} else {
									bad = append(bad, "child index not covered by producer "+p.String())
								}
							case "eachchild":
								if p.ElemAny {
									bad = append(bad, fname(p.Fn)+": some child is an arbitrary parsed node")
								}
								for _, e := range p.Elems {
									check(e, fname(p.Fn)+" child")
								}
								if len(p.Elems) == 0 && !p.ElemAny {
									n++ // no children at all: nothing to assert on
								}
							default:
								bad = append(bad, "cannot relate the asserted node to the clause's node")
							}
						}
					}
					if n == 0 && len(bad) == 0 {
						bad = append(bad, "no producer for the clause's node types")
					}
					if len(bad) == 0 {
						r.ok(key, pos, fname(fn), fmt.Sprintf("every producer of %v stores a %s payload (%d producer sites)", clauseTypes(cls), want, n))
					} else {
						r.viol(key, pos, fname(fn), "unchecked assertion ."+"("+want+") can panic: "+strings.Join(bad, "; "))
					}
				case *ssa.IndexAddr:
					// S2: constant index into self.children
					k, isConst := constInt(in.Index)
					if !isConst {
						continue
					}
					base, fld, ok := fieldRead(in.X)
					if !ok || fld != fChildren || !(c.isASTNode(base.Type()) || c.isASTNodePtr(base.Type())) {
						continue
					}
					ref := c.classifyNode(fn, base)
					cls := fc.clauses(in)
					base2 := fmt.Sprintf("S2|%s|%s|%s.children[%d]", fname(fn), strings.Join(clauseTypes(cls), ","), ref, k)
					ord[base2]++
					key := fmt.Sprintf("%s#%d", base2, ord[base2])
					pos := c.pos(in.Pos())
					r.Instances++
					if ref.kind != "self" || len(cls) == 0 {
						r.undecided(key, pos, fname(fn), "constant child index on a node that is not the clause's own node")
						continue
					}
					var bad []string
					n := 0
					for _, nt := range clauseTypes(cls) {
						for _, p := range prods[nt] {
							n++
							if p.Arity < 0 || int(k) >= p.Arity {
								bad = append(bad, fmt.Sprintf("%s builds %s at %s", fname(p.Fn), p.String(), c.pos(p.Pos)))
							}
						}
					}
					if n == 0 {
						bad = append(bad, "no producer for the clause's node types")
					}
					if len(bad) == 0 {
						r.ok(key, pos, fname(fn), fmt.Sprintf("all %d producers of %v have more than %d children", n, clauseTypes(cls), k))
					} else {
						r.viol(key, pos, fname(fn), fmt.Sprintf("children[%d] can be out of range: %s", k, strings.Join(bad, "; ")))
					}
				}
			}
		}
	}

	// S4b: comparator tokens produced ⊆ tokens the comparator clause handles
	handled := map[string]bool{}
	if cl := sw.clause("ASTComparator"); cl != nil {
		// token constants compared in the clause, or in the helpers it calls (the
		// comparison may live in a function the clause hands the operator to)
		note := func(bo *ssa.BinOp) {
			for _, op := range []ssa.Value{bo.X, bo.Y} {
				if mi, ok := op.(*ssa.MakeInterface); ok {
					op = mi.X
				}
				if types.Identical(op.Type(), c.A.TokT) {
					if k, ok := constInt(op); ok {
						handled[c.A.TokName[k]] = true
					}
				}
			}
		}
		seenFn := map[*ssa.Function]bool{c.A.Exec: true}
		var visit func(f *ssa.Function, depth int)
		scan := func(in ssa.Instruction, depth int) {
			switch in := in.(type) {
			case *ssa.BinOp:
				if in.Op == token.EQL {
					note(in)
				}
			case *ssa.Call:
				if depth < 4 {
					if callee := staticCallee(in); callee != nil && callee.Pkg == c.SLib {
						visit(callee, depth+1)
					}
				}
			case *ssa.Lookup:
				// a dispatch table keyed by the operator: its keys are handled
				if g := rootGlobal(in.X); g != nil {
					if mt, ok := in.X.Type().Underlying().(*types.Map); ok && types.Identical(mt.Key(), c.A.TokT) {
						if cg := c.newExec(UJSON, "").constGlobalOf(g); cg.ok {
							for _, kav := range cg.kAV {
								if kav.nk {
									handled[c.A.TokName[kav.n]] = true
								}
							}
						}
					}
				}
			}
		}
		visit = func(f *ssa.Function, depth int) {
			if seenFn[f] || f.Blocks == nil {
				return
			}
			seenFn[f] = true
			for _, b := range f.Blocks {
				for _, in := range b.Instrs {
					scan(in, depth)
				}
			}
			for _, an := range f.AnonFuncs {
				visit(an, depth+1)
			}
		}
		for _, b := range c.A.Exec.Blocks {
			for _, in := range b.Instrs {
				if sw.clauseAt(instrPos(in)) != cl {
					continue
				}
				scan(in, 0)
			}
		}
	}
	for _, p := range prods["ASTComparator"] {
		for _, t := range p.ValueSet {
			r.Instances++
			key := "S4b|comparator|" + t
			if handled[t] {
				r.ok(key, c.pos(p.Pos), fname(p.Fn), "comparator token "+t+" is produced by the parser and handled by the evaluator")
			} else {
				r.viol(key, c.pos(p.Pos), fname(p.Fn), "the parser builds a comparator node for "+t+" but the evaluator's comparator case does not handle it")
			}
		}
		if len(p.ValueSet) == 0 {
			r.undecided("S4b|comparator|payload", c.pos(p.Pos), fname(p.Fn), "comparator payload is not a known token set")
		}
	}
	for _, t := range []string{"tEQ", "tNE", "tLT", "tLTE", "tGT", "tGTE"} {
		r.Instances++
		found := false
		for _, p := range prods["ASTComparator"] {
			for _, v := range p.ValueSet {
				if v == t {
					found = true
				}
			}
		}
		if found && handled[t] {
			r.ok("S4b|six|"+t, c.pos(c.A.Led.Pos()), "led", "comparator "+t+" is both produced and handled")
		} else {
			r.viol("S4b|six|"+t, c.pos(c.A.Led.Pos()), "led", fmt.Sprintf("comparator %s: produced=%v handled=%v", t, found, handled[t]))
		}
	}

	// S6: slice triple
	for i, p := range prods["ASTSlice"] {
		r.Instances++
		key := fmt.Sprintf("S6|producer#%d", i)
		if p.ValueType == "[]*int" && p.SliceLen == 3 {
			r.ok(key, c.pos(p.Pos), fname(p.Fn), "slice node payload is a []*int backed by a 3-element literal")
		} else {
			r.viol(key, c.pos(p.Pos), fname(p.Fn), fmt.Sprintf("slice node payload is %s of length %d, the evaluator expects the (start, stop, step) triple", p.ValueType, p.SliceLen))
		}
	}
	return r
}

// S-EMPTY (S5): no parser function returns (zero node, nil error).
func ruleEmptyNode(c *Ctx) *RuleResult {
	r := &RuleResult{Doc: "no function returning (ASTNode, error) returns the empty node together with a nil error", Floor: 10}
	for _, fn := range allFuncs(c.SLib) {
		res := fn.Signature.Results()
		if res.Len() != 2 || !c.isASTNode(res.At(0).Type()) || !isErrorType(res.At(1).Type()) {
			continue
		}
		n := 0
		for _, b := range fn.Blocks {
			ret := blockReturn(b)
			if ret == nil {
				continue
			}
			n++
			r.Instances++
			key := fmt.Sprintf("S5|%s|return#%d", fname(fn), n)
			pos := c.pos(ret.Pos())
			sh := c.nodeShapeOf(retResults(ret)[0])
			zero := sh != nil && sh.Zero
			nilErr := isNilConst(retResults(ret)[1])
			switch {
			case zero && nilErr:
				if c.deadMatchBranch(b) {
					r.ok(key, pos, fname(fn), "(empty node, nil) is only reachable through the failure edge of a match that cannot fail (current token already tested)")
				} else {
					r.viol(key, pos, fname(fn), "returns the empty ASTNode with a nil error: a malformed expression would compile into a node the evaluator rejects only at search time")
				}
			case zero:
				r.ok(key, pos, fname(fn), "empty node accompanies a non-nil error")
			default:
				r.ok(key, pos, fname(fn), "returns a built or forwarded node")
			}
		}
	}
	return r
}

// deadMatchBranch: block b is the err != nil successor of p.match(K) that is
// itself executed only when p.current() == K was just tested true.
func (c *Ctx) deadMatchBranch(b *ssa.BasicBlock) bool {
	if len(b.Preds) != 1 {
		return false
	}
	p := b.Preds[0]
	ifi := blockIf(p)
	if ifi == nil || p.Succs[0] != b {
		return false
	}
	bo, ok := ifi.Cond.(*ssa.BinOp)
	if !ok || bo.Op != token.NEQ || !isNilConst(bo.Y) {
		return false
	}
	call, ok := bo.X.(*ssa.Call)
	if !ok || staticCallee(call) != c.A.Match || call.Block() != p {
		return false
	}
	k, ok := constInt(call.Call.Args[1])
	if !ok {
		return false
	}
	// no other call before the match in p
	for _, in := range p.Instrs {
		if in == call {
			break
		}
		if _, isCall := in.(ssa.CallInstruction); isCall {
			return false
		}
	}
	if len(p.Preds) != 1 {
		return false
	}
	pp := p.Preds[0]
	pif := blockIf(pp)
	if pif == nil || pp.Succs[0] != p {
		return false
	}
	pbo, ok := pif.Cond.(*ssa.BinOp)
	if !ok || pbo.Op != token.EQL {
		return false
	}
	cur, ok := pbo.X.(*ssa.Call)
	if !ok || staticCallee(cur) != c.A.Current {
		return false
	}
	k2, ok := constInt(pbo.Y)
	return ok && k2 == k
}

// S-IMMUT: nodes are never modified after they are built.
func ruleNodeImmutable(c *Ctx) *RuleResult {
	r := &RuleResult{Doc: "ASTNode fields and elements of children slices are written only while a node is being built (composite literal / local under construction)", Floor: 10}
	for _, fn := range allFuncs(c.SLib) {
		n := 0
		for _, b := range fn.Blocks {
			for _, in := range b.Instrs {
				st, ok := in.(*ssa.Store)
				if !ok {
					continue
				}
				switch a := st.Addr.(type) {
				case *ssa.FieldAddr:
					if !c.isASTNodePtr(a.X.Type()) {
						continue
					}
					n++
					r.Instances++
					key := fmt.Sprintf("field-store|%s#%d", fname(fn), n)
					if c.freshNodeLoc(a.X) {
						r.ok(key, c.pos(st.Pos()), fname(fn), "field store into a node under construction")
					} else {
						r.viol(key, c.pos(st.Pos()), fname(fn), "writes a field of an existing ASTNode (reachable from a parameter, a field or a slice element): compiled expressions must be immutable")
					}
				case *ssa.IndexAddr:
					if !c.isASTNodePtr(a.Type()) {
						continue
					}
					n++
					r.Instances++
					key := fmt.Sprintf("elem-store|%s#%d", fname(fn), n)
					if _, ok := a.X.(*ssa.Alloc); ok {
						r.ok(key, c.pos(st.Pos()), fname(fn), "element store into a freshly allocated array literal")
					} else {
						r.viol(key, c.pos(st.Pos()), fname(fn), "writes an element of an existing []ASTNode")
					}
				}
			}
		}
	}
	return r
}

func (c *Ctx) freshNodeLoc(loc ssa.Value) bool {
	switch l := loc.(type) {
	case *ssa.Alloc:
		// the spilled copy of a by-value parameter is a private copy as well
		return true
	case *ssa.IndexAddr:
		_, ok := l.X.(*ssa.Alloc)
		return ok
	}
	return false
}

func clauseAtPos(sw *EnumSwitch, p token.Pos) *Clause {
	if sw == nil {
		return nil
	}
	return sw.clauseAt(p)
}
