package main

import (
	"go/ast"
	"go/constant"
	"go/token"
	"go/types"
	"sort"
	"strings"

	"golang.org/x/tools/go/packages"
	"golang.org/x/tools/go/ssa"
)

// Package-level tables that are never written after their initialiser (a
// dispatch map from an enumeration to functions, an array of records) are
// read as what their composite literal says: a load of such a global yields
// a constant aggregate, a lookup with a known key yields that entry, and a
// lookup with an unknown key goes every way (one path per entry, plus the
// missing-key path).

type constGlobal struct {
	ok   bool
	keys []string // maps: normalised keys in literal order
	kAV  map[string]AV
	vals map[string]AV
	list []AV // arrays / slices
	kind byte // 'm' or 'l'
}

// tableKey: the normalised key of a constant map key value.
func tableKey(kv AV) (string, bool) {
	switch {
	case kv.k == 'S' && kv.sk:
		return "s:" + kv.s, true
	case kv.k == 'N' && kv.nk:
		return "#" + itoa64(kv.n), true
	case kv.k == 'B' && (kv.tri == 1 || kv.tri == 2):
		if kv.tri == 1 {
			return "b:true", true
		}
		return "b:false", true
	}
	return "", false
}

func itoa64(n int64) string {
	if n < 0 {
		return "-" + itoa64(-n)
	}
	return itoa(int(n))
}

func (c *Ctx) pkgOfGlobal(g *ssa.Global) *packages.Package {
	switch g.Pkg {
	case c.SLib:
		return c.Lib
	case c.SCLI:
		return c.CLI
	}
	return nil
}

func (x *Exec) constGlobalOf(g *ssa.Global) *constGlobal {
	c := x.c
	if c.constGlobals == nil {
		c.constGlobals = map[*ssa.Global]*constGlobal{}
	}
	if cg, ok := c.constGlobals[g]; ok {
		return cg
	}
	cg := &constGlobal{}
	c.constGlobals[g] = cg
	pkg := c.pkgOfGlobal(g)
	if pkg == nil || !c.globalNeverWrittenIn(g) {
		return cg
	}
	var init ast.Expr
	for _, f := range pkg.Syntax {
		for _, d := range f.Decls {
			gd, ok := d.(*ast.GenDecl)
			if !ok || gd.Tok != token.VAR {
				continue
			}
			for _, s := range gd.Specs {
				vs := s.(*ast.ValueSpec)
				for i, n := range vs.Names {
					if n.Name == g.Name() && i < len(vs.Values) && pkg.TypesInfo.Defs[n] == g.Object() {
						init = vs.Values[i]
					}
				}
			}
		}
	}
	cl, ok := init.(*ast.CompositeLit)
	if !ok {
		return cg
	}
	info := pkg.TypesInfo
	var valueOf func(e ast.Expr, want types.Type) (AV, bool)
	valueOf = func(e ast.Expr, want types.Type) (AV, bool) {
		e = ast.Unparen(e)
		if tv, ok := info.Types[e]; ok && tv.Value != nil {
			switch tv.Value.Kind() {
			case constant.Bool:
				if constant.BoolVal(tv.Value) {
					return AV{k: 'B', tri: 1}, true
				}
				return AV{k: 'B', tri: 2}, true
			case constant.String:
				return AV{k: 'S', s: constant.StringVal(tv.Value), sk: true}, true
			case constant.Int:
				if b, ok := tv.Type.Underlying().(*types.Basic); ok && b.Info()&types.IsInteger != 0 {
					n, _ := constant.Int64Val(tv.Value)
					return AV{k: 'N', n: n, nk: true, pos: n >= 1, nn: n >= 0}, true
				}
			}
			return AV{}, false
		}
		switch e := e.(type) {
		case *ast.Ident:
			if f, ok := info.Uses[e].(*types.Func); ok {
				if fn := c.Prog.FuncValue(f); fn != nil {
					return AV{k: 'U', fn: fn, what: fn.Name()}, true
				}
			}
			if info.Uses[e] == types.Universe.Lookup("nil") {
				return x.zero(want), true
			}
		case *ast.SelectorExpr:
			if f, ok := info.Uses[e.Sel].(*types.Func); ok {
				// a package-qualified function or a method expression
				if fn := c.Prog.FuncValue(f); fn != nil && info.Selections[e] == nil {
					return AV{k: 'U', fn: fn, what: fn.Name()}, true
				}
			}
		case *ast.FuncLit:
			for _, fn := range allFuncs(g.Pkg) {
				if fn.Syntax() == ast.Node(e) && len(fn.FreeVars) == 0 {
					return AV{k: 'U', fn: fn, what: fn.Name()}, true
				}
			}
			if ini := g.Pkg.Func("init"); ini != nil {
				for _, fn := range ini.AnonFuncs {
					if fn.Syntax() == ast.Node(e) && len(fn.FreeVars) == 0 {
						return AV{k: 'U', fn: fn, what: fn.Name()}, true
					}
				}
			}
		case *ast.CompositeLit:
			t := want
			if tv, ok := info.Types[e]; ok {
				t = tv.Type
			}
			st, ok := t.Underlying().(*types.Struct)
			if !ok {
				return AV{}, false
			}
			agg := &aggVal{}
			for i := 0; i < st.NumFields(); i++ {
				agg.fields = append(agg.fields, x.zero(st.Field(i).Type()))
			}
			for i, el := range e.Elts {
				idx, ve := i, el
				if kv, isKV := el.(*ast.KeyValueExpr); isKV {
					id, ok := kv.Key.(*ast.Ident)
					if !ok {
						return AV{}, false
					}
					idx = -1
					for j := 0; j < st.NumFields(); j++ {
						if st.Field(j).Name() == id.Name {
							idx = j
						}
					}
					ve = kv.Value
				}
				if idx < 0 || idx >= st.NumFields() {
					return AV{}, false
				}
				v, ok := valueOf(ve, st.Field(idx).Type())
				if !ok {
					return AV{}, false
				}
				agg.fields[idx] = v
			}
			return AV{k: 'G', agg: agg, what: "struct"}, true
		}
		return AV{}, false
	}
	switch t := g.Type().(*types.Pointer).Elem().Underlying().(type) {
	case *types.Map:
		cg.kind = 'm'
		cg.kAV, cg.vals = map[string]AV{}, map[string]AV{}
		for _, el := range cl.Elts {
			kv, ok := el.(*ast.KeyValueExpr)
			if !ok {
				return cg
			}
			k, ok := valueOf(kv.Key, t.Key())
			if !ok {
				return cg
			}
			ks, ok := tableKey(k)
			if !ok {
				return cg
			}
			v, ok := valueOf(kv.Value, t.Elem())
			if !ok {
				return cg
			}
			if _, dup := cg.vals[ks]; dup {
				return cg
			}
			cg.keys = append(cg.keys, ks)
			cg.kAV[ks], cg.vals[ks] = k, v
		}
		cg.ok = true
	case *types.Array, *types.Slice:
		var et types.Type
		n := int64(-1)
		if at, ok := t.(*types.Array); ok {
			et, n = at.Elem(), at.Len()
		} else {
			et = t.(*types.Slice).Elem()
		}
		cg.kind = 'l'
		next := int64(0)
		var list []AV
		for _, el := range cl.Elts {
			ve := el
			if kv, isKV := el.(*ast.KeyValueExpr); isKV {
				tv, ok := info.Types[kv.Key]
				if !ok || tv.Value == nil {
					return cg
				}
				ki, _ := constant.Int64Val(constant.ToInt(tv.Value))
				next = ki
				ve = kv.Value
			}
			v, ok := valueOf(ve, et)
			if !ok {
				return cg
			}
			for int64(len(list)) <= next {
				list = append(list, x.zero(et))
			}
			list[next] = v
			next++
		}
		for n >= 0 && int64(len(list)) < n {
			list = append(list, x.zero(et))
		}
		if len(list) > 64 {
			return cg
		}
		cg.list = list
		cg.ok = true
	}
	return cg
}

// globalNeverWrittenIn: as globalNeverWritten, for a global of either analysed package.
func (c *Ctx) globalNeverWrittenIn(g *ssa.Global) bool {
	if g.Pkg == c.SLib {
		return c.globalNeverWritten(g)
	}
	for _, fn := range allFuncs(g.Pkg) {
		if fn.Name() == "init" && fn.Synthetic != "" {
			continue
		}
		for _, b := range fn.Blocks {
			for _, in := range b.Instrs {
				switch in := in.(type) {
				case *ssa.Store:
					if rootGlobal(in.Addr) == g {
						return false
					}
				case *ssa.MapUpdate:
					if rootGlobal(in.Map) == g {
						return false
					}
				}
			}
		}
	}
	return true
}

// loadGlobal: the value of a constant table global, if it is one.
func (x *Exec) loadGlobal(name string, h *Heap) (AV, bool) {
	var g *ssa.Global
	for _, pkg := range []*ssa.Package{x.c.SLib, x.c.SCLI} {
		if pkg == nil {
			continue
		}
		if m, ok := pkg.Members[name].(*ssa.Global); ok {
			if g != nil {
				return AV{}, false // the same name in both packages: not told apart here
			}
			g = m
		}
	}
	if g == nil {
		return AV{}, false
	}
	// a sentinel error: a never-written package-level error variable whose
	// initialiser constructs an error is not nil
	if isErrorType(g.Type().(*types.Pointer).Elem()) && x.c.globalNeverWrittenIn(g) {
		if pkg := x.c.pkgOfGlobal(g); pkg != nil {
			for _, f := range pkg.Syntax {
				for _, d := range f.Decls {
					gd, ok := d.(*ast.GenDecl)
					if !ok || gd.Tok != token.VAR {
						continue
					}
					for _, sp := range gd.Specs {
						vs := sp.(*ast.ValueSpec)
						for i, n := range vs.Names {
							if n.Name != g.Name() || i >= len(vs.Values) || pkg.TypesInfo.Defs[n] != g.Object() {
								continue
							}
							if call, ok := ast.Unparen(vs.Values[i]).(*ast.CallExpr); ok {
								if sel, ok := call.Fun.(*ast.SelectorExpr); ok {
									if fo, ok := pkg.TypesInfo.Uses[sel.Sel].(*types.Func); ok && fo.Pkg() != nil {
										q := fo.Pkg().Path() + "." + fo.Name()
										if q == "errors.New" || q == "fmt.Errorf" {
											return AV{k: 'E', tri: 2}, true
										}
									}
								}
							}
							if ue, ok := ast.Unparen(vs.Values[i]).(*ast.UnaryExpr); ok && ue.Op == token.AND {
								if _, ok := ue.X.(*ast.CompositeLit); ok {
									return AV{k: 'E', tri: 2}, true // &someError{...}
								}
							}
						}
					}
				}
			}
		}
	}
	cg := x.constGlobalOf(g)
	if !cg.ok {
		return AV{}, false
	}
	switch cg.kind {
	case 'm':
		tab := map[string]AV{}
		for k, v := range cg.vals {
			tab[k] = v
		}
		return AV{k: 'G', agg: &aggVal{table: tab}, what: "const table " + name, tag: "ctab:" + name}, true
	case 'l':
		id := h.alloc(&aobj{kind: 'l', elems: append([]AV(nil), cg.list...), typ: g.Type().(*types.Pointer).Elem()})
		return AV{k: 'L', tri: 2, obj: id, elemK: 'O', what: "const table " + name}, true
	}
	return AV{}, false
}

// lookupConstTable: a lookup in a constant table. Returns true when it took
// over the continuation (forked).
func (x *Exec) lookupConstTable(a *activation, b *ssa.BasicBlock, i int, in *ssa.Lookup, fr *frame, h *Heap, p pathInfo) bool {
	mv := x.val(fr, in.X)
	if mv.k != 'G' || mv.agg == nil || mv.agg.table == nil || !strings.HasPrefix(mv.tag, "ctab:") {
		return false
	}
	kv := x.val(fr, in.Index)
	elemT := in.X.Type().Underlying().(*types.Map).Elem()
	set := func(f *frame, res AV, ok uint8) {
		if in.CommaOk {
			f.vals[in] = AV{k: 'T', tup: []AV{res, {k: 'B', tri: ok}}}
		} else {
			f.vals[in] = res
		}
	}
	if ks, known := tableKey(kv); known {
		if e, ok := mv.agg.table[ks]; ok {
			set(fr, e, 1)
		} else {
			set(fr, x.zero(elemT), 2)
		}
		return false
	}
	// unknown key: every entry, and the missing key
	var keys []string
	for k := range mv.agg.table {
		keys = append(keys, k)
	}
	sort.Strings(keys)
	if len(keys) > 24 {
		return false
	}
	var g *ssa.Global
	name := strings.TrimPrefix(mv.tag, "ctab:")
	for _, pkg := range []*ssa.Package{x.c.SLib, x.c.SCLI} {
		if pkg != nil {
			if m, ok := pkg.Members[name].(*ssa.Global); ok {
				g = m
			}
		}
	}
	var cg *constGlobal
	if g != nil {
		cg = x.constGlobalOf(g)
	}
	for _, k := range keys {
		f2, h2 := fr.clone(), h.clone()
		set(f2, mv.agg.table[k], 1)
		// the key is that constant on this path
		if cg != nil {
			if kav, ok := cg.kAV[k]; ok {
				if _, isConst := in.Index.(*ssa.Const); !isConst {
					f2.vals[in.Index] = kav
				}
			}
		}
		a.cont(b, i+1, f2, h2, p)
	}
	set(fr, x.zero(elemT), 2)
	a.cont(b, i+1, fr, h, p)
	return true
}
