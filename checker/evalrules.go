package main

import (
	"fmt"
	"go/token"
	"go/types"
	"os"
	"sort"
	"strings"

	"golang.org/x/tools/go/ssa"
)

// K-EVAL: every case of the evaluator switch is interpreted abstractly, per
// kind of the current value and per kind of the sub-results it depends on,
// and compared with the specification's table: which child is evaluated
// against which value (threading), what kind the result has, that nulls are
// dropped, that no instruction on the way can panic, that errors of
// sub-evaluations propagate, and that the result is JSON data.

func init() {
	register("K-EVAL/json", func(c *Ctx) *RuleResult { return ruleEval(c, "json") })
	register("K-EVAL/go", func(c *Ctx) *RuleResult { return ruleEval(c, "go") })
}

func (x *Exec) nodeAV(nt string) AV {
	f := make([]AV, 3)
	f[fNodeType] = AV{k: 'N', n: x.c.A.NT[nt], nk: true}
	f[fValue] = AV{k: 'O', what: "payload"}
	f[fChildren] = AV{k: 'L', tri: 2, what: "nodes", elemK: 'O'}
	return AV{k: 'G', what: "node self", agg: &aggVal{fields: f}}
}

type evalOutcome struct {
	ret  AV
	err  AV
	path pathInfo
	heap *Heap
}

func (o evalOutcome) isErr() bool  { return o.err.k != 'E' || o.err.tri&2 != 0 }
func (o evalOutcome) isSucc() bool { return o.err.k == 'E' && o.err.tri&1 != 0 }

// hypFailed: some hypothesised evaluation on this path returned an error.
func (o evalOutcome) hypFailed() bool {
	if o.path.failed {
		return true
	}
	for _, h := range o.path.calls {
		if h.ret.k == 'I' && h.ret.atoms == ANull && h.ret.prov == "" {
			return true
		}
	}
	return false
}

func (c *Ctx) runClause(x *Exec, nt string, value AV) []evalOutcome {
	var outs []evalOutcome
	h := newHeap()
	x.run(c.A.Exec, []AV{{k: 'P', tri: 2, what: "interp"}, x.nodeAV(nt), value}, h, pathInfo{}, func(rets []AV, h2 *Heap, p pathInfo, fin *frame) {
		if len(rets) != 2 {
			return
		}
		outs = append(outs, evalOutcome{ret: rets[0], err: rets[1], path: p, heap: h2})
	})
	return outs
}

func callStr(h hcall) string {
	n := strings.TrimPrefix(h.node, "node ")
	return fmt.Sprintf("%s(%s, %s)", h.callee, n, h.data.prov)
}

func callsStr(p pathInfo) string {
	var s []string
	for _, h := range p.calls {
		s = append(s, callStr(h))
	}
	if p.more {
		s = append(s, "…")
	}
	return "[" + strings.Join(s, " ") + "]"
}

// retAtoms: the JSON-level atoms of a returned value (lists built locally are resolved through the heap).
func retAtoms(o evalOutcome) (Atoms, bool, string) {
	r := o.ret
	if r.k != 'I' {
		return 0, false, r.String()
	}
	bad := r.bad
	if r.obj != 0 && o.heap.objs[r.obj] != nil && o.heap.objs[r.obj].bad {
		bad = true
	}
	return r.atoms, bad, string(r.prov)
}

// listElems: the join of the elements of a locally built result list.
func listElems(o evalOutcome) (AV, bool) {
	if o.ret.obj == 0 || o.heap.objs[o.ret.obj] == nil {
		return AV{}, false
	}
	ob := o.heap.objs[o.ret.obj]
	switch ob.kind {
	case 'a':
		return ob.join, ob.join.k != 0
	case 'l':
		var j AV
		for _, e := range ob.elems {
			j = joinAV(j, e)
		}
		return j, len(ob.elems) > 0
	}
	return AV{}, false
}

func ruleEval(c *Ctx, mode string) *RuleResult {
	r := &RuleResult{Doc: "each evaluator case, interpreted abstractly per kind of the current value / of its sub-results, matches the specification: threading of children and data, result kinds (null on type mismatch), nulls dropped from projections, truth table of || && ! and comparators, errors of sub-evaluations propagate, results are JSON data, no reachable instruction can panic", Floor: 22}
	uni := UJSON
	if mode == "go" {
		uni = UGo
	}
	agg := c.newExec(uni, "")
	// one budget for all the interpreter runs of this rule: a change that makes
	// the state space explode ends in "not decided", not in a check that never returns
	const evalBudget = int64(300000000)
	budget := evalBudget
	defer func() {
		if os.Getenv("KEVAL_BUDGET") != "" {
			fmt.Fprintf(os.Stderr, "K-EVAL/%s used %d steps of %d\n", mode, evalBudget-budget, evalBudget)
		}
	}()
	newX := func(label string) *Exec {
		x := c.newExec(uni, label)
		if mode == "go" {
			// inductive hypothesis of "nil pointers behave as null": a
			// sub-evaluation never returns a typed nil pointer
			x.resUni = uni &^ ANilPtr
			x.elemUni = uni &^ ANilPtr // nil pointers occur as struct fields and typed-slice elements, not inside generic containers
		}
		x.traceReturns = os.Getenv("KEVAL_TRACE") != ""
		x.hypFns[c.A.Exec] = true
		x.hypFns[c.A.CallFunction] = true
		x.hyp = defaultHyp
		x.events = agg.events
		x.gaps = agg.gaps
		x.truncP = &agg.trunc
		x.budget = &budget
		if mode == "go" {
			x.limit = 40000000 // the Go universe has twice the atoms: some projection runs need more steps to reach their fixpoint
		}
		return x
	}
	var pendingViol [][3]string
	report := func(nt string, problems []string, nruns, npaths int, okDetail string) {
		r.Instances++
		cl := c.A.ExecSw.clause(nt)
		pos := c.pos(c.A.Exec.Pos())
		if cl != nil {
			pos = c.pos(cl.Pos)
		}
		key := "clause|" + nt
		if len(problems) == 0 {
			r.ok(key, pos, fname(c.A.Exec), fmt.Sprintf("%s: %d abstract runs, %d paths: %s", nt, nruns, npaths, okDetail))
			return
		}
		seen := map[string]bool{}
		var uniq []string
		for _, p := range problems {
			if !seen[p] {
				seen[p] = true
				uniq = append(uniq, p)
			}
		}
		n := len(uniq)
		if n > 5 {
			uniq = append(uniq[:5], fmt.Sprintf("… %d more", n-5))
		}
		pendingViol = append(pendingViol, [3]string{key, pos, fmt.Sprintf("%s deviates from the specification: %s", nt, strings.Join(uniq, "; "))})
	}
	// flushed at the end: a deviation found while some construct had no transfer
	// function is not a verdict (values that passed through it are unknown)
	flushViol := func() {
		for _, pv := range pendingViol {
			if len(agg.gaps) > 0 {
				r.undecided(pv[0], pv[1], fname(c.A.Exec), pv[2]+" — not decided: the interpretation met constructs it has no transfer function for")
			} else {
				r.viol(pv[0], pv[1], fname(c.A.Exec), pv[2])
			}
		}
		pendingViol = nil
	}

	atoms := uni.each()
	arraysOf := AArrays | ATSlices
	isArr := func(a Atoms) bool { return a&arraysOf != 0 }

	// generic checks on a set of outcomes
	generic := func(label string, outs []evalOutcome, allowOwnError bool, allowExpref bool) []string {
		var pr []string
		if len(outs) == 0 {
			pr = append(pr, label+": no path returns (every path panics or is cut)")
		}
		for _, o := range outs {
			for _, hc := range o.path.calls {
				if hc.node == "node self" {
					pr = append(pr, fmt.Sprintf("%s: evaluates its own node again (%s): evaluation would not terminate", label, callsStr(o.path)))
				}
			}
			if o.hypFailed() {
				if o.isSucc() {
					pr = append(pr, fmt.Sprintf("%s: a sub-evaluation failed on path %s but the case returns a value", label, callsStr(o.path)))
				}
				continue
			}
			if o.isErr() && !allowOwnError {
				pr = append(pr, fmt.Sprintf("%s: returns an error although no sub-evaluation failed (path %s)", label, callsStr(o.path)))
			}
			if o.isSucc() {
				if o.ret.k == 'O' && o.ret.what == "payload" {
					continue // a literal's stored value
				}
				a, bad, _ := retAtoms(o)
				if o.ret.k != 'I' {
					pr = append(pr, fmt.Sprintf("%s: returns %s", label, o.ret))
					continue
				}
				if a&ABad != 0 || bad {
					pr = append(pr, fmt.Sprintf("%s: can return a value that is not JSON data (%s)", label, a&ABad))
				}
				if a&AInterp != 0 || (a&AExpref != 0 && !allowExpref) {
					pr = append(pr, fmt.Sprintf("%s: can return an internal object (%s)", label, a&(AInterp|AExpref)))
				}
				if mode == "go" && a&ANilPtr != 0 && o.ret.prov != "cur" {
					pr = append(pr, fmt.Sprintf("%s: can return a typed nil pointer (a non-nil interface) where the JSON form has null", label))
				}
				if mode == "go" {
					if el, ok := listElems(o); ok && el.k == 'I' && el.atoms&ANilPtr != 0 {
						pr = append(pr, fmt.Sprintf("%s: can insert a typed nil pointer into the result array where the JSON form has null", label))
					}
				}
			}
		}
		return pr
	}

	valueAV := func(a Atoms) AV { return AV{k: 'I', atoms: a, prov: "cur"} }

	// ---- cases without sub-results that matter: run per value atom
	type simple struct {
		nt     string
		check  func(a Atoms, o evalOutcome) string
		ownErr bool
		expref bool
	}
	want := func(cond bool, format string, args ...interface{}) string {
		if cond {
			return ""
		}
		return fmt.Sprintf(format, args...)
	}
	callsAre := func(o evalOutcome, pats ...string) string {
		var got []string
		for _, h := range o.path.calls {
			got = append(got, strings.TrimPrefix(h.node, "node ")+"@"+string(h.data.prov))
		}
		if strings.Join(got, " ") == strings.Join(pats, " ") {
			return ""
		}
		return fmt.Sprintf("evaluates %v, the specification requires %v", got, pats)
	}
	simples := []simple{
		{nt: "ASTField", check: func(a Atoms, o evalOutcome) string {
			ra, _, _ := retAtoms(o)
			if s := callsAre(o); s != "" {
				return s
			}
			if a&(AObjects|AStruct|APtr) != 0 {
				return ""
			}
			return want(ra == ANull, "field of %s yields %s, must be null", a, ra)
		}},
		{nt: "ASTIndex", check: func(a Atoms, o evalOutcome) string {
			ra, _, _ := retAtoms(o)
			if s := callsAre(o); s != "" {
				return s
			}
			if isArr(a) {
				return ""
			}
			return want(ra == ANull, "index of %s yields %s, must be null", a, ra)
		}},
		{nt: "ASTSlice", ownErr: true, check: func(a Atoms, o evalOutcome) string {
			ra, _, _ := retAtoms(o)
			if isArr(a) {
				if o.isSucc() {
					return want(ra&^AArrays == 0, "slice of an array yields %s", ra)
				}
				return ""
			}
			if o.isErr() {
				return fmt.Sprintf("slice of %s is an error, must be null", a)
			}
			return want(ra == ANull, "slice of %s yields %s, must be null", a, ra)
		}},
		{nt: "ASTIdentity", check: func(a Atoms, o evalOutcome) string {
			ra, _, pv := retAtoms(o)
			return want(ra == a && pv == "cur" && len(o.path.calls) == 0, "identity returns %s@%s", ra, pv)
		}},
		{nt: "ASTCurrentNode", check: func(a Atoms, o evalOutcome) string {
			ra, _, pv := retAtoms(o)
			return want(ra == a && pv == "cur" && len(o.path.calls) == 0, "current node returns %s@%s", ra, pv)
		}},
		{nt: "ASTLiteral", check: func(a Atoms, o evalOutcome) string {
			return want(o.ret.k == 'O' && o.ret.what == "payload" && len(o.path.calls) == 0, "literal returns %s instead of its stored value", o.ret)
		}},
		{nt: "ASTExpRef", expref: true, check: func(a Atoms, o evalOutcome) string {
			ok := o.ret.k == 'I' && o.ret.atoms == AExpref && o.ret.agg != nil && len(o.ret.agg.fields) == 1 && o.ret.agg.fields[0].what == "node child(0)"
			return want(ok && len(o.path.calls) == 0, "expression reference returns %s (must wrap child 0 unevaluated)", o.ret)
		}},
		{nt: "ASTKeyValPair", check: func(a Atoms, o evalOutcome) string {
			if s := callsAre(o, "child(0)@cur"); s != "" {
				return s
			}
			_, _, pv := retAtoms(o)
			return want(pv == "res#1", "key-value pair returns %s, must be the value's result", pv)
		}},
		{nt: "ASTSubexpression", check: func(a Atoms, o evalOutcome) string {
			if s := callsAre(o, "child(0)@cur", "child(1)@res#1"); s != "" {
				return s
			}
			_, _, pv := retAtoms(o)
			return want(pv == "res#2", "returns %s, must be the right side's result", pv)
		}},
		{nt: "ASTIndexExpression", check: func(a Atoms, o evalOutcome) string {
			if s := callsAre(o, "child(0)@cur", "child(1)@res#1"); s != "" {
				return s
			}
			_, _, pv := retAtoms(o)
			return want(pv == "res#2", "returns %s, must be the right side's result", pv)
		}},
		{nt: "ASTPipe", check: func(a Atoms, o evalOutcome) string {
			for i, h := range o.path.calls {
				wantD := "cur"
				if i > 0 {
					wantD = fmt.Sprintf("res#%d", i)
				}
				if string(h.data.prov) != wantD || !strings.Contains(h.node, "child") {
					return fmt.Sprintf("pipe stage %d is evaluated against %s, must be %s", i+1, h.data.prov, wantD)
				}
			}
			_, _, pv := retAtoms(o)
			last := "cur"
			if n := len(o.path.calls); n > 0 {
				last = fmt.Sprintf("res#%d", n)
			}
			if o.path.more {
				return ""
			}
			return want(pv == last, "pipe returns %s, must be the last stage's result %s", pv, last)
		}},
		{nt: "ASTMultiSelectList", check: func(a Atoms, o evalOutcome) string {
			ra, _, pv := retAtoms(o)
			if a == ANull {
				return want(ra == ANull && len(o.path.calls) == 0, "multi-select list on null yields %s after %s", ra, callsStr(o.path))
			}
			for _, h := range o.path.calls {
				if h.data.prov != "cur" {
					return fmt.Sprintf("member evaluated against %s, must be the current node", h.data.prov)
				}
			}
			if j, ok := listElems(o); ok && !o.path.more {
				// every member's result is inserted, nulls included
				_ = j
			}
			return want(ra&^AArrays == 0 && ra != 0 && pv == "" && o.ret.obj != 0, "multi-select list yields %s@%s, must be a fresh array", ra, pv)
		}},
		{nt: "ASTMultiSelectHash", check: func(a Atoms, o evalOutcome) string {
			ra, _, pv := retAtoms(o)
			if a == ANull {
				return want(ra == ANull && len(o.path.calls) == 0, "multi-select hash on null yields %s after %s", ra, callsStr(o.path))
			}
			for _, h := range o.path.calls {
				if h.data.prov != "cur" {
					return fmt.Sprintf("member evaluated against %s, must be the current node", h.data.prov)
				}
			}
			return want(ra&^AObjects == 0 && ra != 0 && pv == "" && o.ret.obj != 0, "multi-select hash yields %s@%s, must be a fresh object", ra, pv)
		}},
		{nt: "ASTFunctionExpression", check: func(a Atoms, o evalOutcome) string {
			n := len(o.path.calls)
			if o.path.more {
				return ""
			}
			if n == 0 || o.path.calls[n-1].callee != c.A.CallFunction.Name() {
				return "the function is not called after evaluating the arguments: " + callsStr(o.path)
			}
			for _, h := range o.path.calls[:n-1] {
				if h.data.prov != "cur" || h.callee != c.A.Exec.Name() {
					return fmt.Sprintf("argument evaluated against %s, must be the current node", h.data.prov)
				}
			}
			_, _, pv := retAtoms(o)
			return want(pv == prov(fmt.Sprintf("res#%d", n)).String(), "returns %s, must be the function's result", pv)
		}},
	}
	for _, s := range simples {
		var problems []string
		npaths := 0
		for _, a := range atoms {
			x := newX(fmt.Sprintf("%s on %s", s.nt, a))
			outs := c.runClause(x, s.nt, valueAV(a))
			npaths += len(outs)
			if os.Getenv("KEVAL_TRACE") == x.label {
				for _, o := range outs {
					fmt.Fprintln(os.Stderr, "  outcome:", o.ret, o.err, callsStr(o.path), o.path.notes)
				}
				fmt.Fprintln(os.Stderr, "  steps", x.steps, "trunc", x.trunc)
			}
			problems = append(problems, generic(x.label, outs, s.ownErr, s.expref)...)
			for _, o := range outs {
				if o.hypFailed() || (o.isErr() && !o.isSucc()) {
					continue
				}
				if msg := s.check(a, o); msg != "" {
					problems = append(problems, fmt.Sprintf("on %s: %s", a, msg))
				}
			}
			if x.trunc {
				agg.trunc = true
			}
		}
		report(s.nt, problems, len(atoms), npaths, "threading, result kinds and error propagation as specified")
	}

	// ---- logic: || && ! per (left, right) result kinds
	logicAtoms := (uni &^ ANilPtr).each() // operands are results of sub-evaluations
	for _, nt := range []string{"ASTOrExpression", "ASTAndExpression", "ASTNotExpression"} {
		var problems []string
		nruns, npaths := 0, 0
		rights := logicAtoms
		if nt == "ASTNotExpression" {
			rights = []Atoms{ANull}
		}
		for _, l := range logicAtoms {
			for _, rr := range rights {
				nruns++
				x := newX(fmt.Sprintf("%s with operands (%s, %s)", nt, l, rr))
				x.hyp = atomHyp([]Atoms{l, rr})
				outs := c.runClause(x, nt, valueAV(AObjN))
				npaths += len(outs)
				problems = append(problems, generic(x.label, outs, false, false)...)
				for _, o := range outs {
					if o.hypFailed() || !o.isSucc() {
						continue
					}
					ra, _, pv := retAtoms(o)
					n := len(o.path.calls)
					for _, h := range o.path.calls {
						if h.data.prov != "cur" {
							problems = append(problems, fmt.Sprintf("(%s,%s): operand evaluated against %s, must be the current node", l, rr, h.data.prov))
						}
					}
					switch nt {
					case "ASTOrExpression":
						if !falseLike(l) {
							if n != 1 || pv != "res#1" {
								problems = append(problems, fmt.Sprintf("%s || %s: left is true-like, must return the left operand without evaluating the right (evaluations %d, returns %s)", l, rr, n, pv))
							}
						} else if n != 2 || pv != "res#2" {
							problems = append(problems, fmt.Sprintf("%s || %s: left is false-like, must evaluate and return the right operand (evaluations %d, returns %s)", l, rr, n, pv))
						}
					case "ASTAndExpression":
						if falseLike(l) {
							if n != 1 || pv != "res#1" {
								problems = append(problems, fmt.Sprintf("%s && %s: left is false-like, must return the left operand without evaluating the right (evaluations %d, returns %s)", l, rr, n, pv))
							}
						} else if n != 2 || pv != "res#2" {
							problems = append(problems, fmt.Sprintf("%s && %s: left is true-like, must evaluate and return the right operand (evaluations %d, returns %s)", l, rr, n, pv))
						}
					case "ASTNotExpression":
						wantA := ABoolF
						if falseLike(l) {
							wantA = ABoolT
						}
						if ra != wantA || n != 1 {
							problems = append(problems, fmt.Sprintf("!%s yields %s, must be %s", l, ra, wantA))
						}
					}
				}
			}
		}
		report(nt, problems, nruns, npaths, "operand returned (not a boolean), right side evaluated only when needed, truth table exact on every atom")
	}

	// ---- comparators: per token and (left, right)
	{
		var problems []string
		nruns, npaths := 0, 0
		for _, tok := range []string{"tEQ", "tNE", "tLT", "tLTE", "tGT", "tGTE"} {
			for _, l := range logicAtoms {
				for _, rr := range logicAtoms {
					nruns++
					x := newX(fmt.Sprintf("comparator %s with operands (%s, %s)", tok, l, rr))
					x.hyp = atomHyp([]Atoms{l, rr})
					// the node's payload is the comparator token
					h := newHeap()
					node := x.nodeAV("ASTComparator")
					node.agg.fields[fValue] = AV{k: 'I', atoms: AOther, what: tok, n: c.tok(tok), nk: true}
					var outs []evalOutcome
					x.run(c.A.Exec, []AV{{k: 'P', tri: 2, what: "interp"}, node, valueAV(AObjN)}, h, pathInfo{}, func(rets []AV, h2 *Heap, p pathInfo, fin *frame) {
						if len(rets) == 2 {
							outs = append(outs, evalOutcome{ret: rets[0], err: rets[1], path: p, heap: h2})
						}
					})
					npaths += len(outs)
					problems = append(problems, generic(x.label, outs, false, false)...)
					for _, o := range outs {
						if o.hypFailed() || !o.isSucc() {
							continue
						}
						ra, _, _ := retAtoms(o)
						if len(o.path.calls) != 2 {
							problems = append(problems, fmt.Sprintf("%s %s %s: %d operand evaluations, both operands must be evaluated", l, tok, rr, len(o.path.calls)))
							continue
						}
						for _, hc := range o.path.calls {
							if hc.data.prov != "cur" {
								problems = append(problems, fmt.Sprintf("%s: operand evaluated against %s, must be the current node", tok, hc.data.prov))
							}
						}
						switch tok {
						case "tEQ", "tNE":
							if ra&^ABools != 0 || ra == 0 {
								problems = append(problems, fmt.Sprintf("%s %s %s yields %s, must be a boolean", l, tok, rr, ra))
							}
							eq, ne := deepEqualAtoms(l, rr)
							var wantA Atoms
							if eq {
								wantA |= ABoolT
							}
							if ne {
								wantA |= ABoolF
							}
							if tok == "tNE" {
								wantA = 0
								if eq {
									wantA |= ABoolF
								}
								if ne {
									wantA |= ABoolT
								}
							}
							if ra&^wantA != 0 {
								problems = append(problems, fmt.Sprintf("%s %s %s can yield %s; deep JSON equality allows only %s", l, tok, rr, ra&^wantA, wantA))
							}
						default:
							if l == ANum && rr == ANum {
								if ra&^ABools != 0 || ra == 0 {
									problems = append(problems, fmt.Sprintf("number %s number yields %s, must be a boolean", tok, ra))
								}
							} else if ra != ANull {
								problems = append(problems, fmt.Sprintf("%s %s %s yields %s, must be null (an operand is not a number)", l, tok, rr, ra))
							}
						}
					}
				}
			}
		}
		// order hypothesis: the left operand's number is below / equal to / above the right one's
		if mode == "json" {
			for _, tok := range []string{"tLT", "tLTE", "tGT", "tGTE"} {
				for _, rel := range []int{-1, 0, 1} {
					nruns++
					rel := rel
					relName := map[int]string{-1: "left < right", 0: "left == right", 1: "left > right"}[rel]
					x := newX(fmt.Sprintf("comparator %s on two numbers with %s", tok, relName))
					// the operand's side is read off the node argument (child 0 / child 1), not the call order
					x.hyp = func(x *Exec, callee *ssa.Function, call *ssa.Call, args []AV, p pathInfo) []hypOutcome {
						side := prov("operand?")
						for ai, av := range args {
							if c.isASTNode(callee.Params[ai].Type()) {
								switch av.what {
								case "node child(0)":
									side = "operandL"
								case "node child(1)":
									side = "operandR"
								}
							}
						}
						return []hypOutcome{{res: AV{k: 'I', atoms: ANum, prov: side}, err: AV{k: 'E', tri: 1}}}
					}
					x.ord = func(a, b prov) (int, bool) {
						switch {
						case a == "operandL" && b == "operandR":
							return rel, true
						case a == "operandR" && b == "operandL":
							return -rel, true
						case a == b && (a == "operandL" || a == "operandR"):
							return 0, true
						}
						return 0, false
					}
					h := newHeap()
					node := x.nodeAV("ASTComparator")
					node.agg.fields[fValue] = AV{k: 'I', atoms: AOther, what: tok, n: c.tok(tok), nk: true}
					var outs []evalOutcome
					x.run(c.A.Exec, []AV{{k: 'P', tri: 2, what: "interp"}, node, valueAV(AObjN)}, h, pathInfo{}, func(rets []AV, h2 *Heap, p pathInfo, fin *frame) {
						if len(rets) == 2 {
							outs = append(outs, evalOutcome{ret: rets[0], err: rets[1], path: p, heap: h2})
						}
					})
					npaths += len(outs)
					var want bool
					switch tok {
					case "tLT":
						want = rel < 0
					case "tLTE":
						want = rel <= 0
					case "tGT":
						want = rel > 0
					case "tGTE":
						want = rel >= 0
					}
					wantA := ABoolF
					if want {
						wantA = ABoolT
					}
					nsucc := 0
					for _, o := range outs {
						if !o.isSucc() {
							continue
						}
						nsucc++
						ra, _, _ := retAtoms(o)
						if ra != wantA {
							problems = append(problems, fmt.Sprintf("%s with %s yields %s, must be %s", tok, relName, ra, wantA))
						}
					}
					if nsucc == 0 {
						problems = append(problems, fmt.Sprintf("%s with %s: no success return", tok, relName))
					}
				}
			}
		}
		report("ASTComparator", problems, nruns, npaths, "both operands evaluated against the current node; ==/!= boolean for every kind pair and never equal across kinds; ordering comparators null unless both operands are numbers, and under each of the three orderings of two numbers every ordering comparator yields exactly its relation")
	}

	// ---- projections: per kind of the left-hand side's result
	type proj struct {
		nt     string
		lhsOK  Atoms  // kinds of the left result that are projected
		elemOf string // provenance of projected elements relative to res#1
		rhs    string
		filter bool
	}
	projs := []proj{
		{nt: "ASTProjection", lhsOK: arraysOf, elemOf: "elem(res#1)", rhs: "child(1)"},
		{nt: "ASTFilterProjection", lhsOK: arraysOf, elemOf: "elem(res#1)", rhs: "child(1)", filter: true},
		{nt: "ASTValueProjection", lhsOK: AObjects, elemOf: "member(res#1)", rhs: "child(1)"},
		{nt: "ASTFlatten", lhsOK: arraysOf},
	}
	for _, pj := range projs {
		var problems []string
		nruns, npaths := 0, 0
		conds := []Atoms{0}
		if pj.filter {
			conds = logicAtoms
		}
		for _, l := range logicAtoms {
			for _, cond := range conds {
				if pj.filter && cond != AObjN && l != AArrMix && l != ATSliceN {
					// the condition's kind matters for arrays; every other left-hand side is run once
					continue
				}
				nruns++
				x := newX(fmt.Sprintf("%s with left-hand side %s", pj.nt, l))
				seq := []Atoms{l, x.resUni}
				if pj.filter {
					x.label += fmt.Sprintf(" and condition %s", cond)
				}
				x.hyp = func(x *Exec, callee *ssa.Function, call *ssa.Call, args []AV, p pathInfo) []hypOutcome {
					k := len(p.calls)
					a := seq[1]
					if k == 0 {
						a = seq[0]
					}
					// the filter condition (child 2) returns cond
					if pj.filter {
						for ai, av := range args {
							if c.isASTNode(callee.Params[ai].Type()) && av.what == "node child(2)" {
								a = cond
							}
						}
					}
					return []hypOutcome{
						{res: AV{k: 'I', atoms: a, prov: prov(fmt.Sprintf("res#%d", k+1))}, err: AV{k: 'E', tri: 1}},
						{res: AV{k: 'I', atoms: ANull}, err: AV{k: 'E', tri: 2}},
					}
				}
				outs := c.runClause(x, pj.nt, valueAV(AObjN))
				npaths += len(outs)
				problems = append(problems, generic(x.label, outs, false, false)...)
				for _, o := range outs {
					if o.hypFailed() || !o.isSucc() {
						continue
					}
					ra, _, pv := retAtoms(o)
					if len(o.path.calls) == 0 || o.path.calls[0].node != "node child(0)" || o.path.calls[0].data.prov != "cur" {
						problems = append(problems, fmt.Sprintf("left-hand side: %s, must be child 0 evaluated against the current node", callsStr(o.path)))
						continue
					}
					if l&pj.lhsOK == 0 {
						if ra != ANull || len(o.path.calls) != 1 {
							problems = append(problems, fmt.Sprintf("left-hand side %s: yields %s after %s, must be null without projecting", l, ra, callsStr(o.path)))
						}
						continue
					}
					// projected: a fresh, non-nil array
					if ra&^AArrays != 0 || ra == 0 || pv != "" || o.ret.obj == 0 {
						problems = append(problems, fmt.Sprintf("left-hand side %s: result is %s@%s, must be a fresh array", l, ra, pv))
						continue
					}
					elems, has := listElems(o)
					if pj.nt == "ASTFlatten" {
						if has {
							for _, pp := range strings.Split(string(elems.prov), "+") {
								if pp == "" && mode == "go" {
									continue // nil elements of Go data normalised to null
								}
								if pp != "elem(res#1)" && pp != "elem(elem(res#1))" {
									problems = append(problems, fmt.Sprintf("flatten inserts %s; must be the elements of the left result, arrays among them expanded one level", pp))
								}
							}
						}
						continue
					}
					if has && elems.k == 'I' && elems.atoms&ANull != 0 {
						problems = append(problems, fmt.Sprintf("left-hand side %s: a null result can be inserted into the projection (nulls must be dropped)", l))
					}
					sawRHS := false
					for _, hc := range o.path.calls[1:] {
						if hc.data.prov == "" && hc.data.atoms == ANull {
							continue // a null standing for a nil element of Go data
						}
						// a zero slot of a pre-sized slice filled by index (make([]T, n);
						// s[i] = v): that every slot is overwritten is index arithmetic, not decided
						dp := strings.TrimSuffix(strings.TrimPrefix(string(hc.data.prov), "zero?+"), "+zero?")
						if dp == "zero?" {
							continue
						}
						if dp != pj.elemOf {
							problems = append(problems, fmt.Sprintf("%s is evaluated against %s; must be %s (each element of the left result, nothing else)", strings.TrimPrefix(hc.node, "node "), hc.data.prov, pj.elemOf))
						}
						if hc.node == "node "+pj.rhs {
							sawRHS = true
						}
					}
					if pj.filter && !o.path.more {
						// the right-hand side is evaluated for an element iff its condition is true-like
						for i, hc := range o.path.calls[1:] {
							if hc.node != "node child(2)" {
								continue
							}
							nextIsRHS := i+2 < len(o.path.calls) && o.path.calls[i+2].node == "node child(1)"
							if falseLike(cond) && nextIsRHS {
								problems = append(problems, fmt.Sprintf("filter keeps an element whose condition is %s (false-like)", cond))
							}
							if !falseLike(cond) && !nextIsRHS && i+2 <= len(o.path.calls) && i+2 < maxPathCalls {
								problems = append(problems, fmt.Sprintf("filter drops an element whose condition is %s (true-like)", cond))
							}
						}
					}
					if has && elems.k == 'I' {
						for _, pp := range strings.Split(string(elems.prov), "+") {
							if !strings.HasPrefix(pp, "res#") {
								problems = append(problems, fmt.Sprintf("the projection inserts %s; must insert the right-hand side's results", pp))
							}
						}
					}
					_ = sawRHS
				}
			}
		}
		report(pj.nt, problems, nruns, npaths, "left side evaluated on the current node; non-matching kinds yield null; elements threaded to the right side; nulls dropped; fresh non-nil array")
	}

	// exhaustiveness: every case label was covered above
	covered := map[string]bool{"ASTOrExpression": true, "ASTAndExpression": true, "ASTNotExpression": true, "ASTComparator": true}
	for _, s := range simples {
		covered[s.nt] = true
	}
	for _, p := range projs {
		covered[p.nt] = true
	}
	var missing []string
	for _, cl := range c.A.ExecSw.Clauses {
		for _, l := range cl.Labels {
			if !covered[l.Name] {
				missing = append(missing, l.Name)
			}
		}
	}
	sort.Strings(missing)
	for _, m := range missing {
		r.Instances++
		r.undecided("clause|"+m, c.pos(c.A.Exec.Pos()), fname(c.A.Exec), "the evaluator has a case the specification table of this rule does not know")
	}
	flushViol()
	c.reportEvents(r, agg, "K-EVAL/"+mode)
	return r
}

func (p prov) String() string { return string(p) }

// K-ALLELEMS: the evaluator's loops visit every child / element.
func init() {
	register("K-ALLELEMS", ruleAllElems)
	register("S-BINARY", ruleBinaryNodes)
}

func ruleAllElems(c *Ctx) *RuleResult {
	r := &RuleResult{Doc: "every loop of the evaluator and its helpers over the children of a node or over the elements of a value is left only by exhaustion (i < len) or by an error return: no success return is reachable from inside the loop without passing the exhaustion edge (no data-dependent break that would skip pipe stages, members, arguments or elements)", Floor: 8}
	for _, fn := range append([]*ssa.Function{c.A.Exec}, c.A.Helpers...) {
		n := 0
		for _, b := range fn.Blocks {
			ifi := blockIf(b)
			if ifi == nil {
				continue
			}
			bo, ok := ifi.Cond.(*ssa.BinOp)
			if !ok || bo.Op.String() != "<" {
				continue
			}
			call, ok := bo.Y.(*ssa.Call)
			if !ok {
				continue
			}
			isLen := false
			if bi, ok := call.Call.Value.(*ssa.Builtin); ok && bi.Name() == "len" {
				isLen = true
			}
			if calleeName(call) == "(reflect.Value).Len" {
				isLen = true
			}
			if !isLen {
				continue
			}
			// a loop header: some predecessor is dominated by b
			back := false
			for _, p := range b.Preds {
				if b.Dominates(p) {
					back = true
				}
			}
			if !back {
				continue
			}
			n++
			r.Instances++
			cl := ""
			if fn == c.A.Exec {
				for _, in := range b.Succs[0].Instrs {
					if k := c.A.ExecSw.clauseAt(instrPos(in)); k != nil {
						cl = k.Name()
						break
					}
				}
			}
			key := fmt.Sprintf("%s|%s|loop over %s#%d", fname(fn), cl, c.symStr(call.Call.Args[0], 0), n)
			done := b.Succs[1]
			body := b.Succs[0]
			bad := ""
			errSlot := errIndex(fn.Signature)
			for bb := range reachableFrom(body, map[*ssa.BasicBlock]bool{b: true}) {
				if ret := blockReturn(bb); ret != nil && errSlot >= 0 && isNilConst(retResults(ret)[errSlot]) {
					bad = "a success return at " + c.pos(ret.Pos()) + " is inside the loop"
				}
				for si, s := range bb.Succs {
					leaves := (s != b && !b.Dominates(s)) || (s == done && bb != b)
					if !leaves {
						continue
					}
					// an error exit: the edge taken when an error value is non-nil, from
					// which every return reports that failure (break + single exit)
					if ifi2 := blockIf(bb); ifi2 != nil {
						if bo2, ok := ifi2.Cond.(*ssa.BinOp); ok && (bo2.Op == token.NEQ || bo2.Op == token.EQL) {
							x, y := bo2.X, bo2.Y
							if isNilConst(x) {
								x, y = y, x
							}
							nonNilIdx := 0
							if bo2.Op == token.EQL {
								nonNilIdx = 1
							}
							if isNilConst(y) && isErrorType(x.Type()) && si == nonNilIdx {
								if why := c.allReturnsFail(fn, s, bb, map[ssa.Value]bool{x: true}, map[*ssa.BasicBlock]bool{b: true}); why == "" {
									continue
								}
							}
						}
					}
					if s == done && bb != b {
						bad = "the loop is left (break) at " + c.pos(bb.Instrs[len(bb.Instrs)-1].Pos()) + " before all elements are visited"
					} else {
						bad = "an edge leaves the loop to " + s.String() + " without exhausting it"
					}
				}
			}
			// a loop over the children of a node (pipe stages, multi-select
			// members, function arguments): every round evaluates its child — no
			// way back to the loop header that passes no evaluation
			if sl, isSl := call.Call.Args[0].Type().Underlying().(*types.Slice); bad == "" && isSl && c.isASTNode(sl.Elem()) {
				evals := map[*ssa.BasicBlock]bool{}
				for _, bb := range fn.Blocks {
					for _, in := range bb.Instrs {
						cl2, ok := in.(*ssa.Call)
						if !ok {
							continue
						}
						if sc := staticCallee(cl2); sc != nil {
							if sc == c.A.Exec {
								evals[bb] = true
							}
							for _, hf := range c.A.Helpers {
								if sc == hf {
									evals[bb] = true
								}
							}
						} else if cl2.Call.IsInvoke() && cl2.Call.Method.Name() == c.A.Exec.Name() {
							evals[bb] = true
						}
					}
				}
				seenB := map[*ssa.BasicBlock]bool{}
				var walk func(bb *ssa.BasicBlock)
				walk = func(bb *ssa.BasicBlock) {
					if bad != "" || seenB[bb] || evals[bb] {
						return
					}
					seenB[bb] = true
					for _, sb := range bb.Succs {
						if sb == b {
							bad = "a round of the loop over the node's children can go back to the loop header at " + c.pos(bb.Instrs[len(bb.Instrs)-1].Pos()) + " without evaluating its child: a pipe stage, member or argument can be skipped"
							return
						}
						if b.Dominates(sb) {
							walk(sb)
						}
					}
				}
				walk(body)
			}
			if bad == "" {
				r.ok(key, c.pos(bo.Pos()), fname(fn), "left only through i >= len or an error return")
			} else {
				r.viol(key, c.pos(bo.Pos()), fname(fn), bad)
			}
		}
	}
	return r
}

// S-BINARY: the infix handlers assemble the node the grammar says.
func ruleBinaryNodes(c *Ctx) *RuleResult {
	r := &RuleResult{Doc: "led: each binary operator's success return is a node of that operator's type whose children are exactly (the left node, the parsed right operand); the prefix operators ! and & build their own node over the parsed operand", Floor: 8}
	fn := c.A.Led
	sw, _ := c.switchLabels(fn, c.A.TokT)
	want := map[string]string{"tPipe": "ASTPipe", "tOr": "ASTOrExpression", "tAnd": "ASTAndExpression", "tEQ": "ASTComparator", "tDot": "ASTSubexpression|ASTValueProjection", "tFlatten": "ASTProjection"}
	var nodeParam *ssa.Parameter
	for _, p := range fn.Params {
		if c.isASTNode(p.Type()) {
			nodeParam = p
		}
	}
	for _, b := range fn.Blocks {
		ret := blockReturn(b)
		if ret == nil {
			continue
		}
		cl := sw.clauseAt(instrPos(ret))
		if cl == nil || len(cl.Labels) == 0 {
			continue
		}
		wantOf := func(label string) (string, bool) {
			if w, ok := want[label]; ok {
				return w, true
			}
			if specRank[label] == specRank["tEQ"] && specRank[label] > 0 {
				return want["tEQ"], true
			}
			return "", false
		}
		if _, ok := wantOf(cl.Labels[0].Name); !ok {
			continue
		}
		res := retResults(ret)
		if sh := c.nodeShapeOf(res[0]); sh != nil && sh.Zero {
			continue // error return
		}
		r.Instances += len(cl.Labels)
		key := fmt.Sprintf("led|%s|return@%s", cl.Name(), c.symStr(res[0], 0))
		pos := c.pos(ret.Pos())
		bns, ok := c.builtNodes(res[0])
		if !ok {
			r.viol(key, pos, fname(fn), "the "+cl.Name()+" handler can return a node it did not build here ("+c.symStr(res[0], 0)+"): the operator would vanish from the tree")
			continue
		}
		bad := ""
		desc := ""
		for _, bn := range bns {
			sh := bn.shape
			// the node type, operator by operator (a type picked by an inner
			// switch on the token is read under that token's label)
			okType := true
			for _, l := range cl.Labels {
				w, has := wantOf(l.Name)
				if !has {
					okType = false
					continue
				}
				got := []string{sh.NodeType}
				if sh.NodeTypeVal != nil {
					got = nil
					if ks, ok := c.constsFor(sh.NodeTypeVal, []namedConst{l}); ok {
						for _, k := range ks {
							got = append(got, c.A.NTName[k])
						}
					} else {
						okType = false
					}
				}
				for _, g := range got {
					hit := false
					for _, t := range strings.Split(w, "|") {
						if g == t {
							hit = true
						}
					}
					if !hit {
						okType = false
					}
				}
			}
			// children: first is the left parameter (or, for flatten, a flatten node over it), second a parse result
			okKids := sh.Arity == 2 && len(sh.Elems) == 2
			if okKids {
				okKids = c.valueIsParam(c.builtChild(bn, 0), nodeParam, cl.Labels[0].Name == "tFlatten") && c.valueIsParseResult(c.builtChild(bn, 1))
			}
			desc = sh.String()
			if len(sh.NodeTypeAlts) > 1 {
				desc = strings.Join(sh.NodeTypeAlts, "/") + " by operator, " + desc
			}
			if !(okType && okKids) {
				bad = fmt.Sprintf("the %s handler returns %s (type ok=%v, children (left, right) ok=%v)", cl.Name(), sh, okType, okKids)
			}
		}
		if bad == "" {
			r.ok(key, pos, fname(fn), desc+" with children (left, parsed right operand)")
		} else {
			r.viol(key, pos, fname(fn), bad)
		}
	}
	// prefix operators in nud: the node of that operator over the parsed operand
	nud := c.A.Nud
	nsw, _ := c.switchLabels(nud, c.A.TokT)
	wantPrefix := map[string]string{"tNot": "ASTNotExpression", "tExpref": "ASTExpRef"}
	if nsw != nil {
		for _, b := range nud.Blocks {
			ret := blockReturn(b)
			if ret == nil {
				continue
			}
			cl := nsw.clauseAt(instrPos(ret))
			if cl == nil || len(cl.Labels) == 0 {
				continue
			}
			w, ok := wantPrefix[cl.Labels[0].Name]
			if !ok {
				continue
			}
			res := retResults(ret)
			if sh := c.nodeShapeOf(res[0]); sh != nil && sh.Zero {
				continue // error return
			}
			r.Instances++
			key := fmt.Sprintf("nud|%s|return@%s", cl.Name(), c.symStr(res[0], 0))
			pos := c.pos(ret.Pos())
			bns, ok := c.builtNodes(res[0])
			if !ok {
				r.viol(key, pos, fname(nud), "the "+cl.Name()+" handler can return a node it did not build here ("+c.symStr(res[0], 0)+"): the prefix operator would vanish from the tree or be rewritten")
				continue
			}
			bad, desc := "", ""
			for _, bn := range bns {
				sh := bn.shape
				okKids := sh.Arity == 1 && len(sh.Elems) == 1 && c.valueIsParseResult(c.builtChild(bn, 0))
				desc = sh.String()
				if !(sh.NodeType == w && okKids) {
					bad = fmt.Sprintf("the %s handler returns %s (type ok=%v, child is the parsed operand=%v)", cl.Name(), sh, sh.NodeType == w, okKids)
				}
			}
			if bad == "" {
				r.ok(key, pos, fname(nud), desc+" with the parsed operand as its only child")
			} else {
				r.viol(key, pos, fname(nud), bad)
			}
		}
	}
	return r
}

// childStores: the value stored as child k of the node built at the location loaded by v.
func (c *Ctx) childValue(v ssa.Value, k int) ssa.Value {
	ld, ok := v.(*ssa.UnOp)
	if !ok {
		return nil
	}
	evs, _ := c.prodEvents(ld.X)
	for _, ev := range evs {
		for _, kids := range ev.fields[fChildren] {
			sl, ok := kids.(*ssa.Slice)
			if !ok {
				return nil
			}
			al, ok := sl.X.(*ssa.Alloc)
			if !ok {
				return nil
			}
			for _, rf := range *al.Referrers() {
				ia, ok := rf.(*ssa.IndexAddr)
				if !ok {
					continue
				}
				if kk, ok := constInt(ia.Index); !ok || int(kk) != k {
					continue
				}
				for _, rr := range *ia.Referrers() {
					if st, ok := rr.(*ssa.Store); ok && st.Addr == ia {
						return st.Val
					}
				}
			}
		}
	}
	return nil
}

func (c *Ctx) childIs(fn *ssa.Function, node ssa.Value, k int, param *ssa.Parameter, viaFlatten bool) bool {
	return c.valueIsParam(c.childValue(node, k), param, viaFlatten)
}

func (c *Ctx) valueIsParam(v ssa.Value, param *ssa.Parameter, viaFlatten bool) bool {
	if v == nil {
		return false
	}
	isParam := func(x ssa.Value) bool {
		if x == param {
			return true
		}
		if ld, ok := x.(*ssa.UnOp); ok {
			if al, ok := ld.X.(*ssa.Alloc); ok && paramSpill(param) == al {
				return true
			}
		}
		return false
	}
	if isParam(v) {
		return !viaFlatten
	}
	if viaFlatten {
		if sh := c.nodeShapeOf(v); sh != nil && sh.NodeType == "ASTFlatten" {
			inner := c.childValue(v, 0)
			return inner != nil && isParam(inner)
		}
	}
	return false
}

func (c *Ctx) childIsParseResult(fn *ssa.Function, node ssa.Value, k int) bool {
	return c.valueIsParseResult(c.childValue(node, k))
}

func (c *Ctx) valueIsParseResult(v ssa.Value) bool {
	ex, ok := v.(*ssa.Extract)
	if !ok || ex.Index != 0 {
		return false
	}
	call, ok := ex.Tuple.(*ssa.Call)
	if !ok {
		return false
	}
	sc := staticCallee(call)
	return sc == c.A.ParseExpr || sc == c.A.ParseDotRHS || sc == c.A.ParseProjRHS
}

// builtNode: a node value returned by a handler, followed through at most
// one constructor helper (a library function that builds the node from its
// parameters); child values are translated back to the caller's values.
type builtNode struct {
	val   ssa.Value
	shape *NodeShape
	subst map[*ssa.Parameter]ssa.Value // helper parameter -> caller argument
}

func (c *Ctx) builtNodes(v ssa.Value) ([]builtNode, bool) {
	return c.builtNodesRec(v, nil, 0)
}

// translate: a value of a helper expressed in the outermost caller's terms
// (a helper parameter becomes the argument it was called with).
func translate(v ssa.Value, subst map[*ssa.Parameter]ssa.Value) ssa.Value {
	if v == nil || subst == nil {
		return v
	}
	for p, arg := range subst {
		if v == p {
			return arg
		}
		if ld, ok := v.(*ssa.UnOp); ok {
			if al, ok := ld.X.(*ssa.Alloc); ok && paramSpill(p) == al {
				return arg
			}
		}
	}
	return v
}

func (c *Ctx) builtNodesRec(v ssa.Value, outer map[*ssa.Parameter]ssa.Value, depth int) ([]builtNode, bool) {
	if sh := c.nodeShapeOf(v); sh != nil {
		if sh.NodeTypeParam != nil && outer != nil {
			if k, ok := constInt(outer[sh.NodeTypeParam]); ok {
				cp := *sh
				cp.NodeType = c.A.NTName[k]
				sh = &cp
			}
		}
		return []builtNode{{val: v, shape: sh, subst: outer}}, true
	}
	var call *ssa.Call
	switch x := v.(type) {
	case *ssa.Call:
		call = x
	case *ssa.Extract:
		if x.Index == 0 {
			call, _ = x.Tuple.(*ssa.Call)
		}
	}
	if call == nil || depth > 4 {
		return nil, false
	}
	callee := staticCallee(call)
	if callee == nil || callee.Pkg != c.SLib || callee.Blocks == nil {
		return nil, false
	}
	switch callee {
	case c.A.ParseExpr, c.A.Nud, c.A.Led, c.A.ParseDotRHS, c.A.ParseProjRHS, c.A.Parse:
		return nil, false // a parsed operand, not a node built for this operator
	}
	subst := map[*ssa.Parameter]ssa.Value{}
	for i, p := range callee.Params {
		if i < len(call.Call.Args) {
			subst[p] = translate(call.Call.Args[i], outer)
		}
	}
	var out []builtNode
	for _, b := range callee.Blocks {
		ret := blockReturn(b)
		if ret == nil {
			continue
		}
		res := retResults(ret)
		if len(res) == 0 || !c.isASTNode(res[0].Type()) {
			return nil, false
		}
		if sh := c.nodeShapeOf(res[0]); sh != nil && sh.Zero {
			continue
		}
		sub, ok := c.builtNodesRec(res[0], subst, depth+1)
		if !ok {
			return nil, false
		}
		out = append(out, sub...)
	}
	return out, len(out) > 0
}

// child: the caller-level value stored as child k.
func (c *Ctx) builtChild(bn builtNode, k int) ssa.Value {
	return translate(c.childValue(bn.val, k), bn.subst)
}
