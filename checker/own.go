package main

import (
	"fmt"
	"go/token"
	"go/types"
	"os"
	"sort"
	"strings"

	"golang.org/x/tools/go/ssa"
)

// Own: whole-program, flow-insensitive, allocation-site points-to analysis of
// the library with field-sensitive heap objects, used as a *mod* analysis:
// which instruction may write which abstract object (DESIGN §3.5).
//
// Objects: one per allocation site; one per package-level variable; blobs
// DOC (everything reachable from the document given to Search), LIT@site
// (a value decoded by json.Unmarshal), EXT@site (memory returned by an
// unmodelled-but-pure library call). A blob contains only itself.
// Locations: (object, key) with key "" (the cell / whole value), "f<i>" (a
// top-level struct field) or "[]" (all elements). Struct *values* carried in
// SSA registers are collapsed to the union of the locations they refer to.

type OObj struct {
	id    int
	kind  string // alloc, global, blob
	label string
	fn    *ssa.Function // allocating function
	pos   token.Pos
	blob  bool
	strct bool       // an Alloc/New of struct type: has field keys
	typ   types.Type // element type of an Alloc
}

type OLoc struct {
	o *OObj
	k string
}

type LocSet map[OLoc]struct{}

func (s LocSet) add(l OLoc) bool {
	if _, ok := s[l]; ok {
		return false
	}
	s[l] = struct{}{}
	return true
}

type writeEvent struct {
	in   ssa.Instruction
	fn   *ssa.Function
	loc  OLoc
	what string
}

type tupKey struct {
	v ssa.Value
	i int
}

type OwnEngine struct {
	c       *Ctx
	objs    []*OObj
	site    map[interface{}]*OObj
	pts     map[ssa.Value]LocSet
	tup     map[tupKey]LocSet
	heap    map[*OObj]map[string]LocSet
	rets    map[*ssa.Function][]LocSet
	writes  map[string]writeEvent
	calls   map[*ssa.Function]map[*ssa.Function]bool
	unknown map[string]token.Pos // unmodelled callees
	changed bool
	DOC     *OObj
	funcs   []*ssa.Function
	iters   int
}

func (e *OwnEngine) newObj(key interface{}, kind, label string, fn *ssa.Function, pos token.Pos) *OObj {
	if o, ok := e.site[key]; ok {
		return o
	}
	o := &OObj{id: len(e.objs), kind: kind, label: label, fn: fn, pos: pos, blob: kind == "blob"}
	e.objs = append(e.objs, o)
	e.site[key] = o
	return o
}

func pointerLike(t types.Type) bool {
	switch t := t.Underlying().(type) {
	case *types.Pointer, *types.Slice, *types.Map, *types.Interface, *types.Chan, *types.Signature:
		return true
	case *types.Struct:
		for i := 0; i < t.NumFields(); i++ {
			if pointerLike(t.Field(i).Type()) {
				return true
			}
		}
	case *types.Array:
		return pointerLike(t.Elem())
	case *types.Tuple:
		for i := 0; i < t.Len(); i++ {
			if pointerLike(t.At(i).Type()) {
				return true
			}
		}
	}
	return false
}

func (e *OwnEngine) P(v ssa.Value) LocSet {
	if s, ok := e.pts[v]; ok {
		return s
	}
	s := LocSet{}
	e.pts[v] = s
	switch v := v.(type) {
	case *ssa.Global:
		o := e.newObj(v, "global", "global "+v.Name(), nil, v.Pos())
		s.add(OLoc{o, ""})
	case *ssa.Function:
		// function values carry no heap
	}
	return s
}

func (e *OwnEngine) T(v ssa.Value, i int) LocSet {
	k := tupKey{v, i}
	if s, ok := e.tup[k]; ok {
		return s
	}
	s := LocSet{}
	e.tup[k] = s
	return s
}

func (e *OwnEngine) H(l OLoc) LocSet {
	m := e.heap[l.o]
	if m == nil {
		m = map[string]LocSet{}
		e.heap[l.o] = m
	}
	if s, ok := m[l.k]; ok {
		return s
	}
	s := LocSet{}
	m[l.k] = s
	return s
}

func union(dst, src LocSet) {
	for l := range src {
		dst[l] = struct{}{}
	}
}

func (e *OwnEngine) flow(dst, src LocSet) {
	for l := range src {
		if dst.add(l) {
			e.changed = true
		}
	}
}

// read: what a load from location l may yield.
func (e *OwnEngine) read(l OLoc) LocSet {
	out := LocSet{}
	if l.o.blob {
		out.add(OLoc{l.o, ""})
		return out
	}
	for x := range e.H(l) {
		out.add(x)
	}
	if l.k != "" {
		for x := range e.H(OLoc{l.o, ""}) {
			out.add(x)
		}
	} else {
		for _, s := range e.heap[l.o] {
			for x := range s {
				out.add(x)
			}
		}
	}
	return out
}

func (e *OwnEngine) readAll(s LocSet) LocSet {
	out := LocSet{}
	for l := range s {
		for x := range e.read(l) {
			out.add(x)
		}
	}
	return out
}

// elems: the element locations of the containers in s.
func elemLocs(s LocSet) LocSet {
	out := LocSet{}
	for l := range s {
		if l.k == "" {
			out.add(OLoc{l.o, "[]"})
		} else {
			out.add(l)
		}
	}
	return out
}

func (e *OwnEngine) store(addr LocSet, val LocSet, in ssa.Instruction, what string) {
	for l := range addr {
		e.recordWrite(in, l, what)
		if l.o.blob {
			continue
		}
		e.flow(e.H(l), val)
	}
}

func (e *OwnEngine) recordWrite(in ssa.Instruction, l OLoc, what string) {
	key := fmt.Sprintf("%p|%d|%s", in, l.o.id, l.k)
	if _, ok := e.writes[key]; !ok {
		e.writes[key] = writeEvent{in, in.Parent(), l, what}
	}
}

func (e *OwnEngine) addCall(from, to *ssa.Function) {
	m := e.calls[from]
	if m == nil {
		m = map[*ssa.Function]bool{}
		e.calls[from] = m
	}
	m[to] = true
}

func (c *Ctx) Own() *OwnEngine {
	if c.own != nil && c.own.c != nil {
		return c.own
	}
	e := &OwnEngine{c: c, site: map[interface{}]*OObj{}, pts: map[ssa.Value]LocSet{}, tup: map[tupKey]LocSet{},
		heap: map[*OObj]map[string]LocSet{}, rets: map[*ssa.Function][]LocSet{}, writes: map[string]writeEvent{},
		calls: map[*ssa.Function]map[*ssa.Function]bool{}, unknown: map[string]token.Pos{}}
	c.own = e
	e.DOC = e.newObj("DOC", "blob", "the document passed to Search", nil, token.NoPos)
	e.funcs = append(allFuncs(c.SLib), allFuncs(c.SCLI)...)
	// the package initialiser populates the globals
	if init := c.SLib.Func("init"); init != nil {
		found := false
		for _, f := range e.funcs {
			if f == init {
				found = true
			}
		}
		if !found {
			e.funcs = append(e.funcs, init)
		}
	}
	// API seeds
	e.P(c.A.Search.Params[1]).add(OLoc{e.DOC, ""})
	e.P(c.A.JPSearch.Params[1]).add(OLoc{e.DOC, ""})
	for it := 0; it < 200; it++ {
		e.changed = false
		e.iters++
		// seeds that depend on computed sets
		e.flow(e.P(c.A.JPSearch.Params[0]), e.ret(c.A.Compile, 0))
		e.flow(e.P(c.A.JPSearch.Params[0]), e.ret(c.A.MustCompile, 0))
		e.flow(e.P(c.A.Parse.Params[0]), e.ret(c.A.NewParser, 0))
		for _, fn := range e.funcs {
			before := e.changed
			e.changed = false
			e.doFunc(fn)
			if e.changed && it > 50 && os.Getenv("OWN_DEBUG") != "" {
				fmt.Println("iter", it, "changed in", fname(fn))
			}
			e.changed = e.changed || before
		}
		if os.Getenv("OWN_DEBUG") != "" {
			n, h := 0, 0
			for _, s := range e.pts {
				n += len(s)
			}
			for _, m := range e.heap {
				for _, s := range m {
					h += len(s)
				}
			}
			fmt.Println("pass", it, "pts", n, "heap", h, "objs", len(e.objs), "tup", len(e.tup))
		}
		if !e.changed {
			break
		}
	}
	return e
}

func (e *OwnEngine) ret(fn *ssa.Function, i int) LocSet {
	r := e.rets[fn]
	for len(r) <= i {
		r = append(r, LocSet{})
	}
	e.rets[fn] = r
	return r[i]
}

func (e *OwnEngine) valSet(v ssa.Value) LocSet {
	if !pointerLike(v.Type()) {
		return LocSet{}
	}
	return e.P(v)
}

func (e *OwnEngine) doFunc(fn *ssa.Function) {
	c := e.c
	for _, b := range fn.Blocks {
		for _, in := range b.Instrs {
			switch in := in.(type) {
			case *ssa.Alloc:
				o := e.newObj(in, "alloc", "local/new "+in.Comment+" in "+fname(fn), fn, in.Pos())
				o.typ = in.Type().(*types.Pointer).Elem()
				if _, ok := o.typ.Underlying().(*types.Struct); ok {
					o.strct = true
				}
				if e.P(in).add(OLoc{o, ""}) {
					e.changed = true
				}
			case *ssa.MakeSlice:
				o := e.newObj(in, "alloc", "make slice in "+fname(fn), fn, in.Pos())
				if e.P(in).add(OLoc{o, ""}) {
					e.changed = true
				}
			case *ssa.MakeMap:
				o := e.newObj(in, "alloc", "make map in "+fname(fn), fn, in.Pos())
				if e.P(in).add(OLoc{o, ""}) {
					e.changed = true
				}
			case *ssa.FieldAddr:
				dst := e.P(in)
				for l := range e.P(in.X) {
					if l.k == "" && l.o.strct {
						if dst.add(OLoc{l.o, fmt.Sprintf("f%d", in.Field)}) {
							e.changed = true
						}
					} else if dst.add(l) {
						e.changed = true
					}
				}
			case *ssa.IndexAddr:
				e.flow(e.P(in), elemLocs(e.P(in.X)))
			case *ssa.Field:
				if pointerLike(in.Type()) {
					e.flow(e.P(in), e.P(in.X))
				}
			case *ssa.Index:
				if pointerLike(in.Type()) {
					// indexing an array value or a string
					e.flow(e.P(in), e.P(in.X))
				}
			case *ssa.Lookup:
				if _, isMap := in.X.Type().Underlying().(*types.Map); isMap {
					v := e.readAll(elemLocs(e.P(in.X)))
					if in.CommaOk {
						e.flow(e.T(in, 0), v)
					} else if pointerLike(in.Type()) {
						e.flow(e.P(in), v)
					}
				}
			case *ssa.UnOp:
				if in.Op == token.MUL && pointerLike(in.Type()) {
					e.flow(e.P(in), e.readAll(e.P(in.X)))
				}
			case *ssa.Store:
				if pointerLike(in.Val.Type()) {
					e.store(e.P(in.Addr), e.P(in.Val), in, "store")
				} else {
					e.store(e.P(in.Addr), LocSet{}, in, "store")
				}
			case *ssa.MapUpdate:
				v := LocSet{}
				if pointerLike(in.Value.Type()) {
					union(v, e.P(in.Value))
				}
				if pointerLike(in.Key.Type()) {
					union(v, e.P(in.Key))
				}
				e.store(elemLocs(e.P(in.Map)), v, in, "map update")
			case *ssa.Phi:
				if pointerLike(in.Type()) {
					for _, ed := range in.Edges {
						e.flow(e.P(in), e.valSet(ed))
					}
				}
			case *ssa.ChangeType:
				e.flow(e.P(in), e.valSet(in.X))
			case *ssa.ChangeInterface:
				e.flow(e.P(in), e.valSet(in.X))
			case *ssa.MakeInterface:
				e.flow(e.P(in), e.valSet(in.X))
			case *ssa.Convert:
				// []byte(s), []rune(s): fresh; string(b): immutable copy
				if _, ok := in.Type().Underlying().(*types.Slice); ok {
					o := e.newObj(in, "alloc", "conversion to slice in "+fname(fn), fn, in.Pos())
					if e.P(in).add(OLoc{o, ""}) {
						e.changed = true
					}
				}
			case *ssa.TypeAssert:
				src := e.valSet(in.X)
				// an assertion to a pointer to one of the library's own struct
				// types can only yield objects allocated with that type
				if pt, ok := in.AssertedType.(*types.Pointer); ok {
					if nt, ok := pt.Elem().(*types.Named); ok && nt.Obj().Pkg() == e.c.Lib.Types {
						f := LocSet{}
						for l := range src {
							if l.o.kind == "alloc" && l.o.typ != nil && types.Identical(l.o.typ, nt) && l.k == "" {
								f.add(l)
							}
						}
						src = f
					}
				}
				if in.CommaOk {
					e.flow(e.T(in, 0), src)
				} else if pointerLike(in.Type()) {
					e.flow(e.P(in), src)
				}
			case *ssa.Extract:
				if pointerLike(in.Type()) {
					e.flow(e.P(in), e.T(in.Tuple, in.Index))
				}
			case *ssa.Slice:
				// slicing a slice/array pointer/string keeps the backing object
				if pointerLike(in.Type()) {
					e.flow(e.P(in), e.P(in.X))
				}
			case *ssa.Range:
				e.flow(e.P(in), e.valSet(in.X))
			case *ssa.Next:
				// (ok, key, value)
				if !in.IsString {
					e.flow(e.T(in, 2), e.readAll(elemLocs(e.P(in.Iter))))
				}
			case *ssa.Return:
				for i, v := range retResults(in) {
					if pointerLike(v.Type()) {
						e.flow(e.ret(fn, i), e.P(v))
					}
				}
			case *ssa.Call:
				e.doCall(fn, in)
			case *ssa.Defer:
				// deferred calls: treat like calls for effects
				e.unknownCall(fn, in, "defer")
			case *ssa.Go:
				e.unknownCall(fn, in, "go")
			case *ssa.MakeClosure:
				// binding i is free variable i of the literal, wherever it is called
				if cf, ok := in.Fn.(*ssa.Function); ok {
					for i, b := range in.Bindings {
						if i < len(cf.FreeVars) && pointerLike(cf.FreeVars[i].Type()) {
							e.flow(e.P(cf.FreeVars[i]), e.valSet(b))
						}
					}
				}
				for _, b := range in.Bindings {
					e.flow(e.P(in), e.valSet(b))
				}
			}
		}
	}
	_ = c
}

func (e *OwnEngine) unknownCall(fn *ssa.Function, in ssa.Instruction, what string) {
	e.unknown[what+" in "+fname(fn)] = in.Pos()
}

func (e *OwnEngine) bindCall(caller *ssa.Function, call *ssa.Call, callee *ssa.Function, args []ssa.Value) {
	e.addCall(caller, callee)
	for i, p := range callee.Params {
		if i < len(args) && pointerLike(p.Type()) {
			e.flow(e.P(p), e.valSet(args[i]))
		}
	}
	n := callee.Signature.Results().Len()
	for i := 0; i < n; i++ {
		if !pointerLike(callee.Signature.Results().At(i).Type()) {
			continue
		}
		if n == 1 {
			e.flow(e.P(call), e.ret(callee, i))
		} else {
			e.flow(e.T(call, i), e.ret(callee, i))
		}
	}
}

// fresh result object for a call
func (e *OwnEngine) freshResult(call *ssa.Call, idx int, label string) {
	o := e.newObj(tupKey{call, idx}, "alloc", label+" in "+fname(call.Parent()), call.Parent(), call.Pos())
	n := call.Call.Signature().Results().Len()
	var dst LocSet
	if n == 1 {
		dst = e.P(call)
	} else {
		dst = e.T(call, idx)
	}
	if dst.add(OLoc{o, ""}) {
		e.changed = true
	}
}

func (e *OwnEngine) setResult(call *ssa.Call, idx int, s LocSet) {
	n := call.Call.Signature().Results().Len()
	if n == 1 {
		e.flow(e.P(call), s)
	} else {
		e.flow(e.T(call, idx), s)
	}
}

func (e *OwnEngine) doCall(fn *ssa.Function, call *ssa.Call) {
	c := e.c
	cc := call.Common()
	if b, ok := cc.Value.(*ssa.Builtin); ok {
		switch b.Name() {
		case "append":
			base := e.valSet(cc.Args[0])
			// a write into the spare capacity of the base's backing array
			for l := range elemLocs(base) {
				e.recordWrite(call, l, "append (may write into the spare capacity of its first argument)")
			}
			o := e.newObj(call, "alloc", "append result in "+fname(fn), fn, call.Pos())
			res := e.P(call)
			if res.add(OLoc{o, ""}) {
				e.changed = true
			}
			e.flow(res, base)
			el := OLoc{o, "[]"}
			e.flow(e.H(el), e.readAll(elemLocs(base)))
			if len(cc.Args) > 1 {
				if _, isStr := cc.Args[1].Type().Underlying().(*types.Basic); !isStr {
					e.flow(e.H(el), e.readAll(elemLocs(e.valSet(cc.Args[1]))))
				}
			}
			// the appended elements also land in the base's backing arrays
			for l := range elemLocs(base) {
				if !l.o.blob {
					e.flow(e.H(l), e.H(el))
				}
			}
		case "copy":
			dst := elemLocs(e.valSet(cc.Args[0]))
			var src LocSet = LocSet{}
			if _, isStr := cc.Args[1].Type().Underlying().(*types.Basic); !isStr {
				src = e.readAll(elemLocs(e.valSet(cc.Args[1])))
			}
			e.store(dst, src, call, "copy")
		case "delete":
			for l := range elemLocs(e.valSet(cc.Args[0])) {
				e.recordWrite(call, l, "delete")
			}
		case "len", "cap", "panic", "print", "println", "min", "max", "ssa:wrapnilchk", "recover", "real", "imag", "complex", "clear":
			if b.Name() == "clear" {
				for l := range elemLocs(e.valSet(cc.Args[0])) {
					e.recordWrite(call, l, "clear")
				}
			}
		default:
			e.unknown["builtin "+b.Name()] = call.Pos()
		}
		return
	}
	if cc.IsInvoke() {
		switch cc.Method.Name() {
		case "Error", "String":
			// the library's own implementations are analysed like static callees
			// (their effects, if any, are attributed); foreign ones only read
			for _, m := range e.funcs {
				if m.Name() == cc.Method.Name() && m.Signature.Recv() != nil && m.Pkg == c.SLib && len(m.Params) == 1 {
					e.addCall(fn, m)
					if pointerLike(m.Params[0].Type()) {
						e.flow(e.P(m.Params[0]), e.valSet(cc.Value))
					}
				}
			}
			return
		}
		if n, ok := cc.Value.Type().(*types.Named); ok && n.Obj().Pkg() != nil && n.Obj().Pkg().Path() == "reflect" && n.Obj().Name() == "Type" {
			return // reflect.Type methods are read-only
		}
		// an interface of the library itself: every library type that implements it
		// may be the receiver (class-hierarchy resolution)
		if iface, ok := cc.Value.Type().Underlying().(*types.Interface); ok {
			n := 0
			for _, pk := range []*ssa.Package{c.SLib, c.SCLI} {
				if pk == nil {
					continue
				}
				for _, mem := range pk.Members {
					tn, ok := mem.(*ssa.Type)
					if !ok {
						continue
					}
					for _, T := range []types.Type{tn.Type(), types.NewPointer(tn.Type())} {
						if !types.Implements(T, iface) {
							continue
						}
						m := c.Prog.LookupMethod(T, cc.Method.Pkg(), cc.Method.Name())
						if m == nil || m.Blocks == nil {
							continue
						}
						e.addCall(fn, m)
						if len(m.Params) > 0 && pointerLike(m.Params[0].Type()) {
							e.flow(e.P(m.Params[0]), e.valSet(cc.Value))
							e.flow(e.P(m.Params[0]), e.readAll(e.valSet(cc.Value)))
						}
						for i, p := range m.Params[1:] {
							if i < len(cc.Args) && pointerLike(p.Type()) {
								e.flow(e.P(p), e.valSet(cc.Args[i]))
							}
						}
						nres := m.Signature.Results().Len()
						for ri := 0; ri < nres; ri++ {
							if pointerLike(m.Signature.Results().At(ri).Type()) {
								if nres == 1 {
									e.flow(e.P(call), e.ret(m, ri))
								} else {
									e.flow(e.T(call, ri), e.ret(m, ri))
								}
							}
						}
						n++
					}
				}
			}
			if n > 0 {
				return
			}
		}
		e.unknown["interface call "+cc.Method.FullName()+" in "+fname(fn)] = call.Pos()
		return
	}
	callee := cc.StaticCallee()
	if callee == nil {
		// dynamic: the handler slot of the function table
		if sig, ok := cc.Value.Type().Underlying().(*types.Signature); ok && sig.Params().Len() == 1 {
			n := 0
			for _, te := range c.table() {
				if te.Handler != nil && types.Identical(te.Handler.Signature, sig) {
					e.bindCall(fn, call, te.Handler, cc.Args)
					n++
				}
			}
			if n > 0 {
				return
			}
		}
		// a function value of some other type: any library function or function
		// literal of identical signature may be the target (signature-based
		// resolution, an over-approximation). A literal's free variables see
		// whatever the closure value carries (MakeClosure flows its bindings
		// into the value's set).
		if sig, ok := cc.Value.Type().Underlying().(*types.Signature); ok {
			n := 0
			for _, cand := range e.funcs {
				if cand.Blocks == nil {
					continue
				}
				if cand.Signature.Recv() != nil {
					// a method expression (*T).m has the receiver as its first parameter
					if !methodExprSigMatches(cand.Signature, sig) {
						continue
					}
				} else if !types.Identical(cand.Signature, sig) {
					continue
				}
				if cand.Pkg != c.SLib && cand.Pkg != c.SCLI && !(cand.Parent() != nil) {
					continue
				}
				e.bindCall(fn, call, cand, cc.Args)
				n++
			}
			if n > 0 {
				return
			}
		}
		e.unknown["dynamic call in "+fname(fn)] = call.Pos()
		return
	}
	if callee.Pkg == c.SLib || callee.Pkg == c.SCLI {
		if callee.Blocks != nil {
			e.bindCall(fn, call, callee, cc.Args)
			return
		}
	}
	e.model(fn, call, callee)
}

// model: effects of standard-library callees (DESIGN §3.9). Anything not
// listed is an "unknown effect" and fails the run.
func (e *OwnEngine) model(fn *ssa.Function, call *ssa.Call, callee *ssa.Function) {
	c := e.c
	name := qualName(callee)
	args := call.Call.Args
	pkg := ""
	if callee.Pkg != nil {
		pkg = callee.Pkg.Pkg.Path()
	} else if o := callee.Object(); o != nil && o.Pkg() != nil {
		pkg = o.Pkg().Path()
	}
	if callee.Name() == "init" && callee.Signature.Recv() == nil && callee.Signature.Params().Len() == 0 {
		return // initialiser of an imported package: touches only that package's own state
	}
	switch pkg {
	case "strings", "strconv", "math", "unicode", "unicode/utf8", "errors":
		// read their arguments; results are fresh or immutable
		for i := 0; i < callee.Signature.Results().Len(); i++ {
			if pointerLike(callee.Signature.Results().At(i).Type()) {
				e.freshResult(call, i, "result of "+name)
			}
		}
		return
	}
	switch name {
	case "fmt.Sprintf", "fmt.Errorf", "fmt.Sprint", "fmt.Sprintln":
		for i := 0; i < callee.Signature.Results().Len(); i++ {
			if pointerLike(callee.Signature.Results().At(i).Type()) {
				e.freshResult(call, i, "result of "+name)
			}
		}
		return
	case "fmt.Fprintf", "fmt.Fprintln", "fmt.Fprint", "fmt.Printf", "fmt.Println", "fmt.Print":
		return // write to an output stream; read their operands
	case "encoding/json.Marshal", "encoding/json.MarshalIndent":
		e.freshResult(call, 0, "result of "+name)
		return
	case "encoding/json.Unmarshal":
		// writes a freshly decoded value through its second argument
		lit := e.newObj(call, "blob", "value decoded by json.Unmarshal in "+fname(fn), fn, call.Pos())
		v := LocSet{}
		v.add(OLoc{lit, ""})
		e.store(e.valSet(args[1]), v, call, "json.Unmarshal target")
		return
	case "reflect.ValueOf", "reflect.TypeOf":
		e.setResult(call, 0, e.valSet(args[0]))
		return
	case "reflect.DeepEqual":
		return
	case "(reflect.Value).Kind", "(reflect.Value).Len", "(reflect.Value).IsNil", "(reflect.Value).IsValid", "(reflect.Value).CanInterface", "(reflect.Value).NumField", "(reflect.Value).Type",
		"(*reflect.rtype).Kind", "(reflect.Type).Kind", "(reflect.Kind).String":
		return
	case "(reflect.Value).Interface":
		e.setResult(call, 0, e.valSet(args[0]))
		return
	case "(reflect.Value).Index", "(reflect.Value).Elem", "(reflect.Value).FieldByName", "(reflect.Value).Field", "(reflect.Value).MapIndex":
		s := LocSet{}
		union(s, e.valSet(args[0]))
		union(s, e.readAll(elemLocs(e.valSet(args[0]))))
		union(s, e.readAll(e.valSet(args[0])))
		e.setResult(call, 0, s)
		return
	case "sort.Stable", "sort.Sort":
		e.modelSort(fn, call, args[0])
		return
	case "sort.Slice", "sort.SliceStable":
		// reorders the elements of its first argument and calls the less function
		for l := range elemLocs(e.valSet(args[0])) {
			e.recordWrite(call, l, name+" sorts its argument in place")
		}
		var targets []*ssa.Function
		switch lv := args[1].(type) {
		case *ssa.MakeClosure:
			if cf, ok := lv.Fn.(*ssa.Function); ok {
				targets = append(targets, cf)
			}
		case *ssa.Function:
			targets = append(targets, lv)
		default:
			if sig, ok := args[1].Type().Underlying().(*types.Signature); ok {
				for _, cand := range e.funcs {
					if cand.Signature.Recv() != nil || cand.Blocks == nil || !types.Identical(cand.Signature, sig) {
						continue
					}
					if cand.Pkg != c.SLib && cand.Pkg != c.SCLI && !(cand.Parent() != nil) {
						continue
					}
					targets = append(targets, cand)
				}
			}
		}
		if len(targets) == 0 {
			e.unknown["less function of "+name+" in "+fname(fn)] = call.Pos()
		}
		for _, t := range targets {
			if t.Blocks != nil {
				e.addCall(fn, t)
			}
		}
		return
	case "sort.Float64s", "sort.Strings", "sort.Ints":
		for l := range elemLocs(e.valSet(args[0])) {
			e.recordWrite(call, l, name+" sorts its argument in place")
		}
		return
	case "(*bytes.Buffer).WriteString", "(*bytes.Buffer).WriteRune", "(*bytes.Buffer).WriteByte", "(*bytes.Buffer).Write", "(*bytes.Buffer).Reset":
		for l := range e.valSet(args[0]) {
			e.recordWrite(call, l, name+" writes its receiver")
		}
		return
	case "(*bytes.Buffer).String", "(*bytes.Buffer).Len", "(*bytes.Buffer).Bytes":
		return
	case "flag.Bool", "flag.String", "flag.Int":
		e.freshResult(call, 0, "flag value")
		return
	case "flag.Parse", "flag.PrintDefaults", "os.Exit":
		return
	case "flag.Args":
		e.freshResult(call, 0, "flag.Args")
		return
	case "io/ioutil.ReadFile", "io/ioutil.ReadAll", "os.ReadFile", "io.ReadAll":
		e.freshResult(call, 0, "bytes read")
		return
	}
	if fn.Pkg == c.SCLI {
		// the command may call anything else in the standard library: results fresh
		for i := 0; i < callee.Signature.Results().Len(); i++ {
			if pointerLike(callee.Signature.Results().At(i).Type()) {
				e.freshResult(call, i, "result of "+name)
			}
		}
		return
	}
	e.unknown["callee "+name+" in "+fname(fn)] = call.Pos()
}

// modelSort: sort.Stable(x) calls x.Len, x.Less, x.Swap.
func (e *OwnEngine) modelSort(fn *ssa.Function, call *ssa.Call, arg ssa.Value) {
	c := e.c
	if mi, ok := arg.(*ssa.MakeInterface); ok {
		e.modelSortOn(fn, call, mi.X.Type(), e.valSet(mi.X))
		return
	}
	// the sort.Interface value was boxed elsewhere: every type the library boxes
	// into this interface may be behind it (an over-approximation)
	iface, ok := arg.Type().Underlying().(*types.Interface)
	if !ok {
		e.unknown["sort on a value whose concrete type is not visible in "+fname(fn)] = call.Pos()
		return
	}
	seen := map[string]bool{}
	n := 0
	for _, g := range e.funcs {
		for _, b := range g.Blocks {
			for _, in := range b.Instrs {
				mi, ok := in.(*ssa.MakeInterface)
				if !ok || !types.Implements(mi.X.Type(), iface) {
					continue
				}
				if _, isIface := mi.Type().Underlying().(*types.Interface); !isIface {
					continue
				}
				k := mi.X.Type().String()
				if seen[k] {
					continue
				}
				seen[k] = true
				n++
				// the boxed value: what the interface value points to, and through it
				vs := LocSet{}
				union(vs, e.valSet(arg))
				e.modelSortOn(fn, call, mi.X.Type(), vs)
			}
		}
	}
	if n == 0 {
		e.unknown["sort on a value whose concrete type is not visible in "+fname(fn)] = call.Pos()
	}
	_ = c
}

// modelSortOn: sort.Stable/Sort on a value of concrete type T held in vs.
func (e *OwnEngine) modelSortOn(fn *ssa.Function, call *ssa.Call, T types.Type, vs LocSet) {
	c := e.c
	named := T
	if p, ok := T.(*types.Pointer); ok {
		named = p.Elem()
	}
	if n, ok := named.(*types.Named); ok && n.Obj().Pkg() != nil && n.Obj().Pkg().Path() == "sort" {
		// sort.Float64Slice / StringSlice / IntSlice: Swap writes the elements
		for l := range elemLocs(vs) {
			e.recordWrite(call, l, "sort of a "+n.Obj().Name()+" reorders its elements")
		}
		return
	}
	ms := c.Prog.MethodSets.MethodSet(T)
	found := 0
	for _, m := range []string{"Len", "Less", "Swap"} {
		for i := 0; i < ms.Len(); i++ {
			if ms.At(i).Obj().Name() != m {
				continue
			}
			f := c.Prog.MethodValue(ms.At(i))
			if f == nil {
				continue
			}
			if f.Synthetic != "" {
				if o, ok := ms.At(i).Obj().(*types.Func); ok {
					if g := c.Prog.FuncValue(o); g != nil && g.Blocks != nil {
						f = g
					}
				}
			}
			if f.Blocks == nil || len(f.Params) == 0 {
				continue
			}
			found++
			e.addCall(fn, f)
			e.flow(e.P(f.Params[0]), vs)
		}
	}
	if found < 3 {
		e.unknown["sort adapter methods of "+T.String()] = call.Pos()
	}
}

// ---------------------------------------------------------------- queries

// reachFuncs: functions reachable from the roots over the computed call graph.
func (e *OwnEngine) reachFuncs(roots ...*ssa.Function) map[*ssa.Function]bool {
	seen := map[*ssa.Function]bool{}
	var walk func(f *ssa.Function)
	walk = func(f *ssa.Function) {
		if seen[f] {
			return
		}
		seen[f] = true
		for g := range e.calls[f] {
			walk(g)
		}
	}
	for _, r := range roots {
		walk(r)
	}
	return seen
}

// closure: every object reachable from the locations in s.
func (e *OwnEngine) closure(s LocSet) map[*OObj]bool {
	seen := map[*OObj]bool{}
	var work []*OObj
	for l := range s {
		if !seen[l.o] {
			seen[l.o] = true
			work = append(work, l.o)
		}
	}
	for len(work) > 0 {
		o := work[len(work)-1]
		work = work[:len(work)-1]
		for _, hs := range e.heap[o] {
			for x := range hs {
				if !seen[x.o] {
					seen[x.o] = true
					work = append(work, x.o)
				}
			}
		}
	}
	return seen
}

func (e *OwnEngine) sortedWrites() []writeEvent {
	var out []writeEvent
	for _, w := range e.writes {
		out = append(out, w)
	}
	sort.Slice(out, func(i, j int) bool {
		if out[i].in.Pos() != out[j].in.Pos() {
			return out[i].in.Pos() < out[j].in.Pos()
		}
		if out[i].loc.o.id != out[j].loc.o.id {
			return out[i].loc.o.id < out[j].loc.o.id
		}
		return out[i].loc.k < out[j].loc.k
	})
	return out
}

// callPath: a shortest call path from any root to fn.
func (e *OwnEngine) callPath(to *ssa.Function, roots ...*ssa.Function) string {
	prev := map[*ssa.Function]*ssa.Function{}
	seen := map[*ssa.Function]bool{}
	queue := append([]*ssa.Function(nil), roots...)
	for _, r := range roots {
		seen[r] = true
	}
	for len(queue) > 0 {
		f := queue[0]
		queue = queue[1:]
		if f == to {
			var path []string
			for x := to; x != nil; x = prev[x] {
				path = append([]string{fname(x)}, path...)
			}
			return strings.Join(path, " → ")
		}
		var next []*ssa.Function
		for g := range e.calls[f] {
			next = append(next, g)
		}
		sort.Slice(next, func(i, j int) bool { return fname(next[i]) < fname(next[j]) })
		for _, g := range next {
			if !seen[g] {
				seen[g] = true
				prev[g] = f
				queue = append(queue, g)
			}
		}
	}
	return fname(to)
}

// methodExprSigMatches: sig is the type of the method expression of a method
// with signature m: (receiver, m's parameters...) -> m's results.
func methodExprSigMatches(m, sig *types.Signature) bool {
	if m.Recv() == nil || sig.Params().Len() != m.Params().Len()+1 || sig.Results().Len() != m.Results().Len() || sig.Variadic() != m.Variadic() {
		return false
	}
	if !types.Identical(sig.Params().At(0).Type(), m.Recv().Type()) {
		return false
	}
	for i := 0; i < m.Params().Len(); i++ {
		if !types.Identical(sig.Params().At(i+1).Type(), m.Params().At(i).Type()) {
			return false
		}
	}
	for i := 0; i < m.Results().Len(); i++ {
		if !types.Identical(sig.Results().At(i).Type(), m.Results().At(i).Type()) {
			return false
		}
	}
	return true
}
