package main

import (
	"fmt"
	"go/ast"
	"go/constant"
	"go/token"
	"go/types"
	"os"
	"path/filepath"
	"sort"
	"strings"

	"golang.org/x/tools/go/packages"
	"golang.org/x/tools/go/ssa"
	"golang.org/x/tools/go/ssa/ssautil"
)

const libPath = "github.com/jmespath/go-jmespath"

// Status of one obligation.
const (
	OK        = "discharged"
	VIOL      = "violation"
	UNDECIDED = "undecided"
	RESIDUAL  = "residual" // listed, counted, not claimed
)

// Ob is one proof obligation of one rule on one construct.
type Ob struct {
	Rule   string `json:"rule"`
	Key    string `json:"construct"` // line-independent key
	Pos    string `json:"pos"`
	Func   string `json:"func,omitempty"`
	Status string `json:"status"`
	Detail string `json:"detail,omitempty"`
}

// RuleResult is what a rule reports.
type RuleResult struct {
	Name      string
	Doc       string
	Obs       []Ob
	Instances int // rule instances matched (for the vacuity floor)
	Floor     int
	Notes     []string
}

func (r *RuleResult) add(o Ob) { o.Rule = r.Name; r.Obs = append(r.Obs, o) }
func (r *RuleResult) ok(key, pos, fn, detail string) {
	r.add(Ob{Key: key, Pos: pos, Func: fn, Status: OK, Detail: detail})
}
func (r *RuleResult) viol(key, pos, fn, detail string) {
	r.add(Ob{Key: key, Pos: pos, Func: fn, Status: VIOL, Detail: detail})
}
func (r *RuleResult) undecided(key, pos, fn, detail string) {
	r.add(Ob{Key: key, Pos: pos, Func: fn, Status: UNDECIDED, Detail: detail})
}
func (r *RuleResult) residual(key, pos, fn, detail string) {
	r.add(Ob{Key: key, Pos: pos, Func: fn, Status: RESIDUAL, Detail: detail})
}

// anchorLost aborts the run: the code no longer has the shape the rules are
// anchored in. That is a checker failure (exit 2), never a VIOLATION.
type anchorLost struct{ what string }

func lost(format string, a ...interface{}) {
	panic(anchorLost{fmt.Sprintf(format, a...)})
}

// Ctx is the loaded program plus resolved anchors.
type Ctx struct {
	Root             string
	Tier             string
	Tags             string
	Arch             string
	Fset             *token.FileSet
	Pkgs             []*packages.Package
	Lib              *packages.Package
	CLI              *packages.Package
	Prog             *ssa.Program
	SLib             *ssa.Package
	SCLI             *ssa.Package
	cache            map[string]*RuleResult
	lits             []*ast.CompositeLit
	gwCache          map[*ssa.Global]bool
	bce              map[string]bool
	powerCache       *powerSrc
	lexPrims         [3]*ssa.Function
	scopeMemo        map[*ssa.Function]map[string]bool
	expandDepth      int
	writesParserMemo map[*ssa.Function]bool
	tokFlowMemo      map[*ssa.Function]*tokFlow
	soleImpl         map[*types.Named]types.Type
	constGlobals     map[*ssa.Global]*constGlobal
	tableDone        bool
	bceErr           error
	subst            map[*ssa.Parameter]ssa.Value
	helperSites      map[*ssa.Function][]*ssa.Call
	evIndex          map[ssa.Instruction][2]int // obligations decided by the abstract interpreter, per instruction

	A *Anchors

	// lazily built engines
	kind interface{}
	own  *OwnEngine
}

func load(root, tags, arch string) *Ctx {
	env := append(os.Environ(), "GOFLAGS=-mod=mod", "GOPROXY=off", "GOSUMDB=off", "GOWORK=off", "GOTOOLCHAIN=local")
	if arch != "" {
		env = append(env, "GOARCH="+arch)
	}
	cfg := &packages.Config{
		Mode:  packages.LoadAllSyntax,
		Dir:   root,
		Env:   env,
		Tests: false,
	}
	if tags != "" {
		cfg.BuildFlags = []string{"-tags=" + tags}
	}
	pkgs, err := packages.Load(cfg, "./...")
	if err != nil {
		fatal("load: %v", err)
	}
	if len(pkgs) < 3 {
		fatal("load: expected >= 3 packages under %s, got %d", root, len(pkgs))
	}
	nerr := 0
	packages.Visit(pkgs, nil, func(p *packages.Package) {
		for _, e := range p.Errors {
			fmt.Fprintf(os.Stderr, "load error: %v\n", e)
			nerr++
		}
	})
	if nerr > 0 {
		fatal("load: %d type/parse errors; the tree does not build", nerr)
	}
	prog, _ := ssautil.AllPackages(pkgs, ssa.InstantiateGenerics)
	prog.Build()
	c := &Ctx{Root: root, Tags: tags, Arch: arch, Pkgs: pkgs, Prog: prog, cache: map[string]*RuleResult{}}
	for _, p := range pkgs {
		switch p.PkgPath {
		case libPath:
			c.Lib = p
		case libPath + "/cmd/jpgo":
			c.CLI = p
		}
	}
	if c.Lib == nil || c.CLI == nil {
		fatal("load: library or cmd/jpgo package not found")
	}
	c.Fset = c.Lib.Fset
	c.SLib = prog.Package(c.Lib.Types)
	c.SCLI = prog.Package(c.CLI.Types)
	c.A = resolveAnchors(c)
	return c
}

func fatal(format string, a ...interface{}) {
	fmt.Fprintf(os.Stderr, "jpcheck: "+format+"\n", a...)
	os.Exit(2)
}

// pos renders a position relative to the repository root.
func (c *Ctx) pos(p token.Pos) string {
	if !p.IsValid() {
		return "-"
	}
	ps := c.Fset.Position(p)
	rel, err := filepath.Rel(c.Root, ps.Filename)
	if err != nil {
		rel = ps.Filename
	}
	return fmt.Sprintf("%s:%d:%d", rel, ps.Line, ps.Column)
}

func (c *Ctx) file(p token.Pos) string {
	if !p.IsValid() {
		return ""
	}
	return filepath.Base(c.Fset.Position(p).Filename)
}

// ---------------------------------------------------------------- lookups

func (c *Ctx) libFunc(name string) *ssa.Function {
	f := c.SLib.Func(name)
	if f == nil {
		lost("function %s not found in package jmespath", name)
	}
	return f
}

func (c *Ctx) libFuncOpt(name string) *ssa.Function { return c.SLib.Func(name) }

func (c *Ctx) namedType(pkg *ssa.Package, name string) *types.Named {
	m := pkg.Members[name]
	t, ok := m.(*ssa.Type)
	if !ok {
		lost("type %s not found", name)
	}
	n, ok := t.Type().(*types.Named)
	if !ok {
		lost("type %s is not a named type", name)
	}
	return n
}

func (c *Ctx) method(tname, mname string) *ssa.Function {
	n := c.namedType(c.SLib, tname)
	for _, T := range []types.Type{n, types.NewPointer(n)} {
		ms := c.Prog.MethodSets.MethodSet(T)
		for i := 0; i < ms.Len(); i++ {
			if ms.At(i).Obj().Name() == mname {
				f := c.Prog.MethodValue(ms.At(i))
				if f != nil {
					// unwrap synthetic pointer-receiver wrappers
					if f.Synthetic != "" {
						if o, ok := ms.At(i).Obj().(*types.Func); ok {
							if g := c.Prog.FuncValue(o); g != nil {
								return g
							}
						}
					}
					return f
				}
			}
		}
	}
	lost("method %s.%s not found", tname, mname)
	return nil
}

func (c *Ctx) methodOpt(tname, mname string) (f *ssa.Function) {
	defer func() {
		if r := recover(); r != nil {
			if _, ok := r.(anchorLost); ok {
				f = nil
				return
			}
			panic(r)
		}
	}()
	return c.method(tname, mname)
}

// constsOf returns the package-level constants of a named type, by value.
type namedConst struct {
	Name string
	Val  int64
	Str  string
	Obj  *types.Const
}

func (c *Ctx) constsOf(pkg *packages.Package, t types.Type) []namedConst {
	var out []namedConst
	sc := pkg.Types.Scope()
	for _, n := range sc.Names() {
		k, ok := sc.Lookup(n).(*types.Const)
		if !ok || !types.Identical(k.Type(), t) {
			continue
		}
		nc := namedConst{Name: n, Obj: k}
		switch k.Val().Kind() {
		case constant.Int:
			nc.Val, _ = constant.Int64Val(k.Val())
		case constant.String:
			nc.Str = constant.StringVal(k.Val())
		}
		out = append(out, nc)
	}
	sort.Slice(out, func(i, j int) bool {
		if out[i].Val != out[j].Val {
			return out[i].Val < out[j].Val
		}
		return out[i].Name < out[j].Name
	})
	return out
}

// allFuncs returns every source-level function (incl. methods, closures) of
// the ssa package, sorted by position.
func allFuncs(p *ssa.Package) []*ssa.Function {
	seen := map[*ssa.Function]bool{}
	var out []*ssa.Function
	var add func(f *ssa.Function)
	add = func(f *ssa.Function) {
		if f == nil || seen[f] || f.Blocks == nil || f.Synthetic != "" && !strings.HasPrefix(f.Synthetic, "package init") {
			return
		}
		seen[f] = true
		out = append(out, f)
		for _, a := range f.AnonFuncs {
			add(a)
		}
	}
	for _, m := range p.Members {
		switch m := m.(type) {
		case *ssa.Function:
			add(m)
		case *ssa.Type:
			n, ok := m.Type().(*types.Named)
			if !ok {
				continue
			}
			for i := 0; i < n.NumMethods(); i++ {
				add(p.Prog.FuncValue(n.Method(i)))
			}
		}
	}
	sort.Slice(out, func(i, j int) bool {
		if out[i].Pos() != out[j].Pos() {
			return out[i].Pos() < out[j].Pos()
		}
		return out[i].String() < out[j].String()
	})
	return out
}

func fname(f *ssa.Function) string {
	if f == nil {
		return "?"
	}
	if r := f.Signature.Recv(); r != nil {
		t := r.Type()
		if p, ok := t.(*types.Pointer); ok {
			t = p.Elem()
		}
		if n, ok := t.(*types.Named); ok {
			return n.Obj().Name() + "." + f.Name()
		}
	}
	if f.Parent() != nil {
		return fname(f.Parent()) + "$" + f.Name()
	}
	return f.Name()
}

// staticCallee returns the statically known callee of a call, or nil.
func staticCallee(call ssa.CallInstruction) *ssa.Function {
	return call.Common().StaticCallee()
}

// calleeName: "pkgpath.Func" or "(pkgpath.T).Method" for static and
// interface-method calls.
func calleeName(call ssa.CallInstruction) string {
	cc := call.Common()
	if cc.IsInvoke() {
		return "(" + cc.Value.Type().String() + ")." + cc.Method.Name()
	}
	if f := cc.StaticCallee(); f != nil {
		return qualName(f)
	}
	if b, ok := cc.Value.(*ssa.Builtin); ok {
		return "builtin." + b.Name()
	}
	return "dynamic"
}

func qualName(f *ssa.Function) string {
	if f.Pkg == nil {
		if o := f.Object(); o != nil && o.Pkg() != nil {
			if r := f.Signature.Recv(); r != nil {
				return "(" + types.TypeString(r.Type(), nil) + ")." + f.Name()
			}
			return o.Pkg().Path() + "." + f.Name()
		}
		return f.String()
	}
	if r := f.Signature.Recv(); r != nil {
		return "(" + types.TypeString(r.Type(), nil) + ")." + f.Name()
	}
	return f.Pkg.Pkg.Path() + "." + f.Name()
}

func isErrorType(t types.Type) bool {
	return types.Identical(t, types.Universe.Lookup("error").Type())
}

// errIndex returns the index of the error result of a signature, or -1.
func errIndex(sig *types.Signature) int {
	n := sig.Results().Len()
	if n == 0 {
		return -1
	}
	if isErrorType(sig.Results().At(n - 1).Type()) {
		return n - 1
	}
	return -1
}

func isNilConst(v ssa.Value) bool {
	k, ok := v.(*ssa.Const)
	return ok && k.Value == nil
}

func constInt(v ssa.Value) (int64, bool) {
	k, ok := v.(*ssa.Const)
	if !ok || k.Value == nil || k.Value.Kind() != constant.Int {
		return 0, false
	}
	return k.Int64(), true
}

func constStr(v ssa.Value) (string, bool) {
	k, ok := v.(*ssa.Const)
	if !ok || k.Value == nil || k.Value.Kind() != constant.String {
		return "", false
	}
	return constant.StringVal(k.Value), true
}

func constBool(v ssa.Value) (bool, bool) {
	k, ok := v.(*ssa.Const)
	if !ok || k.Value == nil || k.Value.Kind() != constant.Bool {
		return false, false
	}
	return constant.BoolVal(k.Value), true
}

// reachableFrom: blocks reachable from start (inclusive) without entering
// any block in stop.
func reachableFrom(start *ssa.BasicBlock, stop map[*ssa.BasicBlock]bool) map[*ssa.BasicBlock]bool {
	seen := map[*ssa.BasicBlock]bool{}
	var walk func(b *ssa.BasicBlock)
	walk = func(b *ssa.BasicBlock) {
		if seen[b] || stop[b] {
			return
		}
		seen[b] = true
		for _, s := range b.Succs {
			walk(s)
		}
	}
	walk(start)
	return seen
}

func blockReturn(b *ssa.BasicBlock) *ssa.Return {
	if len(b.Instrs) == 0 {
		return nil
	}
	if b.Parent().Recover == b {
		// the recover block of a function with defers: only reached when a
		// panic is recovered, which the library never does (rule BAN)
		return nil
	}
	r, _ := b.Instrs[len(b.Instrs)-1].(*ssa.Return)
	return r
}

// retResults resolves the results of a return; in functions with defers
// go/ssa spills results into allocs (*t0 = v; rundefers; t = *t0; return t).
func retResults(ret *ssa.Return) []ssa.Value {
	out := make([]ssa.Value, len(ret.Results))
	for i, v := range ret.Results {
		out[i] = v
		ld, ok := v.(*ssa.UnOp)
		if !ok || ld.Op != token.MUL || ld.Block() != ret.Block() {
			continue
		}
		al, ok := ld.X.(*ssa.Alloc)
		if !ok {
			continue
		}
		// a result slot is only stored whole and loaded; a variable whose fields or
		// elements are written separately (entry.hasExpRef = true) is read as it is
		partial := false
		if al.Referrers() != nil {
			for _, rf := range *al.Referrers() {
				switch rf.(type) {
				case *ssa.FieldAddr, *ssa.IndexAddr:
					partial = true
				}
			}
		}
		if partial {
			continue
		}
		var last ssa.Value
		for _, in := range ret.Block().Instrs {
			if in == ld {
				break
			}
			if st, ok := in.(*ssa.Store); ok && st.Addr == al {
				last = st.Val
			}
		}
		if last != nil {
			out[i] = last
		}
	}
	return out
}

func blockIf(b *ssa.BasicBlock) *ssa.If {
	if len(b.Instrs) == 0 {
		return nil
	}
	r, _ := b.Instrs[len(b.Instrs)-1].(*ssa.If)
	return r
}

// ---------------------------------------------------------------- clauses

// Clause is one case clause of a switch over an enumeration constant.
type Clause struct {
	Labels []namedConst // empty for default
	Pos    token.Pos
	End    token.Pos
	Node   *ast.CaseClause
}

func (cl *Clause) Name() string {
	if len(cl.Labels) == 0 {
		return "default"
	}
	var s []string
	for _, l := range cl.Labels {
		s = append(s, l.Name)
	}
	return strings.Join(s, ",")
}

func (cl *Clause) has(name string) bool {
	for _, l := range cl.Labels {
		if l.Name == name {
			return true
		}
	}
	return false
}

// enumSwitches returns, for a function, every switch statement whose tag has
// the named enumeration type, outermost first, with its clauses.
type EnumSwitch struct {
	Stmt    *ast.SwitchStmt
	Clauses []*Clause
}

func (c *Ctx) enumSwitches(pkg *packages.Package, fn *ssa.Function, enum types.Type) []*EnumSwitch {
	syn := fn.Syntax()
	if syn == nil {
		return nil
	}
	var out []*EnumSwitch
	ast.Inspect(syn, func(n ast.Node) bool {
		sw, ok := n.(*ast.SwitchStmt)
		if !ok || sw.Tag == nil {
			return true
		}
		tv, ok := pkg.TypesInfo.Types[sw.Tag]
		if !ok {
			return true
		}
		// the tag may be an interface holding the enum (switch node.value):
		// then the labels decide.
		es := &EnumSwitch{Stmt: sw}
		match := types.Identical(tv.Type, enum)
		for _, st := range sw.Body.List {
			cc := st.(*ast.CaseClause)
			cl := &Clause{Pos: cc.Pos(), End: cc.End(), Node: cc}
			for _, e := range cc.List {
				ltv := pkg.TypesInfo.Types[e]
				if ltv.Value != nil && types.Identical(ltv.Type, enum) {
					match = true
					v, _ := constant.Int64Val(ltv.Value)
					name := types.ExprString(e)
					cl.Labels = append(cl.Labels, namedConst{Name: name, Val: v})
				}
			}
			es.Clauses = append(es.Clauses, cl)
		}
		if match {
			out = append(out, es)
		}
		return true
	})
	return out
}

func (es *EnumSwitch) clauseAt(p token.Pos) *Clause {
	if !p.IsValid() {
		return nil
	}
	for _, cl := range es.Clauses {
		if cl.Pos <= p && p < cl.End {
			return cl
		}
	}
	return nil
}

func (es *EnumSwitch) clause(label string) *Clause {
	for _, cl := range es.Clauses {
		if cl.has(label) {
			return cl
		}
	}
	return nil
}

// instrPos finds a usable source position for an instruction.
func instrPos(in ssa.Instruction) token.Pos {
	if p := in.Pos(); p.IsValid() {
		return p
	}
	if v, ok := in.(ssa.Value); ok {
		_ = v
	}
	// fall back to operands
	for _, op := range in.Operands(nil) {
		if *op == nil {
			continue
		}
		if i2, ok := (*op).(ssa.Instruction); ok {
			if p := i2.Pos(); p.IsValid() {
				return p
			}
		}
	}
	return token.NoPos
}

func sortObs(obs []Ob) {
	sort.SliceStable(obs, func(i, j int) bool {
		if obs[i].Rule != obs[j].Rule {
			return obs[i].Rule < obs[j].Rule
		}
		return obs[i].Key < obs[j].Key
	})
}
