package main

import (
	"fmt"
	"go/token"
	"go/types"
	"sort"
	"strings"

	"golang.org/x/tools/go/ssa"
)

// PathLang: the control-flow graph of a parser function, seen as an automaton
// over parser events, must be included in the language of a small DFA
// (DESIGN §3.6). The product carries one abstract fact about the parser's
// current token (a known constant, or a set of excluded constants).

type tokFact struct {
	known bool
	tok   int64
	excl  uint64 // bit i set: current token is not i
}

func (f tokFact) String(c *Ctx) string {
	if f.known {
		return "cur=" + c.A.TokName[f.tok]
	}
	if f.excl == 0 {
		return "cur=?"
	}
	var n []string
	for i := int64(0); i < 64; i++ {
		if f.excl&(1<<uint(i)) != 0 {
			n = append(n, c.A.TokName[i])
		}
	}
	return "cur∉{" + strings.Join(n, ",") + "}"
}

func (f tokFact) canBe(t int64) bool {
	if f.known {
		return f.tok == t
	}
	return f.excl&(1<<uint(t)) == 0
}
func (f tokFact) mustBe(t int64) bool  { return f.known && f.tok == t }
func (f tokFact) with(t int64) tokFact { return tokFact{known: true, tok: t} }
func (f tokFact) without(t int64) tokFact {
	if f.known {
		return f
	}
	f.excl |= 1 << uint(t)
	return f
}

// plSpec is the allowed event language.
type plSpec struct {
	name        string
	start       int
	accept      func(state int) bool
	next        func(state int, ev string) (int, bool)
	requireEOF  bool   // success returns need cur == tEOF
	trackAppend bool   // every E result must be appended before the next E / the success return
	events      string // documentation
}

type plConfig struct {
	blk     *ssa.BasicBlock
	dfa     int
	fact    tokFact
	pending bool
	ints    string // canonical rendering of the known small integers (loop counters)
}

// intEnv: known values of integer SSA registers along the explored path.
type intEnv map[ssa.Value]int64

func (e intEnv) key() string {
	var names []string
	for v, n := range e {
		if in, ok := v.(ssa.Instruction); ok && in.Parent() != nil {
			names = append(names, fmt.Sprintf("%s.%s=%d", in.Parent().Name(), v.Name(), n))
			continue
		}
		names = append(names, fmt.Sprintf("%s=%d", v.Name(), n))
	}
	sort.Strings(names)
	return strings.Join(names, ",")
}

func (e intEnv) clone() intEnv {
	n := intEnv{}
	for k, v := range e {
		n[k] = v
	}
	return n
}

func (e intEnv) get(v ssa.Value) (int64, bool) {
	if k, ok := constInt(v); ok {
		if _, isBasic := v.Type().Underlying().(*types.Basic); isBasic && types.Identical(v.Type(), types.Typ[types.Int]) {
			return k, true
		}
	}
	n, ok := e[v]
	return n, ok
}

type plFinding struct {
	pos   token.Pos
	trace []string
	what  string
}

type plRun struct {
	c              *Ctx
	fn             *ssa.Function
	spec           *plSpec
	within         func(in ssa.Instruction) bool // limit to a clause (nil = whole function)
	visited        map[plConfig]bool
	findings       []plFinding
	undecided      []plFinding
	events         int
	states         int
	successReturns int
	// inlined helper: where the caller continues (nil for the root run)
	onReturn func(dfa int, fact tokFact, pending bool, trace []string, outcome int)
	stack    []*ssa.Function
	fenv     map[ssa.Value]*ssa.Function // function-valued parameters of an inlined helper, bound to the functions passed
}

// outcome of an inlined call, recorded in the path's intEnv under the call
const (
	outFail    = 0
	outSuccess = 1
)

// movesCursor: a parser method that can (transitively) write a field of the
// Parser — advance the token cursor. Pure readers (current, lookahead) and
// error/message helpers cannot, whatever they are called.
func (c *Ctx) movesCursor(f *ssa.Function) bool {
	if f == nil || f.Signature.Recv() == nil {
		return false
	}
	pt, ok := f.Signature.Recv().Type().(*types.Pointer)
	if !ok || !inFam(c.A.ParserFam, pt.Elem()) {
		return false
	}
	return c.writesParser(f, map[*ssa.Function]bool{})
}

func (c *Ctx) writesParser(f *ssa.Function, _ map[*ssa.Function]bool) bool {
	if c.writesParserMemo == nil {
		// least fixpoint over the library's static call graph
		memo := map[*ssa.Function]bool{}
		callees := map[*ssa.Function][]*ssa.Function{}
		fns := allFuncs(c.SLib)
		for _, g := range fns {
			for _, b := range g.Blocks {
				for _, in := range b.Instrs {
					switch in := in.(type) {
					case *ssa.Store:
						if fa, ok := in.Addr.(*ssa.FieldAddr); ok {
							if p2, ok := fa.X.Type().Underlying().(*types.Pointer); ok && inFam(c.A.ParserFam, p2.Elem()) {
								memo[g] = true
							}
						}
					case *ssa.Call:
						callee := staticCallee(in)
						switch {
						case callee == nil:
							if _, isBuiltin := in.Call.Value.(*ssa.Builtin); !isBuiltin && !in.Call.IsInvoke() {
								memo[g] = true // a function value: may be a parser method or a closure over the parser
							}
						case callee.Pkg == c.SLib:
							callees[g] = append(callees[g], callee)
						}
					}
				}
			}
		}
		for changed := true; changed; {
			changed = false
			for _, g := range fns {
				if memo[g] {
					continue
				}
				for _, h := range callees[g] {
					if memo[h] {
						memo[g] = true
						changed = true
						break
					}
				}
			}
		}
		c.writesParserMemo = memo
	}
	return c.writesParserMemo[f]
}

func (p *plRun) explore(start *ssa.BasicBlock, fact tokFact) {
	p.visited = map[plConfig]bool{}
	p.walkE(plConfig{blk: start, dfa: p.spec.start, fact: fact}, nil, nil, intEnv{})
}

func (p *plRun) walk(cf plConfig, trace []string) {
	p.walkE(cf, trace, nil, intEnv{})
}

// isCurrentTok: v is the parser's current token: a call of current(), or a
// variable (phi) that only ever holds results of current().
func (p *plRun) isCurrentTok(v ssa.Value) bool {
	switch v := v.(type) {
	case *ssa.Call:
		return staticCallee(v) == p.c.A.Current
	case *ssa.Phi:
		for _, e := range v.Edges {
			if call, ok := e.(*ssa.Call); !ok || staticCallee(call) != p.c.A.Current {
				return false
			}
		}
		return len(v.Edges) > 0
	}
	return false
}

// inlinable: a helper method of the parser whose body is explored in place
// (bounded depth, no recursion).
func (p *plRun) inlinable(f *ssa.Function) bool {
	if f == nil || f.Blocks == nil || len(p.stack) >= 3 || f == p.fn {
		return false
	}
	for _, s := range p.stack {
		if s == f {
			return false
		}
	}
	c := p.c
	switch f {
	case c.A.Advance, c.A.Match, c.A.ParseExpr, c.A.Tokenize, c.A.Nud, c.A.Led, c.A.Parse:
		return false
	}
	return errIndex(f.Signature) >= 0 || f.Signature.Results().Len() == 0
}

func b2i(b bool) int64 {
	if b {
		return 1
	}
	return 0
}

// usedOnlyByOwnIf: the comparison feeds nothing but the branch that ends its block.
func usedOnlyByOwnIf(v *ssa.BinOp) bool {
	refs := v.Referrers()
	if refs == nil {
		return true
	}
	for _, r := range *refs {
		if _, isDbg := r.(*ssa.DebugRef); isDbg {
			continue
		}
		ifi, ok := r.(*ssa.If)
		if !ok || ifi.Block() != v.Block() {
			return false
		}
	}
	return true
}

// cursorMover: a parser method, or a function literal / wrapper, that can move the cursor.
func (c *Ctx) cursorMover(f *ssa.Function) bool {
	if f == nil {
		return false
	}
	if c.movesCursor(f) {
		return true
	}
	if f.Signature.Recv() == nil && f.Parent() != nil {
		return c.writesParser(f, nil)
	}
	return false
}

// funcValue: the function a function-typed SSA value denotes: a named
// function, a literal (closure), or the method behind a bound-method value;
// or, inside an inlined helper, what its own parameter was bound to.
func (p *plRun) funcValue(v ssa.Value) *ssa.Function {
	switch v := v.(type) {
	case *ssa.Function:
		return v
	case *ssa.MakeClosure:
		f, _ := v.Fn.(*ssa.Function)
		if f != nil && f.Synthetic != "" && f.Pkg == nil {
			// bound method wrapper: the method it forwards to
			for _, b := range f.Blocks {
				for _, in := range b.Instrs {
					if call, ok := in.(*ssa.Call); ok {
						if sc := call.Call.StaticCallee(); sc != nil {
							return sc
						}
					}
				}
			}
		}
		return f
	case *ssa.Parameter:
		return p.fenv[v]
	}
	return nil
}

// tokConst: a token constant, directly or as a constant argument bound to a
// parameter of an inlined helper.
func (p *plRun) tokConst(v ssa.Value, ints intEnv) (int64, bool) {
	if k, ok := constInt(v); ok {
		return k, true
	}
	if par, ok := v.(*ssa.Parameter); ok {
		if k, ok := ints[par]; ok {
			return k, true
		}
	}
	return 0, false
}

// errOutcome: is the error value v nil on this path? outSuccess (nil),
// outFail (non-nil) or -1 (not known).
func (p *plRun) errOutcome(v ssa.Value, ints intEnv) int {
	if v == nil {
		return outSuccess
	}
	if isNilConst(v) {
		return outSuccess
	}
	if o, ok := ints[v]; ok {
		return int(o)
	}
	switch x := v.(type) {
	case *ssa.Extract:
		if call, ok := x.Tuple.(*ssa.Call); ok {
			if o, ok := ints[call]; ok {
				return int(o)
			}
		}
	case *ssa.Call:
		if o, ok := ints[x]; ok {
			return int(o)
		}
		if neverNilError(p.c, x) {
			return outFail
		}
	case *ssa.MakeInterface:
		return outFail
	}
	if neverNilError(p.c, v) {
		return outFail
	}
	return -1
}

func (p *plRun) fail(pos token.Pos, trace []string, what string) {
	for _, f := range p.findings {
		if f.pos == pos && f.what == what {
			return
		}
	}
	p.findings = append(p.findings, plFinding{pos, append([]string(nil), trace...), what})
}

func (p *plRun) unknown(pos token.Pos, trace []string, what string) {
	for _, f := range p.undecided {
		if f.pos == pos && f.what == what {
			return
		}
	}
	p.undecided = append(p.undecided, plFinding{pos, append([]string(nil), trace...), what})
}

func (p *plRun) walkE(cf plConfig, trace []string, prev *ssa.BasicBlock, ints intEnv) {
	// integer phis first (they depend on the predecessor)
	if prev != nil {
		upd := intEnv{}
		var drop []ssa.Value
		for _, in := range cf.blk.Instrs {
			ph, ok := in.(*ssa.Phi)
			if !ok {
				break
			}
			isBoolPhi := types.Identical(ph.Type().Underlying(), types.Typ[types.Bool])
			isErrPhi := isErrorType(ph.Type())
			if !types.Identical(ph.Type(), types.Typ[types.Int]) && !isBoolPhi && !isErrPhi {
				continue
			}
			for pi, pb := range cf.blk.Preds {
				if pb == prev {
					if isErrPhi {
						if o := p.errOutcome(ph.Edges[pi], ints); o == outSuccess || o == outFail {
							upd[ph] = int64(o)
						} else {
							drop = append(drop, ph)
						}
						continue
					}
					if isBoolPhi {
						if bv, ok := constBool(ph.Edges[pi]); ok {
							upd[ph] = b2i(bv)
						} else if n, ok := ints[ph.Edges[pi]]; ok {
							upd[ph] = n
						} else {
							drop = append(drop, ph)
						}
						continue
					}
					if n, ok := ints.get(ph.Edges[pi]); ok && n >= -16 && n <= 16 {
						upd[ph] = n
					} else {
						drop = append(drop, ph)
					}
				}
			}
		}
		if len(upd) > 0 || len(drop) > 0 {
			ints = ints.clone()
			for _, d := range drop {
				delete(ints, d)
			}
			for k, v := range upd {
				ints[k] = v
			}
		}
	}
	cf.ints = ints.key()
	if p.visited[cf] {
		return
	}
	p.visited[cf] = true
	p.states++
	p.run(cf, 0, trace, ints)
}

// run interprets the instructions of cf.blk from index start.
func (p *plRun) run(cf plConfig, start int, trace []string, ints intEnv) {
	c := p.c
	dfa, fact, pending := cf.dfa, cf.fact, cf.pending
	next := func(b *ssa.BasicBlock, d int, f tokFact, pend bool, tr []string) {
		p.walkE(plConfig{blk: b, dfa: d, fact: f, pending: pend}, tr, cf.blk, ints)
	}
	// nextF: as next, with the fact "error value v is nil / is not nil" on the path
	nextF := func(b *ssa.BasicBlock, d int, f tokFact, pend bool, tr []string, v ssa.Value, outcome int) {
		i2 := ints.clone()
		i2[v] = int64(outcome)
		p.walkE(plConfig{blk: b, dfa: d, fact: f, pending: pend}, tr, cf.blk, i2)
	}
	ev := func(pos token.Pos, e string) bool {
		p.events++
		n, ok := p.spec.next(dfa, e)
		trace = append(trace, e)
		if !ok {
			p.fail(pos, trace, fmt.Sprintf("event %q is not allowed here (%s; automaton state %d)", e, p.spec.events, dfa))
			return false
		}
		dfa = n
		return true
	}
	type matchInfo struct {
		call *ssa.Call
		tok  int64
	}
	var lastMatch *matchInfo
	var lastParse *ssa.Call
	for idx := start; idx < len(cf.blk.Instrs); idx++ {
		in := cf.blk.Instrs[idx]
		// a register that is defined again (next loop iteration) loses its path fact
		if v, ok := in.(ssa.Value); ok {
			if _, isPhi := in.(*ssa.Phi); isPhi {
				// set at block entry
			} else if _, has := ints[v]; has {
				ints = ints.clone()
				delete(ints, v)
			}
		}
		if p.within != nil && !p.within(in) {
			if _, ok := in.(*ssa.Return); ok {
				// left the clause: stop
				return
			}
		}
		switch in := in.(type) {
		case *ssa.UnOp:
			if in.Op == token.NOT {
				if n, ok := ints[in.X]; ok {
					ints = ints.clone()
					ints[in] = 1 - n
				}
			}
		case *ssa.BinOp:
			// a test of the current token kept in a variable (more := cur == tComma):
			// the path forks here, and the variable's value is a path fact
			if (in.Op == token.EQL || in.Op == token.NEQ) && p.isCurrentTok(in.X) && !usedOnlyByOwnIf(in) {
				if k, ok := p.tokConst(in.Y, ints); ok {
					if lastMatch != nil {
						p.unknown(in.Pos(), trace, "a match result is still unexamined at a token test")
						return
					}
					eq := in.Op == token.EQL
					if fact.canBe(k) {
						i2 := ints.clone()
						i2[in] = b2i(eq)
						p.run(plConfig{blk: cf.blk, dfa: dfa, fact: fact.with(k), pending: pending}, idx+1, append([]string(nil), trace...), i2)
					}
					if !fact.mustBe(k) {
						i2 := ints.clone()
						i2[in] = b2i(!eq)
						p.run(plConfig{blk: cf.blk, dfa: dfa, fact: fact.without(k), pending: pending}, idx+1, append([]string(nil), trace...), i2)
					}
					return
				}
			}
			if types.Identical(in.Type(), types.Typ[types.Int]) && (in.Op == token.ADD || in.Op == token.SUB) {
				a, ok1 := ints.get(in.X)
				b, ok2 := ints.get(in.Y)
				if ok1 && ok2 {
					ints = ints.clone()
					if in.Op == token.ADD {
						ints[in] = a + b
					} else {
						ints[in] = a - b
					}
				}
			}
		case *ssa.Call:
			callee := staticCallee(in)
			if callee == nil && !in.Call.IsInvoke() {
				if _, isBuiltin := in.Call.Value.(*ssa.Builtin); !isBuiltin {
					if f, ok := p.fenv[in.Call.Value]; ok {
						callee = f
					} else {
						p.unknown(in.Pos(), trace, "call through a function value that is not bound to a known function: it may move the cursor")
						return
					}
				}
			}
			if b, ok := in.Call.Value.(*ssa.Builtin); ok && b.Name() == "append" {
				if sl, ok := in.Type().Underlying().(*types.Slice); ok && c.isASTNode(sl.Elem()) && p.spec.trackAppend {
					pending = false
					trace = append(trace, "append")
				}
				continue
			}
			switch {
			case callee == c.A.Advance:
				if lastMatch != nil {
					p.unknown(in.Pos(), trace, "a match result is still unexamined when the cursor moves")
					return
				}
				if !fact.known {
					p.unknown(in.Pos(), trace, "advance() over a token that is not known here ("+fact.String(c)+")")
					return
				}
				if !ev(in.Pos(), "consume:"+c.A.TokName[fact.tok]) {
					return
				}
				fact = tokFact{}
			case callee == c.A.Match:
				k, ok := p.tokConst(in.Call.Args[1], ints)
				if !ok {
					p.unknown(in.Pos(), trace, "match() with a non-constant token")
					return
				}
				// the path forks on the outcome, which becomes a path fact about the
				// returned error (tested right away or after a merge)
				if !fact.mustBe(k) {
					i2 := ints.clone()
					i2[in] = outFail
					p.run(plConfig{blk: cf.blk, dfa: dfa, fact: fact.without(k), pending: pending}, idx+1, append([]string(nil), trace...), i2)
				}
				if fact.canBe(k) {
					p.events++
					e := "consume:" + c.A.TokName[k]
					n, ok := p.spec.next(dfa, e)
					tr := append(append([]string(nil), trace...), e)
					if !ok {
						p.fail(in.Pos(), tr, fmt.Sprintf("event %q is not allowed here (%s; automaton state %d)", e, p.spec.events, dfa))
					} else {
						i2 := ints.clone()
						i2[in] = outSuccess
						p.run(plConfig{blk: cf.blk, dfa: n, fact: tokFact{}, pending: pending}, idx+1, tr, i2)
					}
				}
				return
			case callee == c.A.ParseExpr:
				if p.spec.trackAppend && pending {
					p.fail(in.Pos(), trace, "the previously parsed element was not stored before the next element is parsed")
					return
				}
				if !ev(in.Pos(), "E") {
					return
				}
				if p.spec.trackAppend {
					pending = true
				}
				fact = tokFact{}
				lastParse = in
			case callee == c.A.Tokenize:
				if !ev(in.Pos(), "T") {
					return
				}
			case c.cursorMover(callee) && p.inlinable(callee):
				if lastMatch != nil {
					p.unknown(in.Pos(), trace, "a match result is still unexamined when a helper is called")
					return
				}
				sub := &plRun{c: c, fn: callee, spec: p.spec, visited: map[plConfig]bool{}, stack: append(append([]*ssa.Function(nil), p.stack...), p.fn), fenv: map[ssa.Value]*ssa.Function{}}
				// function-valued arguments (a method value, a function literal) are bound to the helper's parameters
				for ai, par := range callee.Params {
					off := ai
					if in.Call.Value != nil && callee.Signature.Recv() != nil && staticCallee(in) == nil {
						off = ai // a bound call keeps its receiver as argument 0
					}
					if off < len(in.Call.Args) {
						if _, isSig := par.Type().Underlying().(*types.Signature); isSig {
							if f := p.funcValue(in.Call.Args[off]); f != nil {
								sub.fenv[par] = f
							}
						}
					}
				}
				call, blk, resume := in, cf.blk, idx+1
				sub.onReturn = func(d int, f tokFact, pend bool, tr []string, outcome int) {
					ints2 := ints.clone()
					ints2[call] = int64(outcome)
					p.run(plConfig{blk: blk, dfa: d, fact: f, pending: pend}, resume, tr, ints2)
				}
				// constant token arguments are bound to the helper's parameters
				sub0 := intEnv{}
				for ai, par := range callee.Params {
					if ai < len(in.Call.Args) && types.Identical(par.Type(), c.A.TokT) {
						if k, ok := p.tokConst(in.Call.Args[ai], ints); ok {
							sub0[par] = k
						}
					}
				}
				sub.walkE(plConfig{blk: callee.Blocks[0], dfa: dfa, fact: fact, pending: pending}, append([]string(nil), trace...), nil, sub0)
				p.states += sub.states
				p.events += sub.events
				for _, f := range sub.findings {
					p.fail(f.pos, f.trace, f.what)
				}
				for _, f := range sub.undecided {
					p.unknown(f.pos, f.trace, f.what)
				}
				return
			case c.cursorMover(callee):
				if !ev(in.Pos(), "call:"+callee.Name()) {
					return
				}
				fact = tokFact{}
			}
		case *ssa.Return:
			errSlot := errIndex(p.fn.Signature)
			if p.onReturn != nil {
				if lastMatch != nil {
					p.unknown(in.Pos(), trace, "return with an unexamined match result")
					return
				}
				var errv ssa.Value
				if errSlot >= 0 {
					errv = retResults(in)[errSlot]
				}
				switch p.errOutcome(errv, ints) {
				case outSuccess:
					p.onReturn(dfa, fact, pending, trace, outSuccess)
				case outFail:
					p.onReturn(dfa, fact, pending, trace, outFail)
				default:
					p.onReturn(dfa, fact, pending, trace, outSuccess)
					p.onReturn(dfa, fact, pending, trace, outFail)
				}
				return
			}
			if errSlot >= 0 && p.errOutcome(retResults(in)[errSlot], ints) == outSuccess {
				p.successReturns++
				if lastMatch != nil {
					p.unknown(in.Pos(), trace, "success return with an unexamined match result")
					return
				}
				if !p.spec.accept(dfa) {
					p.fail(in.Pos(), trace, fmt.Sprintf("a success return is reachable after the event sequence [%s], which is not a sentence of %s", strings.Join(trace, " "), p.spec.events))
				} else if p.spec.trackAppend && pending {
					p.fail(in.Pos(), trace, "success return while a parsed element has not been stored")
				} else if p.spec.requireEOF && !fact.mustBe(c.tok("tEOF")) {
					p.fail(in.Pos(), trace, "success return without having established that the current token is tEOF ("+fact.String(c)+")")
				}
			}
			return
		case *ssa.If:
			// outcome of a pending match?
			if lastMatch != nil {
				bo, ok := in.Cond.(*ssa.BinOp)
				if ok && (bo.Op == token.NEQ || bo.Op == token.EQL) && bo.X == lastMatch.call && isNilConst(bo.Y) {
					failIdx := 0
					if bo.Op == token.EQL {
						failIdx = 1
					}
					k := lastMatch.tok
					// failure edge: cursor unchanged, current != k
					if !fact.mustBe(k) {
						nextF(cf.blk.Succs[failIdx], dfa, fact.without(k), pending, trace, lastMatch.call, outFail)
					}
					// success edge
					if fact.canBe(k) {
						p.events++
						e := "consume:" + c.A.TokName[k]
						n, ok := p.spec.next(dfa, e)
						tr := append(append([]string(nil), trace...), e)
						if !ok {
							p.fail(lastMatch.call.Pos(), tr, fmt.Sprintf("event %q is not allowed here (%s; automaton state %d)", e, p.spec.events, dfa))
						} else {
							nextF(cf.blk.Succs[1-failIdx], n, tokFact{}, pending, tr, lastMatch.call, outSuccess)
						}
					}
					return
				}
				p.unknown(in.Pos(), trace, "the result of match() is not tested by the branch that follows it")
				return
			}
			// a boolean whose value is a path fact (a stored token test, a flag)
			if n, ok := ints[in.Cond]; ok && types.Identical(in.Cond.Type().Underlying(), types.Typ[types.Bool]) && lastMatch == nil {
				idx := 1
				if n != 0 {
					idx = 0
				}
				next(cf.blk.Succs[idx], dfa, fact, pending, trace)
				return
			}
			// the error of an inlined helper call?
			if bo, ok := in.Cond.(*ssa.BinOp); ok && (bo.Op == token.NEQ || bo.Op == token.EQL) && isNilConst(bo.Y) {
				if o := p.errOutcome(bo.X, ints); o == outSuccess || o == outFail {
					isNil := o == outSuccess
					idx := 1
					if (bo.Op == token.EQL) == isNil {
						idx = 0
					}
					next(cf.blk.Succs[idx], dfa, fact, pending, trace)
					return
				}
			}
			// a decided comparison of small integers (loop counters)?
			if bo, ok := in.Cond.(*ssa.BinOp); ok {
				if a, ok1 := ints.get(bo.X); ok1 {
					if b, ok2 := ints.get(bo.Y); ok2 && types.Identical(bo.X.Type(), types.Typ[types.Int]) {
						switch bo.Op {
						case token.LSS, token.LEQ, token.GTR, token.GEQ, token.EQL, token.NEQ:
							idx := 1
							if cmpConst(bo.Op, a, b) {
								idx = 0
							}
							next(cf.blk.Succs[idx], dfa, fact, pending, trace)
							return
						}
					}
				}
			}
			// test of the current token?
			if bo, ok := in.Cond.(*ssa.BinOp); ok && (bo.Op == token.EQL || bo.Op == token.NEQ) {
				if p.isCurrentTok(bo.X) {
					if k, ok := p.tokConst(bo.Y, ints); ok {
						eqIdx := 0
						if bo.Op == token.NEQ {
							eqIdx = 1
						}
						if fact.canBe(k) {
							next(cf.blk.Succs[eqIdx], dfa, fact.with(k), pending, trace)
						}
						if !fact.mustBe(k) {
							next(cf.blk.Succs[1-eqIdx], dfa, fact.without(k), pending, trace)
						}
						return
					}
				}
				_ = lastParse
			}
			// test of some other error value against nil: both edges, each with its fact
			if bo, ok := in.Cond.(*ssa.BinOp); ok && (bo.Op == token.EQL || bo.Op == token.NEQ) && isNilConst(bo.Y) && isErrorType(bo.X.Type()) {
				nilIdx := 0
				if bo.Op == token.NEQ {
					nilIdx = 1
				}
				nextF(cf.blk.Succs[nilIdx], dfa, fact, pending, trace, bo.X, outSuccess)
				nextF(cf.blk.Succs[1-nilIdx], dfa, fact, pending, trace, bo.X, outFail)
				return
			}
			for _, s := range cf.blk.Succs {
				next(s, dfa, fact, pending, trace)
			}
			return
		case *ssa.Jump:
			if lastMatch != nil {
				p.unknown(in.Pos(), trace, "the result of match() is not tested in the block that calls it")
				return
			}
			next(cf.blk.Succs[0], dfa, fact, pending, trace)
			return
		}
	}
}

// ---------------------------------------------------------------- specifications

func listSpec(c *Ctx, name, sep, closer string, allowEmpty bool) *plSpec {
	lang := "element (" + sep + " element)* " + closer
	if allowEmpty {
		lang = "(" + lang + " | " + closer + ")"
	}
	return &plSpec{
		name: name, start: 0, trackAppend: true, events: lang,
		accept: func(s int) bool { return s == 9 },
		next: func(s int, e string) (int, bool) {
			switch {
			case s == 0 && e == "E":
				return 1, true
			case s == 0 && allowEmpty && e == "consume:"+closer:
				return 9, true
			case s == 1 && e == "consume:"+sep:
				return 2, true
			case s == 1 && e == "consume:"+closer:
				return 9, true
			case s == 2 && e == "E":
				return 1, true
			}
			return 0, false
		},
	}
}

func hashSpec(c *Ctx) *plSpec {
	return &plSpec{
		name: "multi-select hash", start: 0, trackAppend: true,
		events: "key tColon element (tComma key tColon element)* tRbrace",
		accept: func(s int) bool { return s == 9 },
		next: func(s int, e string) (int, bool) {
			switch {
			case s == 0 && (e == "consume:tUnquotedIdentifier" || e == "consume:tQuotedIdentifier"):
				return 1, true
			case s == 1 && e == "consume:tColon":
				return 2, true
			case s == 2 && e == "E":
				return 3, true
			case s == 3 && e == "consume:tComma":
				return 0, true
			case s == 3 && e == "consume:tRbrace":
				return 9, true
			}
			return 0, false
		},
	}
}

func sliceSpec(c *Ctx) *plSpec {
	return &plSpec{
		name: "slice bracket", start: 0,
		events: "number? tColon number? (tColon number?)? tRbracket",
		accept: func(s int) bool { return s == 9 },
		next: func(s int, e string) (int, bool) {
			N, C, R := "consume:tNumber", "consume:tColon", "consume:tRbracket"
			switch {
			case s == 0 && e == N:
				return 1, true
			case (s == 0 || s == 1) && e == C:
				return 2, true
			case s == 2 && e == N:
				return 3, true
			case (s == 2 || s == 3) && e == C:
				return 4, true
			case s == 4 && e == N:
				return 5, true
			case (s == 2 || s == 3 || s == 4 || s == 5) && e == R:
				return 9, true
			case (s == 0 || s == 1) && e == R:
				// "]" or "n]" without a colon: excluded by the entry contract
				// (the caller has seen a colon at lookahead 0 or 1), checked separately
				return 9, true
			}
			return 0, false
		},
	}
}

func parseSpec(c *Ctx) *plSpec {
	return &plSpec{
		name: "Parse", start: 0, requireEOF: true,
		events: "tokenize parseExpression <current token is tEOF>",
		accept: func(s int) bool { return s == 2 },
		next: func(s int, e string) (int, bool) {
			switch {
			case s == 0 && e == "T":
				return 1, true
			case s == 1 && e == "E":
				return 2, true
			}
			return 0, false
		},
	}
}

// clauseStart: the body block of a case clause K of fn's token switch.
func (c *Ctx) clauseStart(fn *ssa.Function, tokName string) *ssa.BasicBlock {
	k := c.tok(tokName)
	for _, b := range fn.Blocks {
		ifi := blockIf(b)
		if ifi == nil {
			continue
		}
		bo, ok := ifi.Cond.(*ssa.BinOp)
		if !ok || bo.Op != token.EQL {
			continue
		}
		if _, ok := bo.X.(*ssa.Parameter); !ok {
			// nud switches on token.tokenType: a Field/FieldAddr load of the parameter
			if _, _, ok := fieldRead(bo.X); !ok {
				continue
			}
		}
		if v, ok := constInt(bo.Y); ok && v == k && types.Identical(bo.Y.Type(), c.A.TokT) {
			return b.Succs[0]
		}
	}
	lost("%s has no clause for %s", fname(fn), tokName)
	return nil
}

func init() {
	register("P-LISTS", ruleLists)
	register("P-PARSE", ruleParseEOF)
	register("P-SLICE", ruleSliceGrammar)
	register("P-CALLEE", ruleCallee)
	register("P-DOTRHS", ruleDotRHS)
	register("P-SLICE0", ruleSliceStepZero)
	register("P-SLICEPROJ", ruleSliceProjects)
}

// P-SLICEPROJ: a slice is a projection. Wherever the parser finds out that a
// bracket operand is an ASTSlice node (a test of nodeType against ASTSlice),
// every success return on the slice edge yields an ASTProjection node: the
// right-hand side (the identity when nothing follows) is applied to each
// selected element and null results are dropped.
func ruleSliceProjects(c *Ctx) *RuleResult {
	r := &RuleResult{Doc: "wherever the parser tests a node for being an ASTSlice, every success return on the slice edge is an ASTProjection over the index expression (a slice with nothing after it still projects the identity, which drops nulls)", Floor: 1}
	for _, fn := range allFuncs(c.SLib) {
		if !c.scopeOf(fn)["parse"] {
			continue
		}
		n := 0
		for _, b := range fn.Blocks {
			ifi := blockIf(b)
			if ifi == nil {
				continue
			}
			bo, ok := ifi.Cond.(*ssa.BinOp)
			if !ok || (bo.Op != token.EQL && bo.Op != token.NEQ) {
				continue
			}
			k, ok := constInt(bo.Y)
			if !ok || k != c.A.NT["ASTSlice"] || !types.Identical(bo.Y.Type(), c.A.NodeTypeT) {
				continue
			}
			if _, fld, ok := fieldRead(bo.X); !ok || fld != fNodeType {
				continue
			}
			idx := 0
			if bo.Op == token.NEQ {
				idx = 1
			}
			S := b.Succs[idx]
			other := b.Succs[1-idx]
			n++
			r.Instances++
			key := fmt.Sprintf("sliceproj|%s#%d", fn.Name(), n)
			bad := ""
			nret := 0
			for bb := range reachableFrom(S, nil) {
				if bb == other && !S.Dominates(bb) {
					continue
				}
				ret := blockReturn(bb)
				if ret == nil || !S.Dominates(bb) {
					continue
				}
				res := retResults(ret)
				if len(res) == 0 || !c.isASTNode(res[0].Type()) {
					continue
				}
				if sh := c.nodeShapeOf(res[0]); sh != nil && sh.Zero {
					continue // error return
				}
				nret++
				bns, ok := c.builtNodes(res[0])
				if !ok {
					bad = "the return at " + c.pos(ret.Pos()) + " yields a node that is not built here (" + c.symStr(res[0], 0) + ")"
					continue
				}
				for _, bn := range bns {
					if bn.shape.NodeType != "ASTProjection" {
						bad = "the return at " + c.pos(ret.Pos()) + " yields " + bn.shape.String() + " for a slice: the selected elements are not projected (null elements are kept)"
					}
				}
			}
			switch {
			case bad != "":
				r.viol(key, c.pos(ifi.Cond.Pos()), fname(fn), bad)
			case nret == 0:
				r.undecided(key, c.pos(ifi.Cond.Pos()), fname(fn), "no success return is dominated by the slice edge")
			default:
				r.ok(key, c.pos(ifi.Cond.Pos()), fname(fn), fmt.Sprintf("%d success return(s) on the slice edge, each an ASTProjection", nret))
			}
		}
	}
	return r
}

// P-CALLEE: a call's callee is an identifier node. Anchored on the
// construction of the ASTFunctionExpression node, wherever it lives: the node
// N whose payload becomes the function name must have been tested for
// nodeType == ASTField on every path to the construction, and N must be the
// node to the left of '(' (led's node parameter, possibly handed to a helper).
func ruleCallee(c *Ctx) *RuleResult {
	r := &RuleResult{Doc: "every construction of an ASTFunctionExpression node is dominated by the test that the node supplying its name (the node left of '(') is an ASTField", Floor: 1}
	nodeParamOf := func(fn *ssa.Function) (*ssa.Parameter, *ssa.Alloc) {
		var np *ssa.Parameter
		for _, p := range fn.Params {
			if c.isASTNode(p.Type()) {
				if np != nil {
					return nil, nil
				}
				np = p
			}
		}
		if np == nil {
			return nil, nil
		}
		return np, paramSpill(np)
	}
	isNodeOf := func(v ssa.Value, np *ssa.Parameter, spill *ssa.Alloc) bool {
		if v == np {
			return true
		}
		if spill == nil {
			return false
		}
		if v == spill {
			return true
		}
		if u, ok := v.(*ssa.UnOp); ok && u.Op == token.MUL && u.X == spill {
			return true
		}
		return false
	}
	n := 0
	for _, fn := range allFuncs(c.SLib) {
		for _, b := range fn.Blocks {
			for _, in := range b.Instrs {
				st, ok := in.(*ssa.Store)
				if !ok {
					continue
				}
				fa, ok := st.Addr.(*ssa.FieldAddr)
				if !ok || fa.Field != fNodeType || !c.isASTNodePtr(fa.X.Type()) {
					continue
				}
				if k, ok := constInt(st.Val); !ok || k != c.A.NT["ASTFunctionExpression"] || !types.Identical(st.Val.Type(), c.A.NodeTypeT) {
					continue
				}
				n++
				r.Instances++
				key := fmt.Sprintf("callee|%s#%d", fn.Name(), n)
				// the name payload stored into the same literal
				var nameVal ssa.Value
				for _, in2 := range b.Instrs {
					if st2, ok := in2.(*ssa.Store); ok {
						if fa2, ok := st2.Addr.(*ssa.FieldAddr); ok && fa2.X == fa.X && fa2.Field == fValue {
							nameVal = st2.Val
						}
					}
				}
				if mi, ok := nameVal.(*ssa.MakeInterface); ok {
					nameVal = mi.X
				}
				if ex, ok := nameVal.(*ssa.Extract); ok {
					if ta, ok := ex.Tuple.(*ssa.TypeAssert); ok {
						nameVal = ta
					}
				}
				if ta, ok := nameVal.(*ssa.TypeAssert); ok {
					nameVal = ta.X
				}
				if nameVal == nil {
					r.undecided(key, c.pos(st.Pos()), fname(fn), "the function-expression node is built without a name payload")
					continue
				}
				base, fld, ok := fieldRead(nameVal)
				np, spill := nodeParamOf(fn)
				if !ok || fld != fValue || np == nil || !isNodeOf(base, np, spill) {
					r.undecided(key, c.pos(st.Pos()), fname(fn), "the function name is not the payload of the function's node parameter")
					continue
				}
				// guards: blocks entered only when that node's nodeType == ASTField
				dominated := false
				for _, gb := range fn.Blocks {
					ifi := blockIf(gb)
					if ifi == nil {
						continue
					}
					bo, ok := ifi.Cond.(*ssa.BinOp)
					if !ok || (bo.Op != token.EQL && bo.Op != token.NEQ) {
						continue
					}
					k, ok := constInt(bo.Y)
					if !ok || k != c.A.NT["ASTField"] || !types.Identical(bo.Y.Type(), c.A.NodeTypeT) {
						continue
					}
					gbase, gfld, ok := fieldRead(bo.X)
					if !ok || gfld != fNodeType || !isNodeOf(gbase, np, spill) {
						continue
					}
					idx := 0
					if bo.Op == token.NEQ {
						idx = 1
					}
					s := gb.Succs[idx]
					if len(s.Preds) == 1 && s.Dominates(b) {
						dominated = true
					}
				}
				if !dominated {
					r.viol(key, c.pos(st.Pos()), fname(fn), "a function expression can be built although the node before '(' is not an identifier (ASTField): the grammar only allows unquoted-string '(' args ')'")
					continue
				}
				// the tested node is the node left of '(': led's own parameter, or led hands it over unchanged
				if fn != c.A.Led {
					lnp, lspill := nodeParamOf(c.A.Led)
					sites, bad := 0, ""
					for _, caller := range allFuncs(c.SLib) {
						for _, call := range callsTo(caller, fn) {
							sites++
							argIdx := -1
							for i, p := range fn.Params {
								if p == np {
									argIdx = i
								}
							}
							if caller != c.A.Led || lnp == nil || argIdx < 0 || !isNodeOf(call.Call.Args[argIdx], lnp, lspill) {
								bad = c.pos(call.Pos())
							}
						}
					}
					if sites == 0 || bad != "" {
						r.undecided(key, c.pos(st.Pos()), fname(fn), "the helper building the function expression is not called from led with led's left node ("+bad+")")
						continue
					}
				}
				r.ok(key, c.pos(st.Pos()), fname(fn), "the function-expression node is only built when the left node is an ASTField (identifier)")
			}
		}
	}
	return r
}

// P-SLICE0: a zero step is an error for every array.
// derivedFromElem: v is (a field of / a copy of) element k of some slice or
// array: followed through field reads, loads, and local variables that are
// stored exactly once.
func derivedFromElem(v ssa.Value, k int64, depth int) bool {
	if depth > 8 {
		return false
	}
	switch v := v.(type) {
	case *ssa.Field:
		return derivedFromElem(v.X, k, depth+1)
	case *ssa.FieldAddr:
		return derivedFromElem(v.X, k, depth+1)
	case *ssa.UnOp:
		if v.Op == token.MUL {
			return derivedFromElem(v.X, k, depth+1)
		}
	case *ssa.IndexAddr:
		if i, ok := constInt(v.Index); ok && i == k {
			return true
		}
	case *ssa.Index:
		if i, ok := constInt(v.Index); ok && i == k {
			return true
		}
	case *ssa.Alloc:
		var stored ssa.Value
		n := 0
		for _, rf := range *v.Referrers() {
			if st, ok := rf.(*ssa.Store); ok && st.Addr == v {
				stored = st.Val
				n++
			}
		}
		if n == 1 {
			return derivedFromElem(stored, k, depth+1)
		}
	}
	return false
}

func ruleSliceStepZero(c *Ctx) *RuleResult {
	r := &RuleResult{Doc: "slice(): every success return follows a successful computeSliceParams; computeSliceParams: every success return follows the false edge of the 'step specified and == 0' test", Floor: 2}
	sl, cp := c.sliceFns()
	// (1) slice
	calls := callsTo(sl, cp)
	r.Instances++
	if len(calls) == 0 {
		r.viol("slice-calls-params", c.pos(sl.Pos()), fname(sl), "slice() does not call computeSliceParams")
	} else {
		bad := ""
		for _, b := range sl.Blocks {
			ret := blockReturn(b)
			if ret == nil || !isNilConst(retResults(ret)[1]) {
				continue
			}
			dom := false
			for _, call := range calls {
				if call.Block().Dominates(b) && call.Block() != b {
					dom = true
				}
			}
			if !dom {
				bad = c.pos(ret.Pos())
			}
		}
		if bad == "" {
			r.ok("slice-calls-params", c.pos(calls[0].Pos()), fname(sl), "every success return of slice() is dominated by the parameter computation (whose error is forwarded: E-DISC)")
		} else {
			r.viol("slice-calls-params", bad, fname(sl), "a success return of slice() is reachable without computing the slice parameters: a zero step would not be reported (e.g. for an empty array)")
		}
	}
	// (2) the bounds computation (or a helper it calls) tests the step — the
	// third slice parameter — against 0, and the zero edge only fails
	r.Instances++
	fns := []*ssa.Function{cp}
	seenF := map[*ssa.Function]bool{cp: true}
	for depth := 0; depth < 2; depth++ {
		for _, f := range append([]*ssa.Function(nil), fns...) {
			for _, b := range f.Blocks {
				for _, in := range b.Instrs {
					if call, ok := in.(*ssa.Call); ok {
						if g := staticCallee(call); g != nil && g.Pkg == c.SLib && g.Blocks != nil && !seenF[g] {
							seenF[g] = true
							fns = append(fns, g)
						}
					}
				}
			}
		}
	}
	found, okErr := false, false
	var where *ssa.Function
	pos0 := c.pos(cp.Pos())
	for _, f := range fns {
		errSlot := errIndex(f.Signature)
		for _, b := range f.Blocks {
			ifi := blockIf(b)
			if ifi == nil {
				continue
			}
			bo, ok := ifi.Cond.(*ssa.BinOp)
			if !ok || (bo.Op != token.EQL && bo.Op != token.NEQ) {
				continue
			}
			x, y := bo.X, bo.Y
			if k, ok := constInt(x); ok && k == 0 {
				x, y = y, x
			}
			if k, ok := constInt(y); !ok || k != 0 || !types.Identical(x.Type().Underlying(), types.Typ[types.Int]) {
				continue
			}
			// the third slice parameter: an element [2] of the parameter list
			if sx := c.symStr(x, 0); !strings.Contains(sx, "[2]") && !derivedFromElem(x, 2, 0) {
				continue
			}
			found = true
			where = f
			zi := 0
			if bo.Op == token.NEQ {
				zi = 1
			}
			zeroEdge := b.Succs[zi]
			pos0 = c.pos(ifi.Cond.Pos())
			good := len(zeroEdge.Preds) == 1 && errSlot >= 0
			if good {
				for bb := range reachableFrom(zeroEdge, nil) {
					if !zeroEdge.Dominates(bb) {
						continue
					}
					if ret := blockReturn(bb); ret != nil && !neverNilError(c, retResults(ret)[errSlot]) {
						// a named error result assigned a fresh error on this edge
						if !dominatedByFreshErrorStore(c, retResults(ret)[errSlot], zeroEdge, bb) {
							good = false
						}
					}
				}
			}
			if good {
				okErr = true
			}
		}
	}
	switch {
	case !found:
		r.viol("step-zero-test", c.pos(cp.Pos()), fname(cp), "no test of the step (third slice parameter) against 0")
	case okErr:
		r.ok("step-zero-test", pos0, fname(where), "step == 0 leads only to returns with a fresh error")
	default:
		r.viol("step-zero-test", pos0, fname(where), "the step == 0 edge can reach a success return")
	}
	return r
}

func (c *Ctx) reportPL(r *RuleResult, key string, p *plRun, pos token.Pos) {
	r.Instances++
	fnName := fname(p.fn)
	if len(p.undecided) > 0 {
		for i, f := range p.undecided {
			r.undecided(fmt.Sprintf("%s|u%d", key, i+1), c.pos(f.pos), fnName, f.what+" after ["+strings.Join(f.trace, " ")+"]")
		}
		return
	}
	if p.successReturns == 0 {
		r.undecided(key, c.pos(pos), fnName, "no success return reachable: nothing decided")
		return
	}
	if len(p.findings) == 0 {
		r.ok(key, c.pos(pos), fnName, fmt.Sprintf("every path to a success return spells a sentence of: %s (%d product states, %d events, %d success returns)", p.spec.events, p.states, p.events, p.successReturns))
		return
	}
	sort.Slice(p.findings, func(i, j int) bool { return p.findings[i].pos < p.findings[j].pos })
	for i, f := range p.findings {
		r.viol(fmt.Sprintf("%s|v%d", key, i+1), c.pos(f.pos), fnName, f.what+"; path events: ["+strings.Join(f.trace, " ")+"]")
	}
}

// P-LISTS: the three comma-separated list loops.
func ruleLists(c *Ctx) *RuleResult {
	r := &RuleResult{Doc: "list loops accept exactly: arguments (E (, E)*)? ) ; multi-select list E (, E)* ] ; multi-select hash K : E (, K : E)* }", Floor: 3}
	// function arguments: the tLparen clause of led
	{
		fn := c.A.Led
		sw, _ := c.switchLabels(fn, c.A.TokT)
		cl := sw.clause("tLparen")
		if cl == nil {
			lost("led has no tLparen clause")
		}
		p := &plRun{c: c, fn: fn, spec: listSpec(c, "function arguments", "tComma", "tRparen", true)}
		p.explore(c.clauseStart(fn, "tLparen"), tokFact{})
		c.reportPL(r, "args|led|tLparen", p, cl.Pos)
	}
	{
		fn := c.nodeProducerFn("ASTMultiSelectList", "parseMultiSelectList")
		p := &plRun{c: c, fn: fn, spec: listSpec(c, "multi-select list", "tComma", "tRbracket", false)}
		p.explore(fn.Blocks[0], tokFact{})
		c.reportPL(r, "list|parseMultiSelectList", p, fn.Pos())
	}
	{
		fn := c.nodeProducerFn("ASTMultiSelectHash", "parseMultiSelectHash")
		p := &plRun{c: c, fn: fn, spec: hashSpec(c)}
		p.explore(fn.Blocks[0], tokFact{})
		c.reportPL(r, "hash|parseMultiSelectHash", p, fn.Pos())
	}
	return r
}

// P-PARSE: Parse tokenizes, parses one expression and requires EOF.
func ruleParseEOF(c *Ctx) *RuleResult {
	r := &RuleResult{Doc: "Parse: every success return follows tokenize, parseExpression and a test that the current token is tEOF", Floor: 1}
	fn := c.A.Parse
	p := &plRun{c: c, fn: fn, spec: parseSpec(c)}
	p.explore(fn.Blocks[0], tokFact{})
	c.reportPL(r, "parse|Parse", p, fn.Pos())
	return r
}

// P-DOTRHS: what follows a dot is parsed with the caller's binding power, so
// that a projection's right-hand side extends over the following tighter
// operators whatever the first operand is.
func ruleDotRHS(c *Ctx) *RuleResult {
	r := &RuleResult{Doc: "parseDotRHS: every success return is the result of parseExpression(bindingPower) — i.e. continues the infix loop with the caller's power; returning a parsed multi-select directly ends a projection's right-hand side early (a[*].[x,y].c would group as (a[*].[x,y]).c)", Floor: 2}
	fn := c.A.ParseDotRHS
	n := 0
	for _, b := range fn.Blocks {
		ret := blockReturn(b)
		if ret == nil {
			continue
		}
		res := retResults(ret)
		if sh := c.nodeShapeOf(res[0]); sh != nil && sh.Zero {
			continue // error return
		}
		n++
		r.Instances++
		src := c.symStr(res[0], 0)
		callee := ""
		if ex, ok := res[0].(*ssa.Extract); ok {
			if call, ok := ex.Tuple.(*ssa.Call); ok {
				if sc := staticCallee(call); sc != nil {
					callee = sc.Name()
					if sc == c.A.ParseExpr {
						if _, isParam := call.Call.Args[1].(*ssa.Parameter); isParam {
							r.ok("return|parseExpression", c.pos(ret.Pos()), fname(fn), "returns parseExpression(bindingPower): the infix loop continues with the caller's power")
							continue
						}
					}
				}
			}
		}
		r.viol("return|"+callee, c.pos(ret.Pos()), fname(fn), "returns "+src+" without continuing the infix loop: operators after this operand that bind tighter than the caller's power are not absorbed (a projection's right-hand side ends early)")
	}
	return r
}

// P-SLICE: the slice bracket accepts exactly [start]:[stop][:[step]].
// colonFlow: forward must-fact over fn "a colon was seen at lookahead 0 or 1
// and the cursor has not moved since": set on the edge of a lookahead(k) ==
// tColon test on which the test holds (true edge of ==, false edge of !=),
// cleared by any cursor-moving call, joined by AND.
func (c *Ctx) colonFlow(caller *ssa.Function) (map[*ssa.BasicBlock]bool, func(*ssa.BasicBlock, int) bool, func(*ssa.BasicBlock, ssa.Instruction) bool) {
	colonEdge := func(b *ssa.BasicBlock, si int) bool {
		ifi := blockIf(b)
		if ifi == nil {
			return false
		}
		cond := ifi.Cond
		neg := false
		if u, isU := cond.(*ssa.UnOp); isU && u.Op == token.NOT {
			cond, neg = u.X, true
		}
		bo, isBo := cond.(*ssa.BinOp)
		if !isBo || (bo.Op != token.EQL && bo.Op != token.NEQ) {
			return false
		}
		x, y := bo.X, bo.Y
		if _, isK := constInt(x); isK {
			x, y = y, x
		}
		k, isK := constInt(y)
		la, isCall := x.(*ssa.Call)
		if !isK || !isCall || k != c.tok("tColon") || staticCallee(la) != c.A.Lookahead {
			return false
		}
		holds := 0
		if bo.Op == token.NEQ {
			holds = 1
		}
		if neg {
			holds = 1 - holds
		}
		return si == holds
	}
	moves := func(b *ssa.BasicBlock, upto ssa.Instruction) bool {
		for _, in := range b.Instrs {
			if in == upto {
				return false
			}
			if cl, isCall := in.(*ssa.Call); isCall {
				sc := staticCallee(cl)
				if sc == nil {
					if _, isB := cl.Call.Value.(*ssa.Builtin); isB {
						continue
					}
					return true
				}
				if c.cursorMover(sc) {
					return true
				}
			}
		}
		return false
	}
	in := map[*ssa.BasicBlock]bool{}
	for _, b := range caller.Blocks {
		in[b] = b != caller.Blocks[0]
	}
	for changed := true; changed; {
		changed = false
		for _, b := range caller.Blocks {
			if b == caller.Blocks[0] {
				continue
			}
			v := true
			for _, pb := range b.Preds {
				for si, sb := range pb.Succs {
					if sb != b {
						continue
					}
					if !(colonEdge(pb, si) || (in[pb] && !moves(pb, nil))) {
						v = false
					}
				}
			}
			if v != in[b] {
				in[b] = v
				changed = true
			}
		}
	}
	return in, colonEdge, moves
}

func ruleSliceGrammar(c *Ctx) *RuleResult {
	r := &RuleResult{Doc: "the slice bracket: every path from where a colon is known to be ahead to a success return spells number? : number? (: number?)? ] — at most two colons, no two numbers in a row (loop counter tracked as a small integer); the slice code is entered only with a colon at lookahead 0 or 1", Floor: 1}
	fn := c.nodeProducerFn("ASTSlice", "parseSliceExpression")
	// the function may itself decide between index and slice (the colon test is
	// inside it): then the slice grammar starts at the edges where the colon is known
	inFn, colonEdgeFn, _ := c.colonFlow(fn)
	var entries []*ssa.BasicBlock
	seenE := map[*ssa.BasicBlock]bool{}
	for _, b := range fn.Blocks {
		for si, sb := range b.Succs {
			if colonEdgeFn(b, si) && !seenE[sb] {
				// follow the chain of `||` tests: the entry is where the fact holds on every way in
				if inFn[sb] {
					seenE[sb] = true
					entries = append(entries, sb)
				}
			}
		}
	}
	if len(entries) == 0 {
		p := &plRun{c: c, fn: fn, spec: sliceSpec(c)}
		p.explore(fn.Blocks[0], tokFact{})
		c.reportPL(r, "slice|parseSliceExpression", p, fn.Pos())
	} else {
		p := &plRun{c: c, fn: fn, spec: sliceSpec(c)}
		for _, e := range entries {
			p.explore(e, tokFact{})
		}
		c.reportPL(r, "slice|parseSliceExpression", p, fn.Pos())
		// the slice node is built only where the colon is known
		r.Instances++
		bad := ""
		for _, b := range fn.Blocks {
			for _, in := range b.Instrs {
				st, ok := in.(*ssa.Store)
				if !ok {
					continue
				}
				fa, ok := st.Addr.(*ssa.FieldAddr)
				if !ok || fa.Field != fNodeType || !c.isASTNodePtr(fa.X.Type()) {
					continue
				}
				if k, ok := constInt(st.Val); ok && c.A.NTName[k] == "ASTSlice" {
					reach := false
					for _, e := range entries {
						if e == b || e.Dominates(b) {
							reach = true
						}
					}
					if !reach {
						bad = c.pos(st.Pos())
					}
				}
			}
		}
		key := "slice-entry|" + fname(fn)
		if bad == "" {
			r.ok(key, c.pos(fn.Pos()), fname(fn), "the slice node is built only behind a lookahead(k) == colon test of the same function")
		} else {
			r.viol(key, bad, fname(fn), "a slice node can be built without a colon ahead: an index like [1] would become a slice")
		}
		return r
	}
	// entry contract: every call is on an edge where lookahead(0) == tColon || lookahead(1) == tColon holds
	for _, caller := range allFuncs(c.SLib) {
		for _, call := range callsTo(caller, fn) {
			r.Instances++
			in, _, moves := c.colonFlow(caller)
			ok := in[call.Block()] && !moves(call.Block(), call)
			key := "slice-entry|" + fname(caller)
			if ok {
				r.ok(key, c.pos(call.Pos()), fname(caller), "parseSliceExpression is entered only when a colon is at lookahead 0 or 1")
			} else {
				r.viol(key, c.pos(call.Pos()), fname(caller), "parseSliceExpression can be entered without a colon ahead: an index like [1] would become a slice")
			}
		}
	}
	return r
}

// dominatedByFreshErrorStore: v is a phi/value that, on every path from edge
// block S to block b, was last given an error that is non-nil by construction
// (single-exit style: `err = errors.New(...)` then fall through to `return x, err`).
func dominatedByFreshErrorStore(c *Ctx, v ssa.Value, S, b *ssa.BasicBlock) bool {
	ph, ok := v.(*ssa.Phi)
	if !ok {
		return false
	}
	// every incoming edge of the phi that is reachable from S carries a fresh error
	okAll, any := true, false
	reach := reachableFrom(S, nil)
	for i, pb := range ph.Block().Preds {
		if !reach[pb] && pb != S {
			continue
		}
		if !S.Dominates(pb) && pb != S {
			continue
		}
		any = true
		e := ph.Edges[i]
		if !neverNilError(c, e) {
			if inner, isPhi := e.(*ssa.Phi); !isPhi || !dominatedByFreshErrorStore(c, inner, S, pb) {
				okAll = false
			}
		}
	}
	return any && okAll
}
