package main

import (
	"fmt"
	"go/types"

	"golang.org/x/tools/go/ssa"
)

// K-MAPEQ: deep equality of objects needs a presence test.
//
// In the deep-equality function (and the library functions it calls), a plain
// lookup m[k] in a map with interface{} values yields nil for a missing key,
// which is also what a present null member yields. If the same function never
// asks that map whether a key is present (no comma-ok lookup) and never walks
// its keys (no range over it), two objects of equal size whose key sets differ
// only in members that are null compare equal: {"a":null} == {"b":null}.
// With the library's reflect.DeepEqual there is no such lookup and the rule has
// nothing to say.
func init() { register("K-MAPEQ", ruleMapEquality) }

func ruleMapEquality(c *Ctx) *RuleResult {
	r := &RuleResult{Doc: "in the deep-equality function and its library callees, a map whose members are read by plain lookup (missing key = nil) is also asked for presence (comma-ok lookup) or walked (range) in the same function; reflect.DeepEqual needs no such test", Floor: 1}
	eq := c.A.ObjsEqual
	fns := []*ssa.Function{eq}
	seen := map[*ssa.Function]bool{eq: true}
	for i := 0; i < len(fns) && i < 32; i++ {
		for _, b := range fns[i].Blocks {
			for _, in := range b.Instrs {
				if call, ok := in.(*ssa.Call); ok {
					if g := staticCallee(call); g != nil && g.Pkg == c.SLib && g.Blocks != nil && !seen[g] {
						seen[g] = true
						fns = append(fns, g)
					}
				}
			}
		}
	}
	total := 0
	for _, fn := range fns {
		plain := map[ssa.Value][]*ssa.Lookup{}
		asked := map[ssa.Value]bool{}
		for _, b := range fn.Blocks {
			for _, in := range b.Instrs {
				switch in := in.(type) {
				case *ssa.Lookup:
					mt, ok := in.X.Type().Underlying().(*types.Map)
					if !ok {
						continue
					}
					if _, isIface := mt.Elem().Underlying().(*types.Interface); !isIface {
						continue
					}
					if in.CommaOk {
						asked[in.X] = true
					} else {
						plain[in.X] = append(plain[in.X], in)
					}
				case *ssa.Range:
					asked[in.X] = true
				}
			}
		}
		n := 0
		for m, ls := range plain {
			for _, l := range ls {
				n++
				total++
				r.Instances++
				key := fmt.Sprintf("%s|lookup#%d", fname(fn), n)
				if asked[m] {
					r.ok(key, c.pos(l.Pos()), fname(fn), "the map is also asked for presence or walked in this function")
				} else {
					r.viol(key, c.pos(l.Pos()), fname(fn), "members of this map are read by plain lookup only: a missing key reads as null, so two objects of equal size whose key sets differ in null members compare equal ({\"a\":null} == {\"b\":null})")
				}
			}
		}
	}
	if total == 0 {
		r.Instances++
		r.ok("no-map-lookup", c.pos(eq.Pos()), fname(eq), "the deep-equality function reads no map member by key (it relies on reflect.DeepEqual or on comma-ok lookups only)")
	}
	return r
}
