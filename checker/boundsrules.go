package main

import (
	"fmt"
	"go/token"
	"go/types"
	"os"
	"os/exec"
	"path/filepath"
	"regexp"
	"strings"

	"golang.org/x/tools/go/ssa"
)

func init() {
	register("B-INDEX", ruleBounds)
	register("S-STABLE", ruleStableSort)
}

// S-STABLE: ordering functions use a sort primitive documented as stable.
func ruleStableSort(c *Ctx) *RuleResult {
	r := &RuleResult{Doc: "every sort reached from the function handlers is a primitive documented as stable (sort.Stable, sort.SliceStable, slices.SortStableFunc); sort.Sort / sort.Slice are only insertion-stable up to 12 elements", Floor: 3}
	stable := map[string]bool{"sort.Stable": true, "sort.SliceStable": true, "slices.SortStableFunc": true}
	for _, fn := range allFuncs(c.SLib) {
		if !c.scopeOf(fn)["eval"] {
			continue
		}
		n := 0
		for _, b := range fn.Blocks {
			for _, in := range b.Instrs {
				call, ok := in.(*ssa.Call)
				if !ok {
					continue
				}
				nm := calleeName(call)
				if (!strings.HasPrefix(nm, "sort.") && !strings.HasPrefix(nm, "slices.Sort")) || strings.HasSuffix(nm, ".init") {
					continue
				}
				n++
				r.Instances++
				key := fmt.Sprintf("%s|sort#%d", fname(fn), n)
				if stable[nm] {
					r.ok(key, c.pos(call.Pos()), fname(fn), nm+" is stable by documentation")
				} else {
					r.viol(key, c.pos(call.Pos()), fname(fn), nm+" does not guarantee stability: sort()/sort_by() must keep the order of equal elements")
				}
			}
		}
	}
	return r
}

// B-INDEX: non-constant indexing / slicing in the evaluation half.
//
//	guarded:  the index is the counter of a range loop over the same slice, or
//	          the access is dominated by explicit 0 <= i and i < len(x) tests;
//	adapter:  Less/Swap index the field whose len is returned by Len;
//	residual: listed and counted, not claimed (DESIGN §6).
func ruleBounds(c *Ctx) *RuleResult {
	r := &RuleResult{Doc: "every non-constant index in the evaluation half is a range counter of the indexed slice, is dominated by 0 <= i < len tests, or follows the sort.Interface contract; the rest (slice stepping loops) is a declared residual", Floor: 20}
	// the abstract interpreter decides computed indices on lists whose length it knows
	c.run("K-CALL/json")
	c.run("K-EVAL/json")
	unproven, bceErr := c.compilerUnproven()
	if bceErr != nil {
		r.undecided("compiler-bce", "-", "", bceErr.Error())
	} else {
		r.Notes = append(r.Notes, fmt.Sprintf("compiler prove pass: %d bounds checks left in package jmespath (go build -gcflags=-d=ssa/check_bce/debug=1)", len(unproven)))
	}
	for _, fn := range allFuncs(c.SLib) {
		if !c.scopeOf(fn)["eval"] || c.scopeOf(fn)["api"] {
			continue
		}
		if strings.HasSuffix(c.file(fn.Pos()), "_string.go") {
			continue // generated stringers: rule T-STRINGER
		}
		n := 0
		for _, b := range fn.Blocks {
			for _, in := range b.Instrs {
				ia, ok := in.(*ssa.IndexAddr)
				if !ok {
					continue
				}
				if _, isConst := ia.Index.(*ssa.Const); isConst {
					continue // constant indices: K-EVAL / K-CALL / S-SHAPE
				}
				if _, isArr := ia.X.Type().Underlying().(*types.Pointer); isArr {
					if _, ok := ia.X.(*ssa.Alloc); ok {
						continue // element of a fresh array literal (varargs)
					}
				}
				n++
				r.Instances++
				key := fmt.Sprintf("%s|%s[%s]#%d", fname(fn), c.symStr(ia.X, 0), c.symStr(ia.Index, 0), n)
				pos := c.pos(ia.Pos())
				switch why := c.indexGuard(fn, ia); {
				case why != "":
					r.ok(key, pos, fname(fn), why)
				case c.evIndex[ia][0] > 0 && c.evIndex[ia][1] == 0:
					r.ok(key, pos, fname(fn), fmt.Sprintf("decided by abstract interpretation on lists of known length: in range in all %d contexts (argument counts 0..N of K-CALL, the slice triple of S6)", c.evIndex[ia][0]))
				case c.evIndex[ia][1] > 0:
					r.viol(key, pos, fname(fn), "the abstract interpreter found this index out of range (see K-CALL/K-EVAL index obligations)")
				case unproven != nil && !unproven[pos]:
					r.ok(key, pos, fname(fn), "proved in range by the Go compiler's prove pass (bounds check eliminated: not listed by -d=ssa/check_bce)")
				case fn.Name() == "Less" || fn.Name() == "Swap":
					if c.sortContract(fn, ia) {
						r.ok(key, pos, fname(fn), "sort.Interface contract: Len() returns len of the same field that is indexed with the method's own parameters")
					} else {
						r.viol(key, pos, fname(fn), "sort adapter indexes something whose length Len() does not report")
					}
				default:
					r.residual(key, pos, fname(fn), "index depends on integer arithmetic (slice stepping / reversal): not decided by this family (declared residual)")
				}
			}
		}
	}
	return r
}

// compilerUnproven: positions (file:line:col, relative to the repository)
// of the bounds checks the Go compiler's prove pass could NOT eliminate, as
// listed by -d=ssa/check_bce. A site that is absent from the list is proved
// in range by the compiler. The package is compiled, not run.
func (c *Ctx) compilerUnproven() (map[string]bool, error) {
	if c.bce != nil || c.bceErr != nil {
		return c.bce, c.bceErr
	}
	cache := filepath.Join(verifDir(), ".cache", "gobce")
	os.MkdirAll(cache, 0o755)
	cmd := exec.Command("go", "build", "-gcflags=-d=ssa/check_bce/debug=1", "-o", os.DevNull, ".")
	cmd.Dir = c.Root
	cmd.Env = append(os.Environ(), "GOFLAGS=-mod=mod", "GOPROXY=off", "GOSUMDB=off", "GOWORK=off", "GOTOOLCHAIN=local", "GOCACHE="+cache)
	if c.Arch != "" {
		cmd.Env = append(cmd.Env, "GOARCH="+c.Arch)
	}
	if c.Tags != "" {
		cmd.Args = append(cmd.Args[:2], append([]string{"-tags=" + c.Tags}, cmd.Args[2:]...)...)
	}
	out, err := cmd.CombinedOutput()
	re := regexp.MustCompile(`(?m)^\./([^:]+):(\d+):(\d+): Found Is(Slice)?InBounds`)
	m := map[string]bool{}
	for _, g := range re.FindAllStringSubmatch(string(out), -1) {
		m[g[1]+":"+g[2]+":"+g[3]] = true
	}
	if err != nil {
		c.bceErr = fmt.Errorf("go build -gcflags=-d=ssa/check_bce failed: %v: %s", err, strings.TrimSpace(string(out)))
		return nil, c.bceErr
	}
	c.bce = m
	return m, nil
}

// indexGuard: reason why ia is in range, or "".
func (c *Ctx) indexGuard(fn *ssa.Function, ia *ssa.IndexAddr) string {
	blk := ia.Block()
	// (a) range loop: idx = phi(-1, idx+1)+1 guarded by idx < len(x) in the loop header
	lessThanLen := func(cond ssa.Value, idx ssa.Value, x ssa.Value) bool {
		bo, ok := cond.(*ssa.BinOp)
		if !ok || bo.Op != token.LSS || bo.X != idx {
			return false
		}
		call, ok := bo.Y.(*ssa.Call)
		if !ok {
			return false
		}
		if b, ok := call.Call.Value.(*ssa.Builtin); !ok || b.Name() != "len" {
			return false
		}
		if call.Call.Args[0] == x {
			return true
		}
		// x = make([]T, len(y)) indexed by the counter of a range over y
		if ms, ok := x.(*ssa.MakeSlice); ok {
			if lc, ok := ms.Len.(*ssa.Call); ok {
				if b, ok := lc.Call.Value.(*ssa.Builtin); ok && b.Name() == "len" && lc.Call.Args[0] == call.Call.Args[0] {
					return true
				}
			}
		}
		return false
	}
	nonNeg := func(idx ssa.Value) bool {
		// a range counter: phi(-1, v)+1, or an explicit >= 0 guard handled below
		if bo, ok := idx.(*ssa.BinOp); ok && bo.Op == token.ADD {
			if ph, ok := bo.X.(*ssa.Phi); ok {
				if k, ok := constInt(bo.Y); ok && k == 1 {
					okAll := true
					for _, e := range ph.Edges {
						if kk, ok := constInt(e); ok && kk == -1 {
							continue
						}
						if e == idx {
							continue
						}
						okAll = false
					}
					return okAll
				}
			}
		}
		return false
	}
	haveUpper, haveLower := false, nonNeg(ia.Index)
	for d := blk; d != nil; d = d.Idom() {
		id := d.Idom()
		if id == nil {
			break
		}
		ifi := blockIf(id)
		if ifi == nil {
			continue
		}
		onTrue := id.Succs[0] == d || (id.Succs[0].Dominates(d) && len(id.Succs[0].Preds) == 1)
		onFalse := id.Succs[1] == d || (id.Succs[1].Dominates(d) && len(id.Succs[1].Preds) == 1)
		if onTrue && lessThanLen(ifi.Cond, ia.Index, ia.X) {
			haveUpper = true
		}
		if bo, ok := ifi.Cond.(*ssa.BinOp); ok && bo.X == ia.Index {
			if k, ok := constInt(bo.Y); ok && k == 0 {
				if (bo.Op == token.GEQ && onTrue) || (bo.Op == token.LSS && onFalse) {
					haveLower = true
				}
			}
		}
	}
	if haveUpper && haveLower {
		return "index is non-negative (range counter or i >= 0 test) and dominated by i < len of the indexed slice"
	}
	return ""
}

func (c *Ctx) sortContract(fn *ssa.Function, ia *ssa.IndexAddr) bool {
	// ia.X must be a load of recv.field; Len must return len(recv.samefield); index a parameter
	if _, ok := ia.Index.(*ssa.Parameter); !ok {
		return false
	}
	base, owner, fld, ok := fieldReadThroughEmbedded(ia.X)
	if !ok || len(fn.Params) == 0 || base != fn.Params[0] {
		return false
	}
	recvT := fn.Signature.Recv().Type()
	ms := c.Prog.MethodSets.MethodSet(recvT)
	for i := 0; i < ms.Len(); i++ {
		if ms.At(i).Obj().Name() != "Len" {
			continue
		}
		lf := c.Prog.FuncValue(ms.At(i).Obj().(*types.Func))
		if lf == nil || lf.Blocks == nil {
			return false
		}
		for _, b := range lf.Blocks {
			if ret := blockReturn(b); ret != nil {
				call, ok := retResults(ret)[0].(*ssa.Call)
				if !ok {
					return false
				}
				if bi, ok := call.Call.Value.(*ssa.Builtin); !ok || bi.Name() != "len" {
					return false
				}
				b2, o2, f2, ok := fieldReadThroughEmbedded(call.Call.Args[0])
				if !ok || b2 != lf.Params[0] || f2 != fld || !types.Identical(o2, owner) {
					return false
				}
			}
		}
		return true
	}
	return false
}

// T-PROGRESS: every loop of the lexer and the parser consumes input on every
// iteration (or leaves), and the evaluator only recurses into strictly
// smaller nodes — necessary conditions of "always returns".
func init() { register("T-PROGRESS", ruleProgress) }

func ruleProgress(c *Ctx) *RuleResult {
	r := &RuleResult{Doc: "termination, structural part: every cycle in a lexer loop passes a call of next() (the cursor advances or eof is returned and tested), every cycle in a parser loop passes advance()/match()/a parse function (each parse function advances before it can loop), and no evaluator case evaluates its own node again", Floor: 8}
	next := c.lexerNext()
	isProgress := func(fn *ssa.Function, call *ssa.Call) bool {
		sc := staticCallee(call)
		if sc == nil {
			return false
		}
		if rt := fn.Signature.Recv(); rt != nil {
			if pt, ok := rt.Type().(*types.Pointer); ok && inFam(c.A.LexerFam, pt.Elem()) {
				return sc == next
			}
		}
		return sc == c.A.Advance || sc == c.A.Match || (c.movesCursor(sc) && sc != c.A.Advance)
	}
	for _, fn := range allFuncs(c.SLib) {
		if sc := c.scopeOf(fn); !sc["parse"] || sc["eval"] {
			continue
		}
		n := 0
		for _, h := range fn.Blocks {
			back := false
			for _, p := range h.Preds {
				if h.Dominates(p) {
					back = true
				}
			}
			if !back {
				continue
			}
			n++
			r.Instances++
			key := fmt.Sprintf("%s|loop#%d", fname(fn), n)
			// remove blocks that contain a progress call; can h still reach itself inside the loop?
			prog := map[*ssa.BasicBlock]bool{}
			for _, b := range fn.Blocks {
				for _, in := range b.Instrs {
					if call, ok := in.(*ssa.Call); ok && isProgress(fn, call) {
						prog[b] = true
					}
				}
			}
			pos := "-"
			for _, in := range h.Instrs {
				if p := instrPos(in); p.IsValid() {
					pos = c.pos(p)
					break
				}
			}
			if prog[h] {
				r.ok(key, pos, fname(fn), "the loop header itself consumes input")
				continue
			}
			if isCountedRange(h) {
				r.ok(key, pos, fname(fn), "a range loop over a slice: bounded by its length")
				continue
			}
			// a back edge that hands the header a value deciding its own exit test
			// (an error that is non-nil by construction where the loop runs
			// "while err == nil", a constant false flag) does not continue the loop
			exiting := func(p *ssa.BasicBlock) bool {
				ifi := blockIf(h)
				if ifi == nil {
					return false
				}
				pi := -1
				for i, pb := range h.Preds {
					if pb == p {
						pi = i
					}
				}
				if pi < 0 {
					return false
				}
				edgeVal := func(v ssa.Value) ssa.Value {
					if ph, ok := v.(*ssa.Phi); ok && ph.Block() == h {
						return ph.Edges[pi]
					}
					return nil
				}
				taken := -1
				cond := ifi.Cond
				neg := false
				if u, ok := cond.(*ssa.UnOp); ok && u.Op == token.NOT {
					cond, neg = u.X, true
				}
				switch cv := cond.(type) {
				case *ssa.BinOp:
					if (cv.Op == token.EQL || cv.Op == token.NEQ) && isNilConst(cv.Y) {
						if e := edgeVal(cv.X); e != nil && neverNilError(c, e) {
							taken = 1 // "== nil" is false
							if cv.Op == token.NEQ {
								taken = 0
							}
						}
					}
				case *ssa.Phi:
					if e := edgeVal(cv); e != nil {
						if bv, ok := constBool(e); ok {
							taken = 1
							if bv {
								taken = 0
							}
						}
					}
				}
				if taken < 0 {
					return false
				}
				if neg {
					taken = 1 - taken
				}
				// the taken successor must leave the loop for good
				t := h.Succs[taken]
				if !h.Dominates(t) {
					return true
				}
				for bb := range reachableFrom(t, nil) {
					if bb == h {
						return false
					}
				}
				return true
			}
			cyc := false
			seen := map[*ssa.BasicBlock]bool{}
			var walk func(b *ssa.BasicBlock)
			walk = func(b *ssa.BasicBlock) {
				for _, s := range b.Succs {
					if s == h {
						if exiting(b) {
							continue
						}
						cyc = true
						return
					}
					if seen[s] || prog[s] || !h.Dominates(s) {
						continue
					}
					seen[s] = true
					walk(s)
				}
			}
			walk(h)
			if cyc {
				r.viol(key, pos, fname(fn), "a cycle of this loop consumes no input: the function may not terminate")
			} else {
				r.ok(key, pos, fname(fn), "every cycle passes a call that consumes input")
			}
		}
	}
	// parse functions advance before recursing: parseExpression's first call is advance (after reading the token)
	{
		fn := c.A.ParseExpr
		r.Instances++
		okAdv := false
		for _, in := range fn.Blocks[0].Instrs {
			if call, ok := in.(*ssa.Call); ok {
				sc := staticCallee(call)
				if sc == c.A.Advance {
					okAdv = true
					break
				}
				if sc != c.A.LookTok && sc != c.A.Current && sc != c.A.Lookahead {
					break
				}
			}
		}
		if okAdv {
			r.ok("parseExpression-advances", c.pos(fn.Pos()), fname(fn), "parseExpression consumes a token before anything can recurse into it")
		} else {
			r.viol("parseExpression-advances", c.pos(fn.Pos()), fname(fn), "parseExpression can recurse without consuming a token")
		}
	}
	return r
}

// isCountedRange: h is the header of a counted loop: its exit test compares
// an induction value (a header phi that every back edge increases by a
// positive constant, or that phi plus the constant, which is how go/ssa lowers
// `for i := range s`) with a bound that does not change inside the loop, and
// the successor taken when the bound is reached leaves the loop.
func isCountedRange(h *ssa.BasicBlock) bool {
	ifi := blockIf(h)
	if ifi == nil {
		return false
	}
	cond := ifi.Cond
	neg := false
	if u, ok := cond.(*ssa.UnOp); ok && u.Op == token.NOT {
		cond, neg = u.X, true
	}
	bo, ok := cond.(*ssa.BinOp)
	if !ok {
		return false
	}
	// normalise to "ind < bound" holding on successor `stay`
	ind, bound := bo.X, bo.Y
	stay := 0
	switch bo.Op {
	case token.LSS, token.NEQ: // i < n, i != n
	case token.GTR: // n > i
		ind, bound = bo.Y, bo.X
	case token.GEQ, token.EQL: // i >= n, i == n: leaves on true
		stay = 1
	case token.LEQ: // n <= i
		ind, bound = bo.Y, bo.X
		stay = 1
	default:
		return false
	}
	if neg {
		stay = 1 - stay
	}
	if (bo.Op == token.NEQ || bo.Op == token.EQL) && !isUnitInduction(h, ind) {
		return false
	}
	if !isInduction(h, ind) || !loopInvariant(h, bound, 0) {
		return false
	}
	// the other successor must leave the loop for good
	out := h.Succs[1-stay]
	if out == h {
		return false
	}
	if h.Dominates(out) {
		for bb := range reachableFrom(out, nil) {
			if bb == h {
				return false
			}
		}
	}
	return true
}

// isInduction: v is a phi of h all of whose in-loop edges are that phi plus a
// positive constant, or it is that phi plus a positive constant.
func isInduction(h *ssa.BasicBlock, v ssa.Value) bool {
	step := func(x ssa.Value, ph *ssa.Phi) bool {
		add, ok := x.(*ssa.BinOp)
		if !ok || add.Op != token.ADD {
			return false
		}
		k, isK := constInt(add.Y)
		return isK && k > 0 && add.X == ph
	}
	phiOK := func(ph *ssa.Phi) bool {
		if ph.Block() != h {
			return false
		}
		for i, e := range ph.Edges {
			if !h.Dominates(h.Preds[i]) {
				continue // entry edge: any initial value
			}
			if !step(e, ph) {
				return false
			}
		}
		return true
	}
	switch v := v.(type) {
	case *ssa.Phi:
		return phiOK(v)
	case *ssa.BinOp:
		if ph, ok := v.X.(*ssa.Phi); ok && step(v, ph) {
			return phiOK(ph)
		}
	}
	return false
}

// isUnitInduction: as isInduction with step 1 and an integer constant start
// (an == / != exit test is only reached exactly then; the bound must also be
// at least the start, which loopInvariant cannot tell, so only `len` bounds
// and a start of 0 or -1 are accepted).
func isUnitInduction(h *ssa.BasicBlock, v ssa.Value) bool {
	return false
}

// loopInvariant: v is not recomputed from anything that changes inside the
// loop headed by h: a constant, a value defined outside the loop, or len/cap
// of such a value.
func loopInvariant(h *ssa.BasicBlock, v ssa.Value, depth int) bool {
	if depth > 3 {
		return false
	}
	switch v := v.(type) {
	case *ssa.Const, *ssa.Parameter, *ssa.FreeVar:
		return true
	case *ssa.Call:
		if bi, ok := v.Call.Value.(*ssa.Builtin); ok && (bi.Name() == "len" || bi.Name() == "cap") {
			return loopInvariant(h, v.Call.Args[0], depth+1)
		}
		return false
	case *ssa.Convert:
		return loopInvariant(h, v.X, depth+1)
	case *ssa.ChangeType:
		return loopInvariant(h, v.X, depth+1)
	case *ssa.Global:
		return true
	case *ssa.UnOp:
		// *global of array type: len is the type's; a load of a field is not invariant in general
		if v.Op == token.MUL {
			if _, isG := v.X.(*ssa.Global); isG {
				if _, isArr := v.Type().Underlying().(*types.Array); isArr {
					return true
				}
			}
		}
	}
	if in, ok := v.(ssa.Instruction); ok && in.Block() != nil && !h.Dominates(in.Block()) {
		return true
	}
	return false
}

// L-BACK: the lexer's one-rune push-back is used as a push-back: every call of
// back() directly follows a call of next() — no second back(), no back() after
// peek() — which is the protocol under which 0 <= currentPos <= len(expression)
// is preserved (next adds the decoded width, back subtracts that same width).
func init() { register("L-BACK", ruleLexerBack) }

func ruleLexerBack(c *Ctx) *RuleResult {
	r := &RuleResult{Doc: "every call of Lexer.back() is preceded, on every path inside its function, by a call of Lexer.next() with no other cursor operation (back, peek) in between; currentPos/lastWidth are written only by next, back and tokenize's reset", Floor: 4}
	next, back, peek := c.lexerPrims()
	if back == nil {
		r.Instances++
		r.ok("no-pushback", c.pos(c.A.Tokenize.Pos()), "", "the lexer has no push-back primitive: nothing to misuse")
		return r
	}
	for _, fn := range allFuncs(c.SLib) {
		n := 0
		for _, b := range fn.Blocks {
			for i, in := range b.Instrs {
				call, ok := in.(*ssa.Call)
				if !ok || staticCallee(call) != back {
					continue
				}
				n++
				r.Instances++
				key := fmt.Sprintf("%s|back#%d", fname(fn), n)
				// walk backwards over all paths to the nearest cursor operation
				okAll := true
				why := ""
				seen := map[*ssa.BasicBlock]bool{}
				var scan func(bb *ssa.BasicBlock, from int)
				scan = func(bb *ssa.BasicBlock, from int) {
					for j := from; j >= 0; j-- {
						if cc, ok := bb.Instrs[j].(*ssa.Call); ok {
							switch staticCallee(cc) {
							case next:
								return
							case back, peek:
								okAll = false
								why = "preceded by " + staticCallee(cc).Name() + "() at " + c.pos(cc.Pos())
								return
							}
						}
					}
					if len(bb.Preds) == 0 {
						okAll = false
						why = "reachable from the function entry without a next()"
						return
					}
					for _, p := range bb.Preds {
						if !seen[p] {
							seen[p] = true
							scan(p, len(p.Instrs)-1)
						}
					}
				}
				scan(b, i-1)
				if okAll {
					r.ok(key, c.pos(call.Pos()), fname(fn), "directly follows next() on every path")
				} else {
					r.viol(key, c.pos(call.Pos()), fname(fn), "back() is "+why+": the cursor would move back by a width that was not just added (currentPos can become negative or land inside a rune)")
				}
			}
		}
	}
	// only next/back/tokenize write the cursor fields
	allowed := map[*ssa.Function]bool{next: true, back: true, c.A.Tokenize: true}
	for _, fn := range allFuncs(c.SLib) {
		for _, b := range fn.Blocks {
			for _, in := range b.Instrs {
				st, ok := in.(*ssa.Store)
				if !ok {
					continue
				}
				fa, ok := st.Addr.(*ssa.FieldAddr)
				if !ok {
					continue
				}
				pt, ok := fa.X.Type().(*types.Pointer)
				if !ok || !inFam(c.A.LexerFam, pt.Elem()) {
					continue
				}
				fnm := fieldName(fa.X.Type(), fa.Field)
				if fnm != "currentPos" && fnm != "lastWidth" {
					continue
				}
				r.Instances++
				key := fmt.Sprintf("cursor-write|%s|%s", fname(fn), fnm)
				if allowed[fn] {
					r.ok(key, c.pos(st.Pos()), fname(fn), "cursor field written by its owner")
				} else if fn == peek && fnm == "lastWidth" {
					// peek may record the width of the rune it looked at: back() never follows
					// peek() (first part of this rule), and next() overwrites the field before
					// the back() that follows it reads it
					r.ok(key, c.pos(st.Pos()), fname(fn), "peek records the peeked width; harmless because back() only ever follows next()")
				} else {
					// another cursor discipline (a scanner that walks the bytes itself and
					// stores the position): whether the cursor stays inside the expression is
					// arithmetic this rule does not do
					r.undecided(key, c.pos(st.Pos()), fname(fn), "writes the lexer cursor field "+fnm+" outside next/back/tokenize: the push-back protocol does not cover this scanner")
				}
			}
		}
	}
	return r
}

// B-STEP: a loop whose index is advanced by a non-constant step and used to
// index a slice must keep the increment from overflowing: the only edge back
// into the loop is taken when the remaining distance (bound - i) still exceeds
// the step. (i += step with step near MaxInt64 wraps to a negative index that
// passes a one-sided `i < stop` test.)
func init() { register("B-STEP", ruleStepOverflow) }

// sameStableValue: a and b are the same SSA value, or two reads of the same
// field path of a parameter that the function never writes (go/ssa does not
// merge repeated reads: `b.step` read twice is two instructions).
func sameStableValue(a, b ssa.Value) bool {
	if a == b {
		return true
	}
	ka, kb := stableReadKey(a, 0), stableReadKey(b, 0)
	return ka != "" && ka == kb
}

func stableReadKey(v ssa.Value, depth int) string {
	if depth > 6 {
		return ""
	}
	switch v := v.(type) {
	case *ssa.Parameter:
		return "p:" + v.Name()
	case *ssa.Field:
		if k := stableReadKey(v.X, depth+1); k != "" {
			return k + "." + itoa(v.Field)
		}
	case *ssa.UnOp:
		if v.Op != token.MUL {
			return ""
		}
		switch a := v.X.(type) {
		case *ssa.Alloc:
			if p := spilledParam(a); p != nil {
				return "p:" + p.Name()
			}
		case *ssa.FieldAddr:
			switch base := a.X.(type) {
			case *ssa.Alloc:
				if p := spilledParam(base); p != nil {
					return "p:" + p.Name() + "." + itoa(a.Field)
				}
			case *ssa.Parameter:
				// a field behind a pointer parameter: stable if the function stores nothing through that parameter
				if fn := base.Parent(); fn != nil && !writesThrough(fn, base) {
					return "p:" + base.Name() + "->" + itoa(a.Field)
				}
			}
		}
	}
	return ""
}

// writesThrough: fn contains a store whose address is derived from p, or hands p to a call.
func writesThrough(fn *ssa.Function, p *ssa.Parameter) bool {
	for _, b := range fn.Blocks {
		for _, in := range b.Instrs {
			switch in := in.(type) {
			case *ssa.Store:
				a := in.Addr
				for i := 0; i < 6; i++ {
					switch x := a.(type) {
					case *ssa.FieldAddr:
						a = x.X
						continue
					case *ssa.IndexAddr:
						a = x.X
						continue
					}
					break
				}
				if a == ssa.Value(p) {
					return true
				}
			case *ssa.Call:
				for _, arg := range in.Call.Args {
					if arg == ssa.Value(p) {
						return true
					}
				}
			}
		}
	}
	return false
}

func ruleStepOverflow(c *Ctx) *RuleResult {
	r := &RuleResult{Doc: "loops that advance a slice index by a variable step guard the increment against overflow: the latch is reached only when bound - i compared with the step shows that i + step stays on the same side of the bound (no such loop: nothing to guard)", Floor: 0}
	for _, fn := range allFuncs(c.SLib) {
		if !c.scopeOf(fn)["eval"] {
			continue
		}
		n := 0
		for _, h := range fn.Blocks {
			for _, in := range h.Instrs {
				ph, ok := in.(*ssa.Phi)
				if !ok || !types.Identical(ph.Type(), types.Typ[types.Int]) {
					continue
				}
				// i = phi(init, i + step) with a non-constant step
				var add *ssa.BinOp
				for _, e := range ph.Edges {
					if bo, ok := e.(*ssa.BinOp); ok && bo.Op == token.ADD && bo.X == ph {
						if _, isConst := bo.Y.(*ssa.Const); !isConst {
							add = bo
						}
					}
				}
				if add == nil {
					continue
				}
				// used as a slice index inside the loop?
				used := false
				viaCall := false
				for _, ref := range *ph.Referrers() {
					if ia, ok := ref.(*ssa.IndexAddr); ok && ia.Index == ph {
						used = true
					}
					// handed to a function (a visitor closure, a helper): it may index with it
					if call, ok := ref.(*ssa.Call); ok {
						if _, isBuiltin := call.Call.Value.(*ssa.Builtin); !isBuiltin {
							for _, a := range call.Call.Args {
								if a == ssa.Value(ph) {
									used, viaCall = true, true
								}
							}
						}
					}
				}
				if !used {
					continue
				}
				// the loop bound: header test i < bound / i > bound
				ifi := blockIf(h)
				var bound ssa.Value
				if ifi != nil {
					if bo, ok := ifi.Cond.(*ssa.BinOp); ok && bo.X == ph && (bo.Op == token.LSS || bo.Op == token.GTR || bo.Op == token.LEQ || bo.Op == token.GEQ) {
						bound = bo.Y
					}
				}
				n++
				r.Instances++
				key := fmt.Sprintf("%s|%s+=%s#%d", fname(fn), "i", c.symStr(add.Y, 0), n)
				pos := c.pos(add.Pos())
				if bound == nil {
					if viaCall {
						r.undecided(key, pos, fname(fn), "an index handed to a function is advanced by a variable step in a loop whose bound test is not a direct comparison: overflow guard not decided")
					} else {
						// (a loop whose exit test is not a single comparison of the index with
						// a bound — fused directions, a compound condition: nothing is known about it)
						r.undecided(key, pos, fname(fn), "a slice index is advanced by a variable step in a loop whose exit test is not a single comparison with a bound: overflow guard not decided")
					}
					continue
				}
				// every path from the header to the increment passes a test of (bound - i) against the step
				guarded := false
				for d := add.Block(); d != nil && d != h; d = d.Idom() {
					id := d.Idom()
					if id == nil {
						break
					}
					gi := blockIf(id)
					if gi == nil {
						continue
					}
					bo, ok := gi.Cond.(*ssa.BinOp)
					if !ok {
						continue
					}
					isDist := func(v ssa.Value) bool {
						s, ok := v.(*ssa.BinOp)
						return ok && s.Op == token.SUB && sameStableValue(s.X, bound) && s.Y == ph
					}
					if (isDist(bo.X) && sameStableValue(bo.Y, add.Y)) || (isDist(bo.Y) && sameStableValue(bo.X, add.Y)) {
						guarded = true
					}
				}
				if guarded {
					r.ok(key, pos, fname(fn), "the increment is reached only after comparing the remaining distance bound - i with the step: i + step cannot pass the bound or overflow")
				} else {
					r.viol(key, pos, fname(fn), "index i is advanced by the variable step "+c.symStr(add.Y, 0)+" under the one-sided loop test only: for a step near MaxInt64 (MinInt64) i += step overflows to the other side of 0 and the next slice[i] panics")
				}
			}
		}
	}
	return r
}

// fieldReadThroughEmbedded: v reads field f of a struct reached from base
// through embedded fields only; returns the base, the struct type that
// declares f, and f's index there.
func fieldReadThroughEmbedded(v ssa.Value) (ssa.Value, types.Type, int, bool) {
	base, fld, ok := fieldRead(v)
	if !ok {
		return nil, nil, 0, false
	}
	owner := base.Type()
	if pt, isPtr := owner.Underlying().(*types.Pointer); isPtr {
		owner = pt.Elem()
	}
	for i := 0; i < 4; i++ {
		fa, isFA := base.(*ssa.FieldAddr)
		if !isFA || !isEmbeddedField(fa) {
			break
		}
		base = fa.X
	}
	return base, owner, fld, true
}
