package main

import (
	"encoding/json"
	"fmt"
	jp "github.com/jmespath/go-jmespath"
)

func try(expr string, doc string) {
	var d interface{}
	if err := json.Unmarshal([]byte(doc), &d); err != nil { panic(err) }
	defer func() {
		if r := recover(); r != nil { fmt.Printf("%-40s PANIC %v\n", expr, r) }
	}()
	r, err := jp.Search(expr, d)
	after, _ := json.Marshal(d)
	if string(after) != doc { fmt.Printf("%-40s DOC MUTATED %s\n", expr, after) }
	if err != nil { fmt.Printf("%-40s ERR %v\n", expr, err); return }
	b, merr := json.Marshal(r)
	fmt.Printf("%-40s => %s %v (%#v)\n", expr, b, merr, r)
}

func main() {
	try("abs(`\"a\"`)[]", `{}`)
	try("abs(`\"a\"`)[?@]", `{}`)
	try("abs(`\"a\"`).*", `{}`)
	try("*.type(@)", `{"a":1}`)
	try("[0", `[1]`)
	try("a\u0080", `{}`)
	try("merge('a')", `{}`)
	try("contains(`[[1]]`,`[1]`)", `{}`)
	try("@(a)", `{}`)
	try("sort_by(@, &a)", `[{"a":2},{"a":1}]`)
	try("avg(`[]`)", `{}`)
	try("to_number('inf')", `{}`)
	try("to_number('nan')", `{}`)
	try("sort_by(`[{}]`,&@)", `{}`)
	try("max_by(`[{}]`,&@)", `{}`)
	try("length(a b)", `{"a":"x"}`)
	try("length(a,)", `{"a":"x"}`)
	try("{a: b c: d}", `{"b":1}`)
	try("a.*.b.c", `{"a":{"x":{"b":{"c":1}}}}`)
	try("[1::9223372036854775807]", `[1,2,3]`)
	try("[:1 2]", `[1,2,3]`)
	try("[0:1:2:]", `[1,2,3]`)
}
