#!/usr/bin/env python3
"""Regenerates /verif/MANIFEST.json from the table below (kept next to the checker so that
claimed properties, techniques and not_applicable reasons are edited in one place)."""
import json, subprocess
ENV = "GOFLAGS=-mod=mod GOPROXY=off GOSUMDB=off GOTOOLCHAIN=local GOWORK=off"
TRUST = ("Trusted: Go type checker and go/ssa construction (x/tools v0.29.0); the checker's hand-written models of "
         "standard-library callees; absence of unsafe/cgo/reflect.Set/goroutines, itself checked by rule BAN. "
         "Sound-by-argument home-grown analysis, not mechanically certified; decides the structural clause named in "
         "level_claimed.text, not the behaviour as a whole (DESIGN.md §4 says what is not decided).")
claimed = {
 "C03": ("static analysis: constant evaluation of the precedence table + per-call-site right-binding-power oracle (go/types, go/ssa); finite-domain folding of the lexer dispatch",
         "Decides the structural clauses of C03: the evaluated binding-power table orders infix tokens as the specification does; the Pratt loop compares rbp < power(current) strictly and dispatches that same token; every parseExpression/parseDotRHS/parseProjectionRHS call site passes a power whose absorbed-token set equals the specification's for that construct (left associativity, projection scope, prefix !); the projection-stop threshold separates terminators from dot/bracket/filter; '(' returns the inner node unchanged; whitespace runes dispatch to 'skip, no effect'. Breaking any of these changes grouping for some sentence; not decided: that each nud/led assembles the right node.", "§4 C03"),
 "C04": ("static analysis: error-discipline dataflow (SSA def-use + CFG reachability), CFG x DFA event-language inclusion with a current-token fact, AST/SSA producer-consumer shape tables, finite-domain folding of lexer predicates",
         "Decides necessary structural conditions of 'accepts exactly the grammar': no lexer/parser error is dropped or followed by a success return; no (empty node, nil) return; the three list loops spell element (sep element)* close; Parse succeeds only at EOF after one expression; a callee is an identifier node; every produced node type has an evaluator case; the rune dispatch and scanner predicates equal the lexical grammar for every rune; literals are decoded from their whole text by encoding/json. Not decided: language equality as a whole (slice bracket, completeness of nud/led).", "§4 C04"),
 "C11": ("static analysis: error-discipline dataflow over SSA (E1/E1p/E2/E2-latch) + must-pass-through on the slice-step test",
         "Decides that every error value produced while evaluating (recursive evaluator calls, function calls, type checks, slice, marshal) is tested or forwarded on every path, that no return reachable from its non-nil edge reports success or continues the loop, that failures latched inside sort comparisons are reported, and that a zero slice step is raised on every path of slice(). Not decided: which operands must be evaluated at all (threading) and errors that should have been raised (C10).", "§4 C11"),
 "C14": ("static analysis: finite-domain constant folding of the lexer's pure dispatch/scan predicates over all runes + provenance (symbolic def-use) of decoder inputs",
         "Decides: for every rune of the domain (quick: U+0000..U+3000 + samples, thorough: all 1,114,113) tokenize dispatches as the lexical grammar says (identifier start [A-Za-z_], single-character tokens, whitespace {SP,TAB,LF,CR} skipped, unknown characters rejected) and the identifier/number scanners continue exactly on [A-Za-z0-9_]/[0-9] without panicking; quoted identifiers and backtick literals are decoded by json.Unmarshal from exactly the delimited text (only \\` replaced); raw strings and identifiers reach the node unchanged. Not decided: the escape layers as a value-level round trip over all strings.", "§4 C14"),
 "C17": ("static analysis: SSA path/provenance rules on Compile, MustCompile, SyntaxError literals and HighlightLocation",
         "Decides: every return of Compile is (fresh non-nil expression, nil) or (nil, error non-nil on that path); MustCompile's only panic is on Compile's failure edge, names the expression, and the normal return is unreachable from that edge; every SyntaxError literal takes Expression from the stored input (stored before any call) and Offset from len(expression)/cursor-1/a token position; the caret string is Expression + newline + Offset spaces + caret; no parser function returns (empty node, nil); the lexer dispatch cannot panic for any rune. Not decided: 0 <= Offset <= len numerically.", "§4 C17"),
 "C19": ("static analysis: dominance/provenance rules on cmd/jpgo's run() and main() + error-discipline dataflow",
         "Decides: status 0 outside -ast is returned only after Parse, a whole-input read, json.Unmarshal, jmespath.Search(expression, decoded input) and json.Marshal* succeeded and exactly one plain stdout print of that serialised result (never as a format string); no other stdout write outside -ast; every failure edge returns non-zero; main is os.Exit(run()). Trusts flag/os/fmt/encoding/json.", "§4 C19"),
 "C06": ("static analysis: whole-library allocation-site points-to / mod analysis (Andersen-style, field-sensitive heap objects, resolved through the function table and sort adapters) + ban rules",
         "Decides: no write instruction (store, map update, append into spare capacity, copy, delete, in-place sort, modelled library write) in any function reachable from Search/(*JMESPath).Search - in every handler and argument position, on success and error paths alike - may target memory reachable from the document; no reflect.Set*/unsafe. This is the property itself up to the soundness of the abstraction and the tabulated standard-library models.", "§4 C06"),
 "C12": ("static analysis: mod analysis (Own) restricted to shared objects + ban rules (no goroutines/sync/global writes) + constructor freshness",
         "Decides the structural argument for race freedom: the library starts no goroutines and has no synchronisation to get wrong; no package-level variable is written outside initialisation; every write reachable from (*JMESPath).Search / Search targets only objects allocated in that activation - never anything reachable from the compiled expression (AST, literal payloads, interpreter, function table), package-level state or the document; constructors return fresh objects. Two calls therefore share only memory nobody writes. Trusts runtime/reflect/encoding/json/sort.", "§4 C12"),
 "C13": ("static analysis: mod analysis (Own) on the receiver + must-store-before-read rule on Parser/Lexer fields + API skeleton provenance + map-order rule + ban rules",
         "Decides: Search writes nothing reachable from the compiled expression (so it is identical before and after any call, failing or not); Parse stores every Parser field before any method reads it and tokenizes with a Lexer that is fresh (or whose every read field is reset); Search(expr,d) and Compile(expr).Search(d) evaluate Execute(fresh interpreter, Parse(fresh parser, expr), d) alike; no clock/randomness/environment; Go map order can only show through keys(), values() and the object wildcard.", "§4 C13"),
}
na = {
 "C08": "piecewise integer arithmetic over all of Z^3 with machine overflow: not visible in the shape of the code; its structural clauses (non-array => null, zero step => error) are decided under C01/C11 (DESIGN §6)",
}
pending = "engine for this property is still being built in this round (DESIGN §9 build order); not claimed until it is tested both ways"
props=[json.loads(l)['id'] for l in open('/verif/properties.jsonl')]
checks=[]
for p in props:
    if p in claimed:
        tech,text,ref=claimed[p]
        checks.append({"property_id":p,
          "quick_cmd":f"./bin/jpcheck -property {p} -tier quick",
          "thorough_cmd":f"./bin/jpcheck -property {p} -tier thorough",
          "evidence_file":f"/verif/evidence/{p}.json",
          "replay_cmd_template":"./bin/jpcheck -explain {path}",
          "engine":"jpcheck",
          "level_claimed":{"category":"other","text":text,"design_ref":"DESIGN.md "+ref},
          "level_note":TRUST,
          "technique":tech})
m={"version":1,
 "setup_cmd":f"mkdir -p /verif/bin /verif/evidence && cd /verif/checker && {ENV} go build -o /verif/bin/jpcheck .",
 "hooks":{"guard":"verif","enable":"no hooks: the checker only reads /repo's sources (thorough tier also loads them with -tags verif and requires identical verdicts)","baseline_off_cmd":"cd /repo && GOFLAGS=-mod=mod go test -vet=off -count=1 ./... && cd internal/testify && GOFLAGS=-mod=mod go test -vet=off -count=1 ./...","source_commits":[],"add_only":True},
 "engines":[{"name":"jpcheck","path":"/verif/checker","serves_properties":[c["property_id"] for c in checks],"kind_free_text":"repository-specific static analyser (go/packages + go/types + go/ssa, x/tools v0.29.0): Tables, Shape, ErrDisc, PathLang, Fold, Own, KindAI, Thread engines; never executes repository code"}],
 "checks":checks,
 "notes":"Static analysis only. Every check reloads /repo's working tree. exit 0 = all obligations discharged (KNOWN-FINDING lines for listed findings); exit 1 + VIOLATION lines = unlisted violation; exit 2 = checker/anchor failure (never a verdict). Known findings and fixed defects: /verif/known_findings.json. Seeded variants and which rule catches which: /verif/seeded, DESIGN.md §8.",
 "not_applicable":[{"property_id":p,"reason":na.get(p,pending)} for p in props if p not in claimed]}
json.dump(m,open('/verif/MANIFEST.json','w'),indent=1)
print("claimed:",[c["property_id"] for c in checks])
