#!/bin/bash
# usage: tools/try.sh <patch.diff | -e 'sed-expr file'> prop...   — applies a patch in a scratch worktree and runs the quick checks there (-repo).
cd /verif
patch=$(realpath "$1"); shift
wt=$(mktemp -d /tmp/try.XXXXXX)
git -C /repo worktree add -q --detach $wt HEAD || exit 3
trap 'git -C /repo worktree remove --force $wt 2>/dev/null; rm -rf $wt' EXIT
git -C $wt apply "$patch" || { echo PATCH-DOES-NOT-APPLY; exit 3; }
for p in "$@"; do
  out=$(VERIF_DIR=/verif ./bin/jpcheck -repo $wt -property $p -no-evidence -v 2>&1); rc=$?
  echo "== $p rc=$rc"
  echo "$out" | grep -a -A1 '^violation\|^undecided\|^ANCHOR\|^VACUOUS\|^CHECKER\|^GAP' | cut -c1-700 | head -${TRY_LINES:-12}
done
