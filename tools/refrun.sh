#!/bin/bash
# usage: tools/refrun.sh <dir-with-rK/patch.diff>...  — behaviour-preserving refactorings: every check must stay silent.
cd /verif
props=$(jq -r '.checks[].property_id' MANIFEST.json | tr '\n' ' ')
one() {
  d=$1; name=$(basename $(dirname $d))/$(basename $d)
  wt=$(mktemp -d /tmp/rf.XXXXXX)
  git -C /repo worktree add -q --detach $wt HEAD 2>/dev/null || { echo "$name WORKTREE-FAIL"; return; }
  if ! git -C $wt apply $(realpath $d/patch.diff) 2>/dev/null; then echo "$name	PATCH-DOES-NOT-APPLY"; git -C /repo worktree remove --force $wt; return; fi
  export GOFLAGS=-mod=mod GOPROXY=off GOSUMDB=off GOTOOLCHAIN=local
  if ! (cd $wt && go build ./... >/dev/null 2>&1 && go test -vet=off -count=1 ./... >/dev/null 2>&1); then echo "$name	BUILD-OR-TEST-FAIL"; git -C /repo worktree remove --force $wt; return; fi
  res=""
  for p in $props; do
    out=$(VERIF_DIR=/verif ${JPCHECK:-/verif/bin/jpcheck} -repo $wt -property $p -no-evidence 2>&1); rc=$?
    if [ $rc -ne 0 ]; then res="$res $p(rc=$rc)"; echo "$out" | grep -a -A1 '^violation\|^undecided\|^ANCHOR\|^VACUOUS\|^CHECKER' | head -6 | sed "s|^|    [$name $p] |" | cut -c1-330 >> ${REFRUN_DETAILS:-/tmp/refrun_details.txt}; fi
  done
  echo "$name	${res:- silent}"
  git -C /repo worktree remove --force $wt
}
export -f one; export props
: > ${REFRUN_DETAILS:-/tmp/refrun_details.txt}
printf '%s\n' "$@" | xargs -P ${REFRUN_JOBS:-5} -I{} bash -c 'one {}' | sort
