#!/bin/bash
# usage: tools/seedrun.sh <patch.diff> [-R] [property ...]
# Applies the patch to /repo, runs the listed (default: all claimed) quick checks,
# prints per-property exit codes and VIOLATION lines, and always restores /repo.
set -u
patch=$(realpath "$1"); shift
rev=""
if [ "${1:-}" = "-R" ]; then rev="-R"; shift; fi
cd /verif
props="$*"
if [ -z "$props" ]; then props=$(jq -r '.checks[].property_id' MANIFEST.json); fi
if [ -n "$(git -C /repo status --porcelain)" ]; then echo "repo not clean"; exit 3; fi
restore() { git -C /repo checkout -q -- . ; git -C /repo clean -fdq; }
trap restore EXIT
if ! git -C /repo apply $rev "$patch"; then echo "PATCH-DOES-NOT-APPLY"; exit 3; fi
export GOFLAGS=-mod=mod GOPROXY=off GOSUMDB=off GOTOOLCHAIN=local
if ! (cd /repo && go build ./... 2>&1 | head -5); then echo BUILD-FAIL; fi
caught=""
for p in $props; do
  out=$(./bin/jpcheck -property $p -no-evidence 2>&1); rc=$?
  if [ $rc -ne 0 ]; then
    caught="$caught $p(rc=$rc)"
    echo "$out" | grep -E "^(violation|undecided|ANCHOR-LOST|CHECKER-PANIC|VACUOUS|CONFIG-DIFF)" -A1 | head -${SEED_LINES:-12}
  fi
done
echo "RESULT patch=$patch caught:${caught:- none}"
