#!/usr/bin/env python3
"""Prints, from seeded/MATRIX.tsv, the numbers and the per-rule table used in DESIGN.md §8."""
import sys, collections
m = sys.argv[1] if len(sys.argv) > 1 else '/verif/seeded/MATRIX.tsv'
rows = [l.rstrip('\n').split('\t') for l in open(m) if l.strip()]
total = len(rows)
rep = own = 0
notrep = []
by_rule = collections.defaultdict(list)
for r in rows:
    name, pid, caught = r[0], r[1], r[2].split()
    rules = r[3].split() if len(r) > 3 else []
    c1 = [c for c in caught if '(' not in c and c != 'none']
    if c1:
        rep += 1
        if pid in c1:
            own += 1
    else:
        notrep.append((name, r[2].strip()))
    for ru in rules:
        if ru != 'P-DOTRHS':
            by_rule[ru].append(name)
print(f"variants {total} reported {rep} by-own-property {own} not-reported {len(notrep)}")
for n, c in notrep:
    print("  not reported:", n, "|", c)
print()
print("| rule | variants reported | which |")
print("|------|------|-------|")
for ru in sorted(by_rule):
    v = sorted(set(by_rule[ru]))
    print(f"| {ru} | {len(v)} | {', '.join(v)} |")
