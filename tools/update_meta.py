#!/usr/bin/env python3
"""Fills detected_by in seeded/*/meta.json from seeded/MATRIX.tsv (written by tools/seedmatrix.sh)."""
import json, sys, os
m = sys.argv[1] if len(sys.argv) > 1 else '/verif/seeded/MATRIX.tsv'
for l in open(m):
    r = l.rstrip('\n').split('\t')
    if len(r) < 3:
        continue
    name, caught = r[0], r[2].split()
    rules = r[3].split() if len(r) > 3 else []
    p = f'/verif/seeded/{name}/meta.json'
    if not os.path.exists(p):
        continue
    meta = json.load(open(p))
    meta['detected_by'] = {
        'checks': [c for c in caught if '(' not in c and c != 'none'],
        'checker_failure_exit2': [c.split('(')[0] for c in caught if '(rc=2)' in c],
        'rules': rules,
    }
    json.dump(meta, open(p, 'w'), indent=1)
    open(p, 'a').write('\n')
