#!/bin/bash
# usage: tools/verify_seed.sh <seed dir>   — confirms in a scratch worktree that
#  (1) the demo passes on HEAD, (2) with the patch: build+vet ok, suite passes, demo fails.
set -u
d=$(realpath "$1")
wt=$(mktemp -d /tmp/vseed.XXXXXX)
export GOFLAGS=-mod=mod GOPROXY=off GOSUMDB=off GOTOOLCHAIN=local
git -C /repo worktree add -q --detach "$wt" HEAD || exit 3
cleanup() { git -C /repo worktree remove --force "$wt" 2>/dev/null; rm -rf "$wt"; }
trap cleanup EXIT
cd "$wt"
rundemo() {
  if [ -f "$d/demo_test.go" ]; then
    if grep -q '^package main' "$d/demo_test.go"; then mkdir -p cmd/jpgo && cp "$d/demo_test.go" cmd/jpgo/zz_demo_test.go; (cd cmd/jpgo && go test -vet=off -count=1 . >/tmp/vseed_demo.log 2>&1); rc=$?; rm -f cmd/jpgo/zz_demo_test.go; return $rc; fi
    cp "$d/demo_test.go" zz_demo_test.go; timeout 300 go test -vet=off -count=1 -run 'Demo|Seed|Mutation|Test' ./ >/tmp/vseed_demo.log 2>&1; rc=$?; rm -f zz_demo_test.go; return $rc
  fi
  return 9
}
res=""
if rundemo; then res="demo-pass-on-HEAD"; else res="DEMO-FAILS-ON-HEAD"; fi
if ! git apply "$d/patch.diff"; then echo "$d: PATCH-DOES-NOT-APPLY"; exit 1; fi
if go build ./... >/dev/null 2>&1 && go vet ./... >/dev/null 2>&1; then res="$res build+vet-ok"; else res="$res BUILD-OR-VET-FAIL"; fi
if go test -vet=off -count=1 ./... >/tmp/vseed_suite.log 2>&1; then res="$res suite-pass"; else res="$res SUITE-FAILS"; fi
if rundemo; then res="$res DEMO-PASSES-WITH-PATCH"; else res="$res demo-fails-with-patch"; fi
echo "$(basename $(dirname $d))/$(basename $d): $res"
