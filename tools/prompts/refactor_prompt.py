#!/usr/bin/env python3
"""Writes the prompt given to the independent refactoring agents (negative controls, DESIGN §8b).
usage: refactor_prompt.py <area> <worktree> <outdir>   (area: lexer parser interp functions utilapi jpgo whole)"""
import sys
AREAS = {
 'lexer': 'lexer.go (the tokenizer)',
 'parser': 'parser.go (the Pratt parser)',
 'interp': 'interpreter.go (the tree-walking evaluator and its reflection helpers)',
 'functions': 'functions.go (built-in function table, type checks, handlers, sort adapters)',
 'utilapi': 'util.go and api.go (truthiness, slicing helpers, type helpers; Compile, MustCompile, Search, JMESPath.Search)',
 'jpgo': 'cmd/jpgo/main.go (the command-line tool: run(), errMsg, main)',
 'whole': 'the whole library across files (any of lexer.go, parser.go, interpreter.go, functions.go, util.go, api.go; astnodetype_string.go/toktype_string.go are generated - leave those alone)',
}
STYLES = """  1. File organisation: move several functions (or a type with its methods) into a new or another existing .go file of the package, or split a file in two, or rename a non-generated file; no code changes beyond that (package jmespath stays). Remember `git add -N` new files so that `git diff` shows them.
  2. Renaming: systematically rename unexported functions, methods, types, struct fields, receivers, parameters and locals in one area to better names (keep exported API names).
  3. Control-flow restyling without helpers: early returns vs. nested if/else, switch vs. if chains, `for { }` with break vs. conditional loops, de Morgan rewrites of conditions, swapping the order of independent checks, inverting a condition and swapping branches.
  4. Data restyling: named constants for literals, a struct literal built field by field instead of at once (or the reverse), positional vs. keyed composite literals, a small lookup table (array/map/switch) replacing another equivalent form, value vs. pointer receivers where it does not matter.
  5. Error handling restyling: sentinel/package-level error variables or small error constructor helpers with the same messages, `fmt.Errorf` vs `errors.New` with identical text, wrapping the error creation in helper functions, single exit point with a named error result.
  6. Performance-neutral "modernisation": `strings.Builder` for `bytes.Buffer` (or reverse), `strings.ReplaceAll` for `Replace(...,-1)`, `sort.SliceStable` with an equivalent less function where a sort.Interface type was used (stability and order must be identical), preallocating slices with make+append of the same elements, `switch x := v.(type)` for chains of type assertions.
  7. Defensive but unreachable code and comments/docs: adding assertions that cannot fire, default branches that return the same error as before, extensive doc comments, build-tag free debug helpers that are never called.
  8. Generalising: give an existing function an extra parameter / option struct / variadic option so that two or three near-duplicate functions collapse into one (or the reverse: specialise one general function into two), updating all callers; behaviour identical.
  9. Dispatch restyling: replace a switch by a dispatch table (map or array of functions or method values, built once in a package-level var that is never written afterwards, or built locally) or replace a table by a switch; or replace a chain of `if x == A || x == B` by a small set/lookup helper.
  10. Type restyling: split a struct into two (e.g. configuration vs. per-call state), embed a struct, introduce a small unexported interface with one implementation, turn a method into a function taking the receiver as parameter (or the reverse), introduce a named type for a primitive (with the same underlying type) and use it consistently.
  11. Loop restyling: index loops vs. range loops, loop fusion or fission, hoisting loop-invariant computations into locals, replacing recursion over a slice by iteration where trivially equivalent, `goto`-free state variables replaced by labelled break/continue (or the reverse), visitor/callback style (`forEach(func(...) bool)`) instead of an inline loop.
  12. Inlining (the reverse of helper extraction): inline small one- or two-use helper functions into their callers and delete them, fold trivial wrapper methods away, merge two tiny files' contents.
  13. Custom error types: replace `errors.New`/`fmt.Errorf` results by a small unexported error struct type (or several) implementing `Error()` with exactly the same text, where callers and the API only expose the text; keep exported error types (SyntaxError) and their fields exactly as they are.
  14. Standard-library idioms with identical semantics: `strings.IndexByte`/`HasPrefix`/`TrimSuffix`/`utf8.*`/`strconv.*` helpers instead of hand-written loops (or the reverse), `append(dst, src...)` vs copy, `bytes.Buffer` vs `strings.Builder`, `math.Floor`/integer conversion only where provably identical for all inputs.
  15. A realistic multi-step pull request that COMBINES three of the styles above in one patch of at least ~60 changed lines.
"""
def prompt(area, wt, out):
    test = f"cd {wt} && go test -vet=off -count=1 ./..."
    if area == 'jpgo':
        test += "   (cmd/jpgo has no tests of its own; build it with go build ./cmd/jpgo and compare its output and exit status on a set of inputs before/after)"
    return f"""You are helping to test a static-analysis based verification effort for the Go library jmespath/go-jmespath (JMESPath JSON query language: lexer, Pratt parser, tree-walking interpreter, built-in functions, and the CLI cmd/jpgo). The analysers must NOT raise false alarms on correct code, so we need realistic, BEHAVIOUR-PRESERVING edits of many different styles.

Your scratch git worktree of the repository is at {wt} .
Every shell command needs:  export GOFLAGS=-mod=mod GOPROXY=off GOSUMDB=off GOTOOLCHAIN=local   (no network exists). The test suite is:  {test}
Do NOT use `git stash` (the stash is shared between worktrees). To restore the worktree between changes use `git -C {wt} checkout -- . && git -C {wt} clean -fdq`. Work ONLY inside {wt} and {out}. Do not read or write /repo, /verif or other scratch worktrees.

YOUR TASK: produce FIVE different, independent, behaviour-preserving changes centred on {AREAS[area]}. Make each of the five a DIFFERENT style from this list (pick five):
{STYLES}Each change must
  (a) compile (go build ./... and go vet ./... fine) and keep the whole existing test suite passing, unedited,
  (b) NOT change the observable behaviour for ANY input (same results, same error-or-not and same error text/fields where the API exposes them, no new panics, no new shared mutable state across calls or goroutines, no package-level mutable state that is written after init, no use of sync/unsafe/time/rand/os-environment, same complexity class). Be careful: if in doubt, choose a safer change. State your argument for equivalence.
  (c) be substantial: at least ~15 changed lines each.
For each change k in 1..5 write into {out}/r<k>/ :
  - patch.diff : `git diff` against the worktree's HEAD including new files (must apply with `git apply` to a clean checkout of HEAD),
  - notes.md   : which style (number) it is, what was changed and a short argument why behaviour is identical for all inputs; the commands you ran.
Restore the worktree between changes so that every patch is against the clean HEAD (also remove files you added). Leave the worktree clean at the end.
Your final answer should be short: one line per change.
"""
if __name__ == '__main__':
    area, wt, out = sys.argv[1:4]
    print(prompt(area, wt, out), end='')
