#!/usr/bin/env python3
"""Writes the prompt given to the independent mutation agents (seeded variants, DESIGN §8): only the text
of one property and a scratch worktree.  usage: mutate_prompt.py <property-id> <worktree> <outdir>"""
import sys, json
def prompt(pid, wt, out):
    p = next(json.loads(l) for l in open('/verif/properties.jsonl') if json.loads(l)['id'] == pid)
    return f"""You are helping to test a verification effort for the Go library jmespath/go-jmespath (JMESPath JSON query language: lexer, Pratt parser, tree-walking interpreter, built-in functions, and the small CLI cmd/jpgo).

Your own scratch git worktree of the repository is at {wt} .
Every shell command needs:  export GOFLAGS=-mod=mod GOPROXY=off GOSUMDB=off GOTOOLCHAIN=local   (no network exists). The test suite is:  cd {wt} && go test -vet=off -count=1 ./...
Do NOT use `git stash` (the stash is shared between worktrees). To restore the worktree between changes use `git -C {wt} checkout -- . && git -C {wt} clean -fdq`. Work ONLY inside {wt} and {out}. Do not read or write /repo, /verif or other scratch worktrees.

THE PROPERTY (this is all you are given):

  Title: {p['title']}
  Statement: {p['statement']}
  Quantified over: {p['quantifier']['text']}

YOUR TASK: produce TWO different, independent source changes (mutations) to the library (non-test .go files only; do not edit tests or compliance/*.json), each of which
  (a) still compiles (go build ./... and go vet ./... fine),
  (b) keeps the whole existing test suite passing, unedited,
  (c) makes the property above FALSE for some input / sequence of calls,
  (d) looks like a plausible, realistic regression a developer could introduce (a refactor gone slightly wrong, an "optimisation", a dropped or weakened check, an off-by-one, a wrong but similar library call, a cache, a reordered statement, a copy-paste between sibling functions), NOT a special-case on a magic input, and
  (e) is SUBTLE: it should survive a careful code review - prefer changes spread over two cooperating places, changes hidden inside a larger legitimate refactoring, or changes whose effect shows only for an unusual combination (deep nesting, a rarely used function in a rarely used position, Go structs instead of JSON maps, an error raised inside a projection inside a function argument, repeated use of one compiled expression, ...). Avoid the most obvious ideas (simply deleting a nil check or an error check at its obvious place); think about what a static checker that looks at each function in isolation would miss.
The two changes should touch DIFFERENT mechanisms of the code.

For each change k in 1..2 write into {out}/v<k>/ :
  - patch.diff   : `git diff` of the change against the worktree's HEAD (must apply with `git apply` to a clean checkout of HEAD),
  - demo_test.go : package jmespath (or jmespath_test; for cmd/jpgo: package main), to be dropped in the repo root (or cmd/jpgo) and run with `go test -vet=off -count=1 .`; it must FAIL with the change applied and PASS on the unchanged HEAD,
  - notes.md     : 5-10 lines: what was changed, why the test suite does not notice, what exactly is needed for it to manifest, and the exact commands you ran to confirm (a),(b),(c) and that the demonstration passes without the change.
Confirm all of this yourself by actually running the commands. Restore the worktree between changes so that every patch is against the clean HEAD. Leave the worktree clean at the end.
Your final answer should be short: for each change one line saying which file/function it touches and what input exposes it.
"""
if __name__ == '__main__':
    print(prompt(*sys.argv[1:4]), end='')
