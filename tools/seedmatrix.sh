#!/bin/bash
# usage: tools/seedmatrix.sh [seed-dir ...]  — runs every claimed check against every seed,
# each seed in its own scratch worktree (checker flag -repo), 6 seeds in parallel.
# Writes /verif/seeded/MATRIX.tsv (seed <tab> breaks <tab> caught-by...).
cd /verif
seeds="$@"; [ -z "$seeds" ] && seeds=$(ls -d seeded/*/ | sed 's|/$||')
props=$(jq -r '.checks[].property_id' MANIFEST.json | tr '\n' ' ')
one() {
  s=$1; name=$(basename $s)
  wt=$(mktemp -d /tmp/sm.XXXXXX)
  git -C /repo worktree add -q --detach $wt HEAD 2>/dev/null || { echo "$name	WORKTREE-FAIL"; return; }
  if ! git -C $wt apply $(realpath $s/patch.diff) 2>/dev/null; then echo "$name	PATCH-DOES-NOT-APPLY"; git -C /repo worktree remove --force $wt; return; fi
  caught=""; rules=""
  for p in $props; do
    out=$(VERIF_DIR=/verif /verif/bin/jpcheck -repo $wt -property $p -no-evidence 2>&1); rc=$?
    if [ $rc -eq 1 ]; then caught="$caught $p"; rules="$rules $(echo "$out" | grep -a '^violation' | awk '{print $2}' | sort -u | tr '\n' ',')"; 
    elif [ $rc -ne 0 ]; then caught="$caught $p(rc=$rc)"; fi
  done
  breaks=$(jq -r '.breaks_property' $s/meta.json)
  echo "$name	$breaks	${caught:- none}	$(echo $rules | tr ' ' '\n' | tr ',' '\n' | sort -u | tr '\n' ' ')"
  git -C /repo worktree remove --force $wt
}
export -f one; export props
printf '%s\n' $seeds | xargs -P ${MATRIX_JOBS:-6} -I{} bash -c 'one {}' | sort > ${MATRIX_OUT:-seeded/MATRIX.tsv}
cat ${MATRIX_OUT:-seeded/MATRIX.tsv}
